"""aldi/differentiators.py + aldi/adaptations.py  ->  coq/gen/AldiGen.v

Regenerated on every run (fail closed):

* every differentiation rule of class ``Atom`` (one method per operator/function) as a
  Gallina function on dual numbers ``(value, diff)`` over the carrier record
  ``lib/Dual.v: DArith``; methods whose second operand may be an Atom or a plain number
  (``hasattr(other, "_is_atom")``) are emitted twice: ``_aa`` (Atom x Atom) and ``_ac``
  (Atom x constant);
* the property ``Atom.diff`` (chain rule of log-variables) as ``atom_diff``;
* which reflected operators exist (``has_rpow``), the public function methods of ``Atom``
  (``atom_methods``) and the names offered in equations (``offered``, from
  ``adaptations._ELEMENTWISE_FUNCTIONS``) together with the dispatch template.

The accepted Python subset is deliberately small: straight-line assignments, the static
tests ``hasattr(x, "_is_atom")``, arithmetic, calls of ``_np.log/exp/sqrt/copy``,
``_sp.special.expit``, calls of other Atom methods, ``type(self).no_context(v, d, False)``,
and numpy boolean-mask assignments ``a[mask] = v`` which are read element by element
(``a := if mask then v else a``).  Anything else raises TranslatorError.
"""
from __future__ import annotations

import ast
import copy
from fractions import Fraction

from vf import core
from vf.core import TranslatorError
from . import pyexpr as px

SRC_D = "irispie/aldi/differentiators.py"
SRC_A = "irispie/aldi/adaptations.py"
SRC_F = "irispie/aldi/finite_differentiators.py"
OUT = "gen/AldiGen.v"
OUT_FD = "gen/AldiFdGen.v"      # the finite-difference wrapper (over R; kept apart: it needs Reals)

# ---------------------------------------------------------------------------------------
# parts of class Atom that are plumbing, not rules: their text is pinned (fail closed)
# ---------------------------------------------------------------------------------------
INFRA = {
    "__init__": "def __init__(self) -> None:\n    self._value = None\n    self._diff = None\n    self._logly = None\n"
                "    self._data_index = None\n    self._row_index = None\n    self._column_index = None",
    "no_context": "@classmethod\ndef no_context(klass, value: Real, diff: Real, /, logly: bool | None=False) -> Self:\n"
                  "    self = klass()\n    self._value = value\n    self._diff = diff\n"
                  "    self._logly = logly if logly is not None else False\n    return self",
    "in_context": "@classmethod\ndef in_context(klass, /, diff: _np.ndarray | Real, data_index: tuple[int, slice], logly: bool) -> Self:\n"
                  "    self = Atom()\n    self._diff = diff\n    self._data_index = data_index\n"
                  "    self._row_index = data_index[0]\n    self._column_index = data_index[1]\n"
                  "    self._logly = logly if logly is not None else False\n    return self",
    "zero": "@classmethod\ndef zero(klass, diff_shape: tuple[int, int], /) -> Self:\n"
            "    return klass.no_context(0, _np.zeros(diff_shape, dtype=_np.float64), False)",
    "value": "@property\ndef value(self, /):\n    if self._value is not None:\n        return self._value\n    else:\n"
             "        column_index = self._column_index + self._column_offset\n"
             "        return self._data_context[self._row_index, column_index]",
}
CLASS_ATTRS = {"_data_context": "None", "_column_offset": "0", "_is_atom": "True"}

# method name -> (coq base name, kind)
#   'u'  unary rule,  'b' binary with Atom-or-constant operand,  'r' reflected (constant operand only),
#   's'  helper taking a plain number and returning (value, diff)
METHODS = {
    "__pos__": ("atom_pos", "u"), "__neg__": ("atom_neg", "u"),
    "__add__": ("atom_add", "b"), "__sub__": ("atom_sub", "b"), "__mul__": ("atom_mul", "b"),
    "__truediv__": ("atom_truediv", "b"), "__pow__": ("atom_pow", "b"),
    "__rtruediv__": ("atom_rtruediv", "r"), "__rsub__": ("atom_rsub", "r"),
    "__radd__": ("atom_radd", "r"), "__rmul__": ("atom_rmul", "r"), "__rpow__": ("atom_rpow", "r"),
    "_power": ("atom_power", "s"), "_exponential": ("atom_exponential", "s"),
    "log": ("atom_log", "u"), "exp": ("atom_exp", "u"), "sqrt": ("atom_sqrt", "u"),
    "logistic": ("atom_logistic", "u"),
    "maximum": ("atom_maximum", "b"), "minimum": ("atom_minimum", "b"), "mininum": ("atom_minimum", "b"),
}
REQUIRED = ["__pos__", "__neg__", "__add__", "__sub__", "__mul__", "__truediv__", "__pow__", "__rtruediv__",
            "__rsub__", "__radd__", "__rmul__", "_power", "_exponential", "log", "exp", "sqrt", "logistic", "maximum"]

# name offered in equations -> the numpy/scipy function applied to plain numbers
ELEMENTWISE = {
    "log": "_np.log", "exp": "_np.exp", "sqrt": "_np.sqrt", "abs": "_np.abs",
    "logistic": "_sp.special.expit", "normal_cdf": "_sp.stats.norm.cdf", "normal_pdf": "_sp.stats.norm.pdf",
    "maximum": "_np.maximum", "minimum": "_np.minimum",
}
DISPATCH_LOOP = (
    "for n in _ELEMENTWISE_FUNCTIONS.keys():\n"
    "    exec(f\"def {n}(x, *args, **kwargs):\\n    if hasattr(x, '{n}'):\\n        return x.{n}(*args, **kwargs, )\\n"
    "    else:\\n        return _ELEMENTWISE_FUNCTIONS['{n}'](x, *args, **kwargs, )\\n\")"
)
ADD_TO_CONTEXT = (
    "def add_function_adaptations_to_context(context: dict | None) -> dict:\n"
    "    context = context if context else {}\n"
    "    for n in _ELEMENTWISE_FUNCTIONS.keys():\n"
    "        context[n] = globals()[n]\n"
    "    return context"
)
SKIP_TO_ARRAY = (
    "if isinstance(orig_value, Real) and isinstance(orig_diff, Real):\n"
    "    orig_value = _np.array(orig_value, dtype=float)\n"
    "    orig_diff = _np.array(orig_diff, dtype=float)"
)

NP1 = {"log": "dln", "exp": "dexp", "sqrt": "dsqrt"}
BIN = {ast.Add: "dadd", ast.Sub: "dsub", ast.Mult: "dmul", ast.Div: "ddiv", ast.Pow: "dpow"}


def _num(v) -> str:
    if isinstance(v, bool):
        raise TranslatorError(f"boolean constant {v!r} used as a number")
    if isinstance(v, int):
        return f"(dofZ A ({v}))"
    if isinstance(v, float):
        fr = Fraction(repr(v))
        if fr.denominator == 1:
            return f"(dofZ A ({fr.numerator}))"
        return f"(ddiv A (dofZ A ({fr.numerator})) (dofZ A ({fr.denominator})))"
    raise TranslatorError(f"unsupported constant {v!r}")


def _is_hasattr_atom(node) -> str | None:
    """hasattr(<name>, "_is_atom") -> name"""
    if (isinstance(node, ast.Call) and isinstance(node.func, ast.Name) and node.func.id == "hasattr"
            and len(node.args) == 2 and not node.keywords and isinstance(node.args[0], ast.Name)
            and isinstance(node.args[1], ast.Constant) and node.args[1].value == "_is_atom"):
        return node.args[0].id
    return None


class _Body:
    """Symbolic execution of one method body for one choice of operand kinds."""

    def __init__(self, where: str, self_name: str, params: dict[str, str], known: dict):
        self.where = where
        self.self_name = self_name
        self.env: dict[str, tuple[str, str]] = {self_name: ("s", "A")}
        for p, kind in params.items():
            self.env[p] = ("o", kind)
        self.lets: list[str] = []
        self.used: set[str] = {"s", "o", "A", "dual", "V"}
        self.known = known           # python method name -> kind
        self.result: str | None = None

    # ---- helpers
    def fail(self, msg):
        raise TranslatorError(f"{self.where}: {msg}")

    def fresh(self, base: str) -> str:
        base = base if base != "_" else "_u"
        nm, k = base, 0
        while nm in self.used:
            k += 1
            nm = f"{base}_{k}"
        self.used.add(nm)
        return nm

    def bind(self, pyname: str, coq: str, ty: str):
        nm = self.fresh(pyname)
        self.lets.append(f"let {nm} := {coq} in")
        self.env[pyname] = (nm, ty)

    # ---- expressions: returns (coq, type) with type in A (dual), S (scalar), B (bool)
    def expr(self, n) -> tuple[str, str]:
        if isinstance(n, ast.Constant):
            return _num(n.value), "S"
        if isinstance(n, ast.Name):
            if n.id in self.env:
                return self.env[n.id]
            self.fail(f"unbound name '{n.id}'")
        if isinstance(n, ast.Attribute):
            if n.attr in ("value", "diff"):
                base, ty = self.expr(n.value)
                if ty != "A":
                    self.fail(f"'.{n.attr}' of something that is not an Atom: {ast.unparse(n)}")
                return (f"(fst {base})" if n.attr == "value" else f"(snd {base})"), "S"
            self.fail(f"unsupported attribute {ast.unparse(n)}")
        if isinstance(n, ast.UnaryOp):
            if isinstance(n.op, ast.USub):
                if isinstance(n.operand, ast.Constant):
                    return _num(-n.operand.value), "S"
                e, ty = self.expr(n.operand)
                if ty == "S":
                    return f"(dneg A {e})", "S"
                if ty == "A":
                    self.need("__neg__")
                    return f"(atom_neg {e})", "A"
            if isinstance(n.op, ast.UAdd):
                return self.expr(n.operand)
            self.fail(f"unsupported unary operation {ast.unparse(n)}")
        if isinstance(n, ast.BinOp):
            op = BIN.get(type(n.op))
            if op is None:
                self.fail(f"unsupported operator in {ast.unparse(n)}")
            a, ta = self.expr(n.left)
            b, tb = self.expr(n.right)
            if ta != "S" or tb != "S":
                self.fail(f"arithmetic on something that is not a plain value: {ast.unparse(n)}")
            return f"({op} A {a} {b})", "S"
        if isinstance(n, ast.Compare):
            if len(n.ops) != 1:
                self.fail(f"chained comparison {ast.unparse(n)}")
            a, ta = self.expr(n.left)
            b, tb = self.expr(n.comparators[0])
            if ta != "S" or tb != "S":
                self.fail(f"comparison of non-values {ast.unparse(n)}")
            o = n.ops[0]
            if isinstance(o, ast.Eq):
                return f"(deqb A {a} {b})", "B"
            if isinstance(o, ast.Lt):
                return f"(dltb A {a} {b})", "B"
            if isinstance(o, ast.Gt):
                return f"(dltb A {b} {a})", "B"
            self.fail(f"unsupported comparison {ast.unparse(n)}")
        if isinstance(n, ast.IfExp):
            nm = _is_hasattr_atom(n.test)
            if nm is not None:
                if nm not in self.env:
                    self.fail(f"hasattr on unbound name {nm}")
                return self.expr(n.body if self.env[nm][1] == "A" else n.orelse)
            self.fail(f"unsupported conditional expression {ast.unparse(n)}")
        if isinstance(n, ast.Subscript):
            # v[mask] inside a masked assignment with the same mask: element-wise reading = v
            base, tb = self.expr(n.value)
            idx, ti = self.expr(n.slice)
            if tb == "S" and ti == "B":
                return base, "S@" + idx
            self.fail(f"unsupported subscript {ast.unparse(n)}")
        if isinstance(n, ast.Call):
            return self.call(n)
        self.fail(f"unsupported expression {ast.unparse(n)}")

    def need(self, pyname: str):
        if pyname not in self.known:
            self.fail(f"call of Atom.{pyname} which the class does not define")

    def call(self, n: ast.Call) -> tuple[str, str]:
        f = n.func
        src = ast.unparse(f)
        if n.keywords and src not in ("_np.array",):
            self.fail(f"keyword arguments in {ast.unparse(n)}")
        if src in ("_np.log", "_np.exp", "_np.sqrt") and len(n.args) == 1:
            a, t = self.expr(n.args[0])
            if t != "S":
                self.fail(f"{src} of a non-value")
            return f"({NP1[f.attr]} A {a})", "S"
        if src == "_sp.special.expit" and len(n.args) == 1:
            a, t = self.expr(n.args[0])
            if t != "S":
                self.fail("expit of a non-value")
            return f"(dexpit A {a})", "S"
        if src == "_np.copy" and len(n.args) == 1:
            a, t = self.expr(n.args[0])
            if t != "S":
                self.fail("_np.copy of a non-value")
            return a, "S"
        if src == "type(self).no_context":
            if len(n.args) != 3 or not (isinstance(n.args[2], ast.Constant) and n.args[2].value is False):
                self.fail(f"no_context must be called as (value, diff, False): {ast.unparse(n)}")
            v, tv = self.expr(n.args[0])
            d, td = self.expr(n.args[1])
            if tv != "S" or td != "S":
                self.fail(f"no_context of non-values: {ast.unparse(n)}")
            return f"({v}, {d})", "A"
        if isinstance(f, ast.Attribute):
            recv, tr_ = self.expr(f.value)
            if tr_ != "A":
                self.fail(f"method call on something that is not an Atom: {ast.unparse(n)}")
            m = f.attr
            if m not in METHODS:
                self.fail(f"call of unknown Atom method {m}")
            self.need(m)
            base, kind = METHODS[m]
            args = [self.expr(a) for a in n.args]
            if kind == "u":
                if args:
                    self.fail(f"{m} takes no argument")
                return f"({base} {recv})", "A"
            if kind == "s":
                if len(args) != 1 or args[0][1] != "S":
                    self.fail(f"{m} must be called with one plain value: {ast.unparse(n)}")
                return f"({base} {recv} {args[0][0]})", "A"
            if kind == "r":
                if len(args) != 1 or args[0][1] != "S":
                    self.fail(f"{m} must be called with one plain value: {ast.unparse(n)}")
                return f"({base} {recv} {args[0][0]})", "A"
            if kind == "b":
                if len(args) == 0 and m in ("maximum", "minimum", "mininum"):
                    return f"({base}_ac {recv} {base}_default)", "A"
                if len(args) != 1 or args[0][1] not in ("A", "S"):
                    self.fail(f"{m} must be called with one operand: {ast.unparse(n)}")
                return f"({base}_{'aa' if args[0][1] == 'A' else 'ac'} {recv} {args[0][0]})", "A"
        self.fail(f"unsupported call {ast.unparse(n)}")

    # ---- statements
    def run(self, stmts) -> str:
        for st in stmts:
            if self.result is not None:
                self.fail("statement after return")
            self.stmt(st)
        if self.result is None:
            self.fail("no return")
        return "\n  ".join(self.lets + [self.result])

    def stmt(self, st):
        if isinstance(st, ast.Expr) and isinstance(st.value, ast.Constant) and isinstance(st.value.value, str):
            return                                            # docstring
        if isinstance(st, ast.Return):
            v = st.value
            if isinstance(v, ast.Tuple):
                if len(v.elts) != 2:
                    self.fail("return of a tuple that is not a pair")
                a, ta = self.expr(v.elts[0])
                b, tb = self.expr(v.elts[1])
                if ta != "S" or tb != "S":
                    self.fail("return of a pair of non-values")
                self.result = f"({a}, {b})"
                return
            e, t = self.expr(v)
            if t != "A":
                self.fail(f"return of something that is not an Atom: {ast.unparse(v)}")
            self.result = e
            return
        if isinstance(st, ast.If):
            nm = _is_hasattr_atom(st.test)
            if nm is not None:
                if nm not in self.env:
                    self.fail(f"hasattr on unbound name {nm}")
                for s2 in (st.body if self.env[nm][1] == "A" else st.orelse):
                    self.stmt(s2)
                return
            if ast.unparse(st) == SKIP_TO_ARRAY:
                return                                        # scalar -> 0-d array: no numeric effect
            if ast.unparse(st.test) in ("isinstance(floor_value, Real)",) and st.orelse:
                # both branches must mean the same thing when read element by element
                snaps = []
                for branch in (st.body, st.orelse):
                    sub = copy.deepcopy(self)
                    for s2 in branch:
                        sub.stmt(s2)
                    snaps.append(sub)
                if snaps[0].lets != snaps[1].lets or snaps[0].env != snaps[1].env or snaps[0].result != snaps[1].result:
                    self.fail(f"the two branches of `{ast.unparse(st.test)}` differ element-wise")
                self.__dict__.update(snaps[0].__dict__)
                return
            self.fail(f"unsupported conditional `{ast.unparse(st.test)}`")
        if isinstance(st, ast.Assign) and len(st.targets) == 1:
            tg = st.targets[0]
            if isinstance(tg, ast.Name):
                e, t = self.expr(st.value)
                if t.startswith("S@"):
                    self.fail("masked read outside a masked assignment")
                self.bind(tg.id, e, t)
                return
            if isinstance(tg, ast.Tuple) and all(isinstance(x, ast.Name) for x in tg.elts) and len(tg.elts) == 2:
                e, t = self.expr(st.value)
                if t != "A":
                    self.fail(f"unpacking of something that is not a (value, diff) pair: {ast.unparse(st)}")
                n1, n2 = self.fresh(tg.elts[0].id), self.fresh(tg.elts[1].id)
                self.lets.append(f"let '({n1}, {n2}) := {e} in")
                self.env[tg.elts[0].id] = (n1, "S")
                self.env[tg.elts[1].id] = (n2, "S")
                return
            if isinstance(tg, ast.Subscript) and isinstance(tg.value, ast.Name):
                arr = tg.value.id
                if arr not in self.env or self.env[arr][1] != "S":
                    self.fail(f"masked assignment to non-value {arr}")
                m, tm = self.expr(tg.slice)
                if tm != "B":
                    self.fail(f"index of a masked assignment is not a comparison result: {ast.unparse(st)}")
                e, t = self.expr(st.value)
                if t == "S@" + m:
                    t = "S"
                if t != "S":
                    self.fail(f"masked assignment of a non-value: {ast.unparse(st)}")
                self.bind(arr, f"(if {m} then {e} else {self.env[arr][0]})", "S")
                return
        self.fail(f"unsupported statement `{ast.unparse(st)}`")


def _params(fn: ast.FunctionDef, where: str):
    a = fn.args
    if a.vararg or a.kwarg or a.kwonlyargs:
        raise TranslatorError(f"{where}: unsupported signature")
    names = [x.arg for x in a.posonlyargs + a.args]
    defaults = list(a.defaults)
    return names, defaults


def _translate_method(fn: ast.FunctionDef, known: dict) -> list[str]:
    name = fn.name
    base, kind = METHODS[name]
    where = f"Atom.{name}"
    names, defaults = _params(fn, where)
    body = px.strip_doc(fn)
    out = []
    if kind == "u":
        if len(names) != 1:
            raise TranslatorError(f"{where}: expected no operand")
        if name == "__pos__":
            if ast.unparse(body[0]) != "return self" or len(body) != 1:
                raise TranslatorError(f"{where}: expected `return self`")
            return [f"Definition {base} (s : dual) : dual := s."]
        b = _Body(where, names[0], {}, known)
        out.append(f"Definition {base} (s : dual) : dual :=\n  {b.run(body)}.")
        return out
    if len(names) != 2:
        raise TranslatorError(f"{where}: expected exactly one operand")
    if kind in ("s", "r"):
        if defaults:
            raise TranslatorError(f"{where}: unexpected default")
        b = _Body(where, names[0], {names[1]: "S"}, known)
        out.append(f"Definition {base} (s : dual) (o : V) : dual :=\n  {b.run(body)}.")
        return out
    # kind b
    if name in ("maximum", "minimum", "mininum"):
        if len(defaults) != 1 or not isinstance(defaults[0], ast.Constant):
            raise TranslatorError(f"{where}: expected a numeric default for the second operand")
        out.append(f"Definition {base}_default : V := {_num(defaults[0].value)}.")
    elif defaults:
        raise TranslatorError(f"{where}: unexpected default")
    for suffix, k in (("ac", "S"), ("aa", "A")):
        b = _Body(f"{where}[{suffix}]", names[0], {names[1]: k}, known)
        ty = "dual" if k == "A" else "V"
        out.append(f"Definition {base}_{suffix} (s : dual) (o : {ty}) : dual :=\n  {b.run(body)}.")
    return out


def _order(methods: dict[str, ast.FunctionDef]) -> list[str]:
    """Topological order by `x.method(...)` calls (fail closed on recursion)."""
    deps = {}
    for nm, fn in methods.items():
        d = set()
        for n in ast.walk(fn):
            if isinstance(n, ast.Call) and isinstance(n.func, ast.Attribute) and n.func.attr in methods \
                    and not ast.unparse(n.func).startswith(("_np.", "_sp.")):
                d.add(n.func.attr)
            if isinstance(n, ast.UnaryOp) and isinstance(n.op, ast.USub) and isinstance(n.operand, ast.Name):
                d.add("__neg__")
        deps[nm] = d
    order, seen, busy = [], set(), set()

    def visit(x):
        if x in seen:
            return
        if x in busy:
            raise TranslatorError(f"Atom.{x}: recursive rule")
        busy.add(x)
        for y in sorted(deps.get(x, ())):
            if y in methods:
                visit(y)
        busy.discard(x)
        seen.add(x)
        order.append(x)
    for nm in methods:
        visit(nm)
    return order


def _coq_strings(xs) -> str:
    return "[" + "; ".join(core.coq_string(x) for x in xs) + "]"


def generate() -> str:
    tree = ast.parse((core.SRC / SRC_D).read_text())
    atom = px.find_class(tree, "Atom")
    bases = [ast.unparse(b) for b in atom.bases]
    if bases != ["ValueMixin"]:
        raise TranslatorError(f"class Atom: unexpected bases {bases}")
    vm = px.find_class(tree, "ValueMixin")
    if any(not (isinstance(s, ast.Expr) and isinstance(s.value, ast.Constant)) for s in vm.body):
        raise TranslatorError("class ValueMixin is no longer empty")

    methods: dict[str, ast.FunctionDef] = {}
    aliases: dict[str, str] = {}
    diff_prop = None
    for st in atom.body:
        if isinstance(st, ast.Expr) and isinstance(st.value, ast.Constant):
            continue
        if isinstance(st, ast.AnnAssign) and isinstance(st.target, ast.Name):
            nm = st.target.id
            if nm not in CLASS_ATTRS or ast.unparse(st.value) != CLASS_ATTRS[nm]:
                raise TranslatorError(f"class Atom: unexpected class attribute {ast.unparse(st)}")
            continue
        if isinstance(st, ast.Assign) and len(st.targets) == 1 and isinstance(st.targets[0], ast.Name):
            nm = st.targets[0].id
            if nm == "__slots__":
                continue
            if nm in CLASS_ATTRS and ast.unparse(st.value) == CLASS_ATTRS[nm]:
                continue
            if isinstance(st.value, ast.Name) and nm in METHODS and METHODS[nm][1] == "r":
                aliases[nm] = st.value.id
                continue
            raise TranslatorError(f"class Atom: unexpected assignment {ast.unparse(st)}")
        if isinstance(st, ast.FunctionDef):
            if st.name in INFRA:
                st = copy.deepcopy(st)
                st.body = px.strip_doc(st)
                if ast.unparse(st) != INFRA[st.name]:
                    raise TranslatorError(f"Atom.{st.name}: the plumbing changed; expected\n{INFRA[st.name]}\n"
                                          f"found\n{ast.unparse(st)}")
                continue
            if st.name == "diff":
                diff_prop = st
                continue
            if st.decorator_list:
                raise TranslatorError(f"Atom.{st.name}: unexpected decorator")
            if st.name not in METHODS:
                raise TranslatorError(f"Atom.{st.name}: a method the model has no rule for")
            if st.name in methods:
                raise TranslatorError(f"Atom.{st.name}: defined twice")
            methods[st.name] = st
            continue
        raise TranslatorError(f"class Atom: unsupported member {ast.unparse(st)[:80]}")
    for nm in INFRA:
        if not any(isinstance(s, ast.FunctionDef) and s.name == nm for s in atom.body):
            raise TranslatorError(f"Atom.{nm} not found")
    for nm in REQUIRED:
        if nm not in methods and nm not in aliases:
            raise TranslatorError(f"Atom.{nm} not found")
    if "minimum" in methods and "mininum" in methods:
        raise TranslatorError("Atom defines both minimum and mininum")
    if "minimum" not in methods and "mininum" not in methods:
        raise TranslatorError("Atom defines neither minimum nor mininum")

    # property diff
    if diff_prop is None or [ast.unparse(d) for d in diff_prop.decorator_list] != ["property"]:
        raise TranslatorError("Atom.diff is not a property")
    body = px.strip_doc(diff_prop)
    if len(body) != 1 or not isinstance(body[0], ast.Return) or not isinstance(body[0].value, ast.IfExp):
        raise TranslatorError("Atom.diff: expected a single conditional return")
    ie = body[0].value
    if ast.unparse(ie.test) != "not self._logly":
        raise TranslatorError(f"Atom.diff: unexpected test {ast.unparse(ie.test)}")

    class R(ast.NodeTransformer):
        def visit_Attribute(self, node):
            s = ast.unparse(node)
            if s == "self._diff":
                return ast.Name(id="__diff", ctx=ast.Load())
            if s == "self.value":
                return ast.Name(id="__value", ctx=ast.Load())
            return self.generic_visit(node)
    b = _Body("Atom.diff", "self", {}, {})
    b.env = {"__diff": ("_diff", "S"), "__value": ("value", "S")}
    e_then, t1 = b.expr(R().visit(copy.deepcopy(ie.body)))
    e_else, t2 = b.expr(R().visit(copy.deepcopy(ie.orelse)))
    if t1 != "S" or t2 != "S":
        raise TranslatorError("Atom.diff: unexpected expression")

    known = dict(methods)
    known.update({a: methods.get(t) for a, t in aliases.items()})
    out = [
        "(* GENERATED by /verif/translator/aldi.py from src/" + SRC_D + " and src/" + SRC_A + " -- do not edit *)",
        "From Coq Require Import ZArith List String Bool.",
        "From Verif Require Import lib.Dual.",
        "Import ListNotations.",
        "Open Scope string_scope.",
        "Section AldiGen.",
        "Variable A : DArith.",
        "Notation V := (dcar A).",
        "Definition dual : Type := (V * V)%type.",
        "",
        "(* property Atom.diff: derivative seed of a leaf; log-variables are differentiated w.r.t. their logarithm *)",
        f"Definition atom_diff (logly : bool) (value _diff : V) : V := if negb logly then {e_then} else {e_else}.",
        "",
    ]
    for nm in _order(methods):
        out += _translate_method(methods[nm], known)
        out.append("")
    for a, t in sorted(aliases.items()):
        if t not in methods or METHODS[t][1] != "b":
            raise TranslatorError(f"Atom.{a} = {t}: unexpected alias")
        # a reflected operator is only ever called with a non-Atom left operand
        out.append(f"Definition {METHODS[a][0]} (s : dual) (o : V) : dual := {METHODS[t][0]}_ac s o.")
    out.append("")
    has_rpow = "__rpow__" in methods or "__rpow__" in aliases
    out.append(f"Definition has_rpow : bool := {core.coq_bool(has_rpow)}.")
    if not has_rpow:
        out.append("Definition atom_rpow (s : dual) (o : V) : dual := s.   (* placeholder, unreachable: has_rpow = false *)")
    public = [nm for nm in methods if not nm.startswith("_")]
    out.append(f"Definition atom_methods : list string := {_coq_strings(public)}.")
    out.append("")

    # ---- adaptations.py
    t2 = ast.parse((core.SRC / SRC_A).read_text())
    table = px.find_assign(t2.body, "_ELEMENTWISE_FUNCTIONS")
    if not isinstance(table, ast.Dict):
        raise TranslatorError("_ELEMENTWISE_FUNCTIONS is not a dict literal")
    offered = []
    for k, v in zip(table.keys, table.values):
        if not (isinstance(k, ast.Constant) and isinstance(k.value, str)):
            raise TranslatorError("_ELEMENTWISE_FUNCTIONS: non-literal key")
        if k.value not in ELEMENTWISE:
            raise TranslatorError(f"_ELEMENTWISE_FUNCTIONS offers '{k.value}', for which the model has no meaning")
        if ast.unparse(v) != ELEMENTWISE[k.value]:
            raise TranslatorError(f"_ELEMENTWISE_FUNCTIONS['{k.value}'] is {ast.unparse(v)}, expected {ELEMENTWISE[k.value]}")
        if k.value in offered:
            raise TranslatorError(f"_ELEMENTWISE_FUNCTIONS: duplicate key {k.value}")
        offered.append(k.value)
    loops = [n for n in t2.body if isinstance(n, ast.For)]
    if len(loops) != 1 or ast.unparse(loops[0]) != DISPATCH_LOOP:
        raise TranslatorError("adaptations.py: the dispatch template changed:\n" + "\n".join(ast.unparse(l) for l in loops))
    fn = px.find_func(t2.body, "add_function_adaptations_to_context")
    fn2 = copy.deepcopy(fn)
    fn2.body = px.strip_doc(fn2)
    if ast.unparse(fn2) != ADD_TO_CONTEXT:
        raise TranslatorError("adaptations.add_function_adaptations_to_context changed:\n" + ast.unparse(fn2))
    extra = [n for n in t2.body if not isinstance(n, (ast.Import, ast.ImportFrom, ast.Expr, ast.For, ast.FunctionDef, ast.Assign))]
    if extra:
        raise TranslatorError("adaptations.py: unexpected top-level statement " + ast.unparse(extra[0])[:80])
    out.append("(* names offered in equations (adaptations._ELEMENTWISE_FUNCTIONS); dispatch: x.<name>(...) if the first")
    out.append("   argument has an attribute of that name, else the numpy/scipy function *)")
    out.append(f"Definition offered : list string := {_coq_strings(offered)}.")
    out += ["", "End AldiGen.", ""]
    return "\n".join(out)


def generate_fd() -> str:
    return "\n".join(_finite_diff())


def _finite_diff() -> list[str]:
    t = ast.parse((core.SRC / SRC_F).read_text())
    step = px.find_assign(t.body, "_RELATIVE_FINITE_DIFF_STEP")
    if not isinstance(step, ast.Constant) or not isinstance(step.value, float):
        raise TranslatorError("_RELATIVE_FINITE_DIFF_STEP is not a float literal")
    fr = Fraction(repr(step.value))
    eps = px.find_func(t.body, "_get_epsilon")
    b = [ast.unparse(s) for s in px.strip_doc(eps)]
    if b != ["base = np_.maximum(abs(value), 1)", "return base * _RELATIVE_FINITE_DIFF_STEP"]:
        raise TranslatorError(f"_get_epsilon changed: {b}")
    two = px.find_func(t.body, "_partial_two_sided_derivative")
    b = [ast.unparse(s) for s in px.strip_doc(two)]
    want = ["epsilon = _get_epsilon(arg_values[k])", "arg_values_plus = _plus_epsilon(arg_values, k, epsilon)",
            "arg_values_minus = _plus_epsilon(arg_values, k, -epsilon)",
            "return (func(*arg_values_plus) - func(*arg_values_minus)) / (2 * epsilon)"]
    if b != want:
        raise TranslatorError(f"_partial_two_sided_derivative changed: {b}")
    plus = px.find_func(t.body, "_plus_epsilon")
    b = [ast.unparse(s) for s in px.strip_doc(plus)]
    if b != ["arg_values_plus = co_.deepcopy(arg_values)", "arg_values_plus[k] += epsilon", "return arg_values_plus"]:
        raise TranslatorError(f"_plus_epsilon changed: {b}")
    inner = px.find_func(t.body, "_partial_times_inner")
    b = [ast.unparse(s) for s in px.strip_doc(inner)]
    if b != ["return _partial_two_sided_derivative(func, k, arg_values) * arg_diffs[k] if arg_diffs[k] is not None else 0"]:
        raise TranslatorError(f"_partial_times_inner changed: {b}")
    calc = px.find_func(t.body, "_calculate_finite_derivatives")
    b = [ast.unparse(s) for s in px.strip_doc(calc)]
    want = ["arg_values = _collect_arg_values(*args)", "new_value = func(*arg_values)",
            "arg_diffs = _collect_arg_diffs(*args)",
            "new_diff = sum((_partial_times_inner(func, k, arg_values, arg_diffs) for k in range(len(args))))",
            "return ad_.Atom.no_context(new_value, new_diff, False)"]
    if b != want:
        raise TranslatorError(f"_calculate_finite_derivatives changed: {b}")
    return [
        "(* GENERATED by /verif/translator/aldi.py from src/" + SRC_F + " -- do not edit *)",
        "(* finite_differentiators.py: user functions from the model context are differentiated by a two-sided quotient *)",
        "From Coq Require Import Reals.",
        f"Definition fd_relative_step : R := (IZR ({fr.numerator}) / IZR ({fr.denominator}))%R.",
        "Definition fd_epsilon (value : R) : R := (Rmax (Rabs value) 1 * fd_relative_step)%R.",
        "Definition fd_two_sided (f : R -> R) (x : R) : R :=",
        "  ((f (x + fd_epsilon x) - f (x - fd_epsilon x)) / (2 * fd_epsilon x))%R.",
        "",
    ]


def run() -> bool:
    a = core.write_if_changed(core.COQ / OUT, generate())
    b = core.write_if_changed(core.COQ / OUT_FD, generate_fd())
    return a or b
