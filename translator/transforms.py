"""explanatories/_transforms.py, explanatories/main.py, plans/transforms.py  ->  coq/gen/TransformsGen.v

Regenerated on every run (fail closed on anything outside the accepted shapes):

* for every class of `_ALL_LHS_TRANSFORMS`: the level formula (the f-string returned by
  `create_eval_level_str`, with the lag token and the RHS as holes) and the transform-of-level
  formula (the `_LHS_PATTERN` regex read back as the expression it matches, with the captured
  name and its `[-1]` occurrence as holes);
* `Explanatory._add_residual_to_rhs` (what is appended to the RHS), `_create_eval_residual`
  (the residual body f-string), `finalize` (which strings go into which maker),
  `simulate` and `exogenize` (the sequence of writes into the data array);
* for every plan transform of `CHOOSE_TRANSFORM_CLASS`: the implied level (`eval_exogenized`),
  the default databox name format, the default shift;
* the context functions `log`/`exp` of aldi/adaptations.py are checked to be numpy's.

The loops (`_simulate_v`, `_detect_exogenized`, `_get_transform`) are hand-modelled in
coq/model/Sequential.v and tied by correspondence."""
from __future__ import annotations

import ast
import re
from fractions import Fraction

from vf import core
from vf.core import TranslatorError

OUT = "gen/TransformsGen.v"

SRC_LHS = "irispie/explanatories/_transforms.py"
SRC_EXPL = "irispie/explanatories/main.py"
SRC_PLAN = "irispie/plans/transforms.py"
SRC_ADAPT = "irispie/aldi/adaptations.py"

LHS_CLASSES = {
    "LhsTransformNone": "none", "LhsTransformLog": "log", "LhsTransformDiff": "diff",
    "LhsTransformDiffLog": "diff_log", "LhsTransformRoc": "roc", "LhsTransformPct": "pct",
}
PLAN_CLASSES = {
    "PlanTransformNone": "none", "PlanTransformLog": "log", "PlanTransformDiff": "diff",
    "PlanTransformDiffLog": "diff_log", "PlanTransformRoc": "roc", "PlanTransformPct": "pct",
    "PlanTransformFlat": "flat",
}
# what the public names of plan transforms must resolve to
PLAN_CHOICES = {
    None: "none", "level": "none", "none": "none", "log": "log", "diff": "diff", "diff_log": "diff_log",
    "difflog": "diff_log", "roc": "roc", "pct": "pct", "flat": "flat",
}

BINOPS = {ast.Add: "add", ast.Sub: "sub", ast.Mult: "mul", ast.Div: "div"}
CTX_FUNCS = {"log": "ln", "exp": "exp"}       # names available in equation context (checked against adaptations.py)


# ------------------------------------------------------------------ expressions

def _num(v) -> str:
    if isinstance(v, bool) or not isinstance(v, (int, float)):
        raise TranslatorError(f"unsupported constant {v!r}")
    if isinstance(v, int):
        return f"(ofZ A ({v}))"
    fr = Fraction(repr(v))
    if fr.denominator == 1:
        return f"(ofZ A ({fr.numerator}))"
    return f"(div A (ofZ A ({fr.numerator})) (ofZ A ({fr.denominator})))"


def expr(node: ast.AST, env: dict, where: str, subs=None) -> str:
    """Python arithmetic over the holes in `env` -> Gallina over the Arith record A.
    `subs`: optional function mapping special nodes (subscripts ...) to Coq terms."""
    if subs is not None:
        r = subs(node)
        if r is not None:
            return r
    if isinstance(node, ast.BinOp):
        op = BINOPS.get(type(node.op))
        if op is None:
            raise TranslatorError(f"{where}: unsupported operator {type(node.op).__name__}")
        return f"({op} A {expr(node.left, env, where, subs)} {expr(node.right, env, where, subs)})"
    if isinstance(node, ast.UnaryOp):
        if isinstance(node.op, ast.USub):
            if isinstance(node.operand, ast.Constant):
                return _num(-node.operand.value)
            return f"(neg A {expr(node.operand, env, where, subs)})"
        if isinstance(node.op, ast.UAdd):
            return expr(node.operand, env, where, subs)
        raise TranslatorError(f"{where}: unsupported unary operator")
    if isinstance(node, ast.Constant):
        return _num(node.value)
    if isinstance(node, ast.Name):
        if node.id in env:
            return env[node.id]
        raise TranslatorError(f"{where}: unbound name '{node.id}'")
    if isinstance(node, ast.Call) and len(node.args) == 1 and not node.keywords:
        f = node.func
        if isinstance(f, ast.Name) and f.id in CTX_FUNCS:
            return f"({CTX_FUNCS[f.id]} A {expr(node.args[0], env, where, subs)})"
        if (isinstance(f, ast.Attribute) and isinstance(f.value, ast.Name) and f.value.id in ("_np", "np")
                and f.attr in CTX_FUNCS):
            return f"({CTX_FUNCS[f.attr]} A {expr(node.args[0], env, where, subs)})"
    raise TranslatorError(f"{where}: unsupported expression {ast.unparse(node)}")


def _parse_expr(text: str, where: str) -> ast.AST:
    try:
        return ast.parse(text, mode="eval").body
    except SyntaxError as e:
        raise TranslatorError(f"{where}: '{text}' is not an expression ({e})")


def _template(node: ast.AST, holes: dict, where: str) -> str:
    """An f-string (or a bare name) whose formatted values are names of `holes` -> expression text
    in which every hole is an identifier."""
    if isinstance(node, ast.Name):
        if node.id not in holes:
            raise TranslatorError(f"{where}: returns unknown name {node.id}")
        return holes[node.id]
    if not isinstance(node, ast.JoinedStr):
        raise TranslatorError(f"{where}: not an f-string: {ast.unparse(node)}")
    parts = []
    for v in node.values:
        if isinstance(v, ast.Constant) and isinstance(v.value, str):
            if re.search(r"__h_", v.value):
                raise TranslatorError(f"{where}: reserved text in template")
            parts.append(v.value)
        elif isinstance(v, ast.FormattedValue) and v.conversion == -1 and v.format_spec is None:
            key = ast.unparse(v.value)
            if key not in holes:
                raise TranslatorError(f"{where}: unknown hole {{{key}}}")
            parts.append(holes[key])
        else:
            raise TranslatorError(f"{where}: unsupported f-string part")
    return "".join(parts)


def _hole_parenthesised(text: str, hole: str, where: str):
    """Every occurrence of the hole is the whole text or directly enclosed in parentheses, so that splicing an
    arbitrary expression text for it means the same as splicing its value."""
    if text == hole:
        return
    if hole not in text:
        raise TranslatorError(f"{where}: the template does not use {hole}")
    for m in re.finditer(re.escape(hole), text):
        if not (m.start() > 0 and text[m.start() - 1] == "(" and m.end() < len(text) and text[m.end()] == ")"):
            raise TranslatorError(f"{where}: a hole is spliced without parentheses in '{text}'")


def _atomic(text: str, where: str):
    """`text` can be spliced unparenthesised as the left operand of '-' / right of '*' etc.
    (it is a name, a call or fully parenthesised)."""
    a = _parse_expr(text, where)
    b = _parse_expr(f"__h_q*{text}-(__h_r)", where)
    ok = (isinstance(b, ast.BinOp) and isinstance(b.op, ast.Sub) and isinstance(b.left, ast.BinOp)
          and ast.dump(b.left.right) == ast.dump(a))
    if not ok:
        raise TranslatorError(f"{where}: '{text}' is not atomic; splicing it into a template changes its meaning")


# ------------------------------------------------------------------ helpers on the source

def _cls(tree, name):
    for n in tree.body:
        if isinstance(n, ast.ClassDef) and n.name == name:
            return n
    raise TranslatorError(f"class {name} not found")


def _func(body, name):
    for n in body:
        if isinstance(n, ast.FunctionDef) and n.name == name:
            return n
    raise TranslatorError(f"function {name} not found")


def _body(fn):
    b = list(fn.body)
    while b and isinstance(b[0], ast.Expr) and isinstance(b[0].value, ast.Constant) and isinstance(b[0].value.value, str):
        b = b[1:]
    return b


def _assign_in(body, name):
    for n in body:
        if isinstance(n, ast.Assign) and len(n.targets) == 1 and isinstance(n.targets[0], ast.Name) \
                and n.targets[0].id == name:
            return n.value
    raise TranslatorError(f"assignment {name} not found")


def _u(node) -> str:
    return re.sub(r"\s+", "", ast.unparse(node))


# ------------------------------------------------------------------ LHS transforms

def _regex_to_expr(rx: str, where: str):
    """The (very small) regex language of the LHS patterns: escaped literals, one group (\\w+),
    back-references \\1 optionally followed by \\[<shift>\\].  Returns (expression text, lag shift | None)."""
    if rx.count(r"(\w+)") != 1:
        raise TranslatorError(f"{where}: pattern must capture exactly one name with (\\w+): {rx!r}")
    s = rx.replace(r"(\w+)", "\0X")
    shifts = set()

    def lag(m):
        shifts.add(int(m.group(1)))
        return "\0L"
    s = re.sub(r"\\1\\\[([-+]?\d+)\\\]", lag, s)
    s = s.replace(r"\1", "\0X")
    if len(shifts) > 1:
        raise TranslatorError(f"{where}: several different shifts in pattern {rx!r}")
    out, i = [], 0
    while i < len(s):
        c = s[i]
        if c == "\0":
            out.append({"X": "__h_x", "L": "__h_lag"}[s[i + 1]]); i += 2; continue
        if c == "\\":
            if i + 1 >= len(s) or s[i + 1] not in "()*+-./[]":
                raise TranslatorError(f"{where}: unsupported escape in pattern {rx!r}")
            out.append(s[i + 1]); i += 2; continue
        if c.isalnum() or c in "_/-":
            out.append(c); i += 1; continue
        raise TranslatorError(f"{where}: regex operator '{c}' in pattern {rx!r} is outside the accepted subset")
    return "".join(out), (shifts.pop() if shifts else None)


def _lhs_transform(cls: ast.ClassDef):
    where = cls.name
    pat = _assign_in(cls.body, "_LHS_PATTERN")
    if not (isinstance(pat, ast.Call) and _u(pat.func) == "_re.compile" and len(pat.args) == 1 and not pat.keywords
            and isinstance(pat.args[0], ast.Constant) and isinstance(pat.args[0].value, str)):
        raise TranslatorError(f"{where}._LHS_PATTERN is not _re.compile(<literal>)")
    of_text, of_shift = _regex_to_expr(pat.args[0].value, where + "._LHS_PATTERN")
    _atomic(of_text, where + "._LHS_PATTERN")
    of_expr = expr(_parse_expr(of_text, where), {"__h_x": "x", "__h_lag": "lag"}, where + "._LHS_PATTERN")
    fn = _func(cls.body, "create_eval_level_str")
    params = [a.arg for a in fn.args.posonlyargs + fn.args.args]
    if params != ["self", "lhs_token", "rhs_xtring"]:
        raise TranslatorError(f"{where}.create_eval_level_str: parameters {params}")
    body = _body(fn)
    holes = {"rhs_xtring": "__h_rhs"}
    lv_shift = None
    for st in body[:-1]:
        m = None
        if isinstance(st, ast.Assign) and len(st.targets) == 1 and isinstance(st.targets[0], ast.Name):
            m = re.fullmatch(r"lhs_token\.shifted\(([-+]?\d+),?\)\.print_xtring\(\)", _u(st.value))
        if not m:
            raise TranslatorError(f"{where}.create_eval_level_str: unsupported statement {ast.unparse(st)}")
        if lv_shift is not None:
            raise TranslatorError(f"{where}.create_eval_level_str: more than one lag token")
        lv_shift = int(m.group(1))
        holes[st.targets[0].id] = "__h_lag"
    if not isinstance(body[-1], ast.Return):
        raise TranslatorError(f"{where}.create_eval_level_str: no return")
    lv_text = _template(body[-1].value, holes, where + ".create_eval_level_str")
    _hole_parenthesised(lv_text, "__h_rhs", where + ".create_eval_level_str")
    lv_expr = expr(_parse_expr(lv_text, where), {"__h_rhs": "rhs", "__h_lag": "lag"}, where + ".create_eval_level_str")
    return dict(level=lv_expr, level_shift=lv_shift, of_level=of_expr, of_level_shift=of_shift,
                pattern=pat.args[0].value)


# ------------------------------------------------------------------ plan transforms

def _plan_transform(cls: ast.ClassDef):
    where = cls.name
    fmt = _assign_in(cls.body, "_DEFAULT_NAME_FORMAT")
    if not (isinstance(fmt, ast.Constant) and (fmt.value is None or isinstance(fmt.value, str))):
        raise TranslatorError(f"{where}._DEFAULT_NAME_FORMAT is not a literal")
    fn = _func(cls.body, "eval_exogenized")
    params = [a.arg for a in fn.args.posonlyargs + fn.args.args]
    if params != ["self", "exogenized_values_after", "values_before", "values_after_inclusive"]:
        raise TranslatorError(f"{where}.eval_exogenized: parameters {params}")
    body = _body(fn)
    if len(body) != 1 or not isinstance(body[0], ast.Return):
        raise TranslatorError(f"{where}.eval_exogenized: body is not a single return")
    used = set()

    def subs(node):
        if isinstance(node, ast.Subscript):
            t = _u(node)
            if t == "exogenized_values_after[0]":
                used.add("exo"); return "exo"
            if t == "values_before[self._shift]":
                used.add("lag"); return "lag"
            raise TranslatorError(f"{where}.eval_exogenized: unsupported subscript {t}")
        return None
    e = expr(body[0].value, {}, where + ".eval_exogenized", subs)
    if "exo" in used and fmt.value is None:
        raise TranslatorError(f"{where}: reads the exogenized series but has no databox name format")
    return dict(implied=e, name_format=fmt.value, uses_exo="exo" in used, uses_lag="lag" in used)


# ------------------------------------------------------------------ Explanatory

def _explanatory(tree):
    cls = _cls(tree, "Explanatory")
    out = {}
    # residual name
    rnf = _assign_in(tree.body, "_RESIDUAL_NAME_FORMAT")
    if not (isinstance(rnf, ast.Constant) and isinstance(rnf.value, str) and "{lhs_name}" in rnf.value):
        raise TranslatorError("_RESIDUAL_NAME_FORMAT is not a literal with {lhs_name}")
    out["residual_name_format"] = rnf.value
    # _add_residual_to_rhs: identity -> no residual; otherwise rhs_human += "+res"
    fn = _func(cls.body, "_add_residual_to_rhs")
    body = _body(fn)
    ok = (len(body) == 1 and isinstance(body[0], ast.If) and _u(body[0].test) == "self.is_identity"
          and len(body[0].body) == 1 and _u(body[0].body[0]) == "self.residual_name=None"
          and len(body[0].orelse) == 3
          and _u(body[0].orelse[0]) == "self.residual_name=self._residual_name_format.format(lhs_name=self.lhs_name)")
    if not ok:
        raise TranslatorError("Explanatory._add_residual_to_rhs: unexpected shape")
    apps = {}
    for st in body[0].orelse[1:]:
        if not (isinstance(st, ast.AugAssign) and isinstance(st.op, ast.Add)):
            raise TranslatorError("Explanatory._add_residual_to_rhs: expected '+=' statements")
        apps[_u(st.target)] = _template(st.value, {"self.residual_name": "__h_res"}, "_add_residual_to_rhs")
    if set(apps) != {"self._rhs_human", "self.equation.human"} or len(set(apps.values())) != 1:
        raise TranslatorError("Explanatory._add_residual_to_rhs: RHS and equation are not extended by the same text")
    # "RHS<appended>" must parse as (RHS) <op> res for every arithmetic RHS: the appended text starts with + or -
    app = apps["self._rhs_human"]
    if not re.fullmatch(r"[+-]__h_res", app):
        raise TranslatorError(f"Explanatory._add_residual_to_rhs: appended text {app!r} is not '+residual' / '-residual'")
    out["rhs_with_residual"] = expr(_parse_expr("__h_rhs" + app, "_add_residual_to_rhs"),
                                    {"__h_rhs": "rhs", "__h_res": "res"}, "_add_residual_to_rhs")
    # finalize: which strings feed which maker
    fb = [_u(s) for s in _body(_func(cls.body, "finalize"))]
    need = [
        "rhs_xtring,*_=_equations.xtring_from_human(self._rhs_human,name_to_qid)",
        "lhs_xtring,*_=_equations.xtring_from_human(self._lhs_human,name_to_qid)",
        "lhs_token=_incidence.Token(self.lhs_qid,0)",
        "self._create_eval_level(lhs_token,rhs_xtring)",
        "self._create_eval_residual(lhs_xtring,rhs_xtring)",
        "self.lhs_qid=name_to_qid[self.lhs_name]",
        "self.residual_qid=name_to_qid[self.residual_name]ifself.residual_nameisnotNoneelseNone",
    ]
    for n in need:
        if fb.count(n) != 1:
            raise TranslatorError(f"Explanatory.finalize: expected exactly one statement '{n}'")
    for s in fb:
        if s not in need and s != "self.equation.finalize(name_to_qid)":
            raise TranslatorError(f"Explanatory.finalize: unexpected statement '{s}'")
    # _create_eval_level
    fb = [_u(s) for s in _body(_func(cls.body, "_create_eval_level"))]
    if fb != ["args=('x','t')", "body=self._lhs_transform.create_eval_level_str(lhs_token,rhs_xtring)",
              "self.eval_level,self._eval_level_str,*_=_makers.make_function('__simulate_level',args,body,self._context)"]:
        raise TranslatorError("Explanatory._create_eval_level: unexpected body")
    # _create_eval_residual
    fn = _func(cls.body, "_create_eval_residual")
    params = [a.arg for a in fn.args.posonlyargs + fn.args.args]
    if params != ["self", "lhs_xtring", "rhs_xtring"]:
        raise TranslatorError(f"Explanatory._create_eval_residual: parameters {params}")
    body = _body(fn)
    ok = (len(body) == 4 and _u(body[0]) == "ifself.is_identity:return" and _u(body[1]) == "args=('x','t')"
          and isinstance(body[2], ast.Assign) and _u(body[2].targets[0]) == "body"
          and _u(body[3]) == "self.eval_residual,self._eval_residual_str,*_=_makers.make_function("
                            "'__simulate_residual',args,body,self._context)")
    if not ok:
        raise TranslatorError("Explanatory._create_eval_residual: unexpected body")
    rtext = _template(body[2].value, {"lhs_xtring": "__h_lhs", "rhs_xtring": "__h_rhs"}, "_create_eval_residual")
    rnode = _parse_expr(rtext, "_create_eval_residual")
    # the LHS hole is spliced unparenthesised: it is atomic (checked per pattern); the RHS hole must be parenthesised
    _hole_parenthesised(rtext, "__h_rhs", "Explanatory._create_eval_residual")
    out["residual_body"] = expr(rnode, {"__h_lhs": "lhs_x", "__h_rhs": "rhs_x"}, "_create_eval_residual")
    # simulate / exogenize: sequences of writes
    out["simulate"] = _writes(_func(cls.body, "simulate"))
    out["exogenize"] = _writes(_func(cls.body, "exogenize"))
    return out


def _writes(fn: ast.FunctionDef):
    where = f"Explanatory.{fn.name}"
    params = [a.arg for a in fn.args.posonlyargs + fn.args.args]
    if params != ["self", "data", "columns", "values"]:
        raise TranslatorError(f"{where}: parameters {params}")
    rows = {}
    steps = []
    body = _body(fn)
    if not body or not isinstance(body[-1], ast.Return):
        raise TranslatorError(f"{where}: no final return")
    for st in body[:-1]:
        t = _u(st)
        if t == "lhs_row=self.lhs_qid":
            rows["lhs_row"] = "lhs"; continue
        if t == "residual_row=self.residual_qid":
            rows["residual_row"] = "res"; continue
        if isinstance(st, ast.Assign) and _u(st.targets[0]) == "is_finite" and len(st.targets) == 1:
            continue                                     # feeds the non-finite warning only
        if isinstance(st, (ast.Assign, ast.AugAssign)):
            tgt = st.targets[0] if isinstance(st, ast.Assign) else st.target
            if isinstance(st, ast.Assign) and len(st.targets) != 1:
                raise TranslatorError(f"{where}: multiple targets")
            m = re.fullmatch(r"data\[(\w+),columns\]", _u(tgt))
            if not m or m.group(1) not in rows:
                raise TranslatorError(f"{where}: unsupported target {ast.unparse(tgt)}")
            cell = rows[m.group(1)]
            v = _u(st.value)
            if v == "self.eval_level(data,columns)":
                val = "(eval_level d)"
            elif v == "self.eval_residual(data,columns)":
                val = "(eval_residual d)"
            elif v == "values":
                val = "values"
            elif isinstance(st.value, ast.Constant) or (isinstance(st.value, ast.UnaryOp) and isinstance(st.value.operand, ast.Constant)):
                val = expr(st.value, {}, where)
            else:
                raise TranslatorError(f"{where}: unsupported value {ast.unparse(st.value)}")
            if isinstance(st, ast.AugAssign):
                op = BINOPS.get(type(st.op))
                if op is None:
                    raise TranslatorError(f"{where}: unsupported augmented assignment")
                val = f"({op} A (get_{cell} d) {val})"
            steps.append((cell, val))
            continue
        raise TranslatorError(f"{where}: unsupported statement {ast.unparse(st)}")
    if not steps:
        raise TranslatorError(f"{where}: writes nothing")
    return steps


def _check_context_functions():
    tree = ast.parse((core.SRC / SRC_ADAPT).read_text())
    d = _assign_in(tree.body, "_ELEMENTWISE_FUNCTIONS")
    if not isinstance(d, ast.Dict):
        raise TranslatorError("adaptations._ELEMENTWISE_FUNCTIONS is not a dict literal")
    m = {k.value: _u(v) for k, v in zip(d.keys, d.values) if isinstance(k, ast.Constant)}
    for nm, want in (("log", "_np.log"), ("exp", "_np.exp")):
        if m.get(nm) != want:
            raise TranslatorError(f"adaptations._ELEMENTWISE_FUNCTIONS[{nm!r}] is {m.get(nm)}, expected {want}")


# ------------------------------------------------------------------ output

def analyse() -> dict:
    """Everything read from the source (also used by the harness for names/defaults)."""
    _check_context_functions()
    info = {"lhs": {}, "plan": {}}
    tree = ast.parse((core.SRC / SRC_LHS).read_text())
    allt = _assign_in(tree.body, "_ALL_LHS_TRANSFORMS")
    if not isinstance(allt, ast.Tuple) or not all(isinstance(e, ast.Name) for e in allt.elts):
        raise TranslatorError("_ALL_LHS_TRANSFORMS is not a tuple of class names")
    names = [e.id for e in allt.elts]
    if sorted(names) != sorted(LHS_CLASSES) or names[0] != "LhsTransformNone":
        # the bare-name pattern (\w+) cannot match any other LHS text, so its position is immaterial; still pinned
        raise TranslatorError(f"_ALL_LHS_TRANSFORMS = {names}: not the six expected classes")
    for cn in names:
        info["lhs"][LHS_CLASSES[cn]] = _lhs_transform(_cls(tree, cn))
    info["lhs_order"] = [LHS_CLASSES[c] for c in names]
    info["expl"] = _explanatory(ast.parse((core.SRC / SRC_EXPL).read_text()))
    tree = ast.parse((core.SRC / SRC_PLAN).read_text())
    choose = _assign_in(tree.body, "CHOOSE_TRANSFORM_CLASS")
    if not isinstance(choose, ast.Dict):
        raise TranslatorError("CHOOSE_TRANSFORM_CLASS is not a dict literal")
    got = {}
    for k, v in zip(choose.keys, choose.values):
        if not isinstance(k, ast.Constant) or not isinstance(v, ast.Name) or v.id not in PLAN_CLASSES:
            raise TranslatorError("CHOOSE_TRANSFORM_CLASS: unexpected entry")
        got[k.value] = PLAN_CLASSES[v.id]
    if got != PLAN_CHOICES:
        raise TranslatorError(f"CHOOSE_TRANSFORM_CLASS maps {got}")
    for cn, kind in PLAN_CLASSES.items():
        info["plan"][kind] = _plan_transform(_cls(tree, cn))
    base = _cls(tree, "PlanTransform")
    init = _func(base.body, "__init__")
    kw = {a.arg: d for a, d in zip([a for a in init.args.args if a.arg != "self"], init.args.defaults)}
    if set(kw) != {"when_data", "name_format", "shift"}:
        raise TranslatorError(f"PlanTransform.__init__: parameters {sorted(kw)}")
    info["plan_default_shift"] = ast.literal_eval(kw["shift"])
    if not isinstance(info["plan_default_shift"], int):
        raise TranslatorError("PlanTransform.__init__: default shift is not an integer")
    ib = [_u(s) for s in _body(init)]
    if ib != ["self.when_data=when_dataorFalse", "self._name_format=name_formatorself._DEFAULT_NAME_FORMAT",
              "self._shift=shift"]:
        raise TranslatorError("PlanTransform.__init__: unexpected body")
    return info


def _z(v) -> str:
    return f"({int(v)})%Z"


def generate() -> str:
    info = analyse()
    o = ["(* GENERATED by /verif/translator/transforms.py from src/irispie/explanatories/_transforms.py,",
         "   explanatories/main.py, plans/transforms.py -- do not edit *)",
         "From Coq Require Import ZArith List.",
         "From Verif Require Import lib.Arith.",
         "Import ListNotations.",
         "Open Scope Z_scope.",
         "Section TransformsGen.",
         "Variable A : Arith.",
         "Notation V := (car A).", ""]
    for kind in ("none", "log", "diff", "diff_log", "roc", "pct"):
        d = info["lhs"][kind]
        o.append(f"(* {kind}: _LHS_PATTERN = {d['pattern']} *)")
        o.append(f"Definition lhs_level_{kind} (rhs lag : V) : V := {d['level']}.")
        o.append(f"Definition lhs_level_{kind}_shift : Z := {_z(d['level_shift'] or 0)}.")
        o.append(f"Definition lhs_of_level_{kind} (x lag : V) : V := {d['of_level']}.")
        o.append(f"Definition lhs_of_level_{kind}_shift : Z := {_z(d['of_level_shift'] or 0)}.")
        o.append("")
    for kind in ("none", "log", "diff", "diff_log", "roc", "pct", "flat"):
        d = info["plan"][kind]
        o.append(f"Definition plan_implied_{kind} (exo lag : V) : V := {d['implied']}.")
        o.append(f"Definition plan_{kind}_uses_exo : bool := {core.coq_bool(d['uses_exo'])}.")
    o.append(f"Definition plan_default_shift : Z := {_z(info['plan_default_shift'])}.")
    o.append("")
    e = info["expl"]
    o.append("(* Explanatory._add_residual_to_rhs / _create_eval_residual *)")
    o.append(f"Definition rhs_with_residual (rhs res : V) : V := {e['rhs_with_residual']}.")
    o.append(f"Definition residual_body (lhs_x rhs_x : V) : V := {e['residual_body']}.")
    o.append("")
    o.append("(* Explanatory.simulate / Explanatory.exogenize: the writes into the data array, in order *)")
    for nm in ("simulate", "exogenize"):
        o.append(f"Definition {nm}_gen (D : Type) (get_lhs get_res : D -> V) (set_lhs set_res : D -> V -> D) "
                 f"(eval_level eval_residual : D -> V) (values : V) (d : D) : D :=")
        for cell, val in e[nm]:
            o.append(f"  let d := set_{cell} d {val} in")
        o.append("  d.")
    o += ["", "End TransformsGen.", ""]
    return "\n".join(o)


def run() -> bool:
    return core.write_if_changed(core.COQ / OUT, generate())
