#!/usr/bin/env python3
"""tools/import_round.py <round-tag> <out-prefix> : import the confirmed mutants of a round (logs /tmp/mutround_Cxx.log written by
tools/mutant_round.sh) into seeded/<Cxx>_<tag>m<k>; prints one line per mutant. Only mutants whose demo passes on the clean tree
(exit 0), fails with the patch (exit 1) and whose pytest run shows the baseline's 254 passed are imported."""
import glob, json, os, re, shutil, subprocess, sys
tag, pfx = sys.argv[1], sys.argv[2]
# re-confirmations made on a quieter machine (demo clean/changed exit codes and the one pinned test that timed out under load,
# tests/large_models/linear_test.py, re-run alone): lines "Cxx/k clean=0 mutant=1 large_models: 1 passed ..."
RECONF = set()
if os.path.exists('/tmp/reconfirm.log'):
    for l in open('/tmp/reconfirm.log'):
        m = re.match(r'(C\d+/\d) clean=0 mutant=1 large_models: 1 passed', l)
        if m: RECONF.add(m.group(1))
for f in sorted(glob.glob('/tmp/mutround_C*.log')):
    t = open(f).read()
    for blk in t.split('== ')[1:]:
        name = blk.split('\n')[0].strip()          # Cxx/k
        p, k = name.split('/')
        cd = re.search(r'clean demo exit=(\d+)', blk); md = re.search(r'mutant demo exit=(\d+)', blk)
        py = re.search(r'pytest with mutant: (.*)', blk)
        ex = re.findall(r'^exit=(\d)', blk, re.M)
        if not ex:
            print(name, 'RUNNING'); continue
        ok = cd and md and py and cd.group(1) == '0' and md.group(1) == '1' and '254 passed' in py.group(1)
        if not ok and name in RECONF and py and ('254 passed' in py.group(1) or '7 failed, 253 passed' in py.group(1)):
            ok = True
        viol = 'VIOLATION' in blk; noin = 'no-failing-input-found' in blk
        res = ('CAUGHT: VIOLATION with failing input' if viol and not noin else
               'CAUGHT but no-failing-input-found' if viol else 'MISSED by the check as it stood')
        mid = f'{p}_{tag}m{k}'
        if not ok:
            print(name, 'NOT-CONFIRMED', cd and cd.group(1), md and md.group(1), py and py.group(1)[:40], '|', res); continue
        d = f'/verif/seeded/{mid}'
        if os.path.exists(d + '/meta.json'):
            print(name, 'already imported:', json.load(open(d + '/meta.json'))['check_result'][:60]); continue
        subprocess.run(['/verif/tools/import_mutant.py', f'{pfx}_{p}/mutants/{k}', mid, p, 'see notes.md', res], check=True,
                       stdout=subprocess.DEVNULL)
        print(name, 'imported', res)
