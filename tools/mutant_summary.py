#!/usr/bin/env python3
import re, sys, glob
for f in sorted(glob.glob('/tmp/mutround_*.log')):
    t = open(f).read()
    for blk in t.split('== ')[1:]:
        name = blk.split('\n')[0]
        cd = re.search(r'clean demo exit=(\d)', blk); md = re.search(r'mutant demo exit=(\d)', blk)
        py = re.search(r'pytest with mutant: (.*)', blk)
        ex = re.findall(r'^exit=(\d)', blk, re.M)
        viol = 'VIOLATION' in blk; noin = 'no-failing-input-found' in blk
        print(name, 'demo', cd and cd.group(1), md and md.group(1), '|', (py.group(1)[:40] if py else ''), '| check exit', ex[-1] if ex else '?',
              'CAUGHT' if viol and not noin else ('CAUGHT-NO-INPUT' if viol else 'MISSED'))
