#!/venv/bin/python
"""Evaluate the model on the first disagreement of the last C10 replay and print model vs implementation."""
import sys, json, glob, os, subprocess
sys.path.insert(0, "/verif")
from vf import core
core.use_repo_in_process()
from harness import C10, series_common as sc
fs = sorted(glob.glob("/verif/replays/C10/*.json"), key=os.path.getmtime)
d = json.load(open(fs[-1]))
b = [x for x in d["broken_obligations"] if x["kind"] == "correspondence"][0]
inp = b["first"]["input"]
print("OPS:"); [print("  ", o) for o in inp["ops"]]
print("INIT:", inp["init"])
print("IMPL:", b["first"]["impl"])
h = {"freq": inp["freq"], "init": inp["init"], "ops": inp["ops"], "outs": [], "final": []}
init = core.coq_list([sc.coq_series(o) for o in h["init"]])
ops = core.coq_list([C10.coq_op(o, h["freq"]) for o in h["ops"]])
txt = C10.HEADER + f"Eval vm_compute in (let '(rs, outs) := run FA (FX tb) {init} {ops} in (last outs (Err 99), rs)).\n"
os.makedirs("/verif/.work/dbg", exist_ok=True)
open("/verif/.work/dbg/d.v", "w").write(txt)
pr = subprocess.run(["coqc", "-Q", "/verif/coq", "Verif", "d.v"], cwd="/verif/.work/dbg", capture_output=True, text=True)
print("MODEL:", (pr.stdout + pr.stderr)[:3000])
