#!/bin/bash
# tools/full_pass.sh [tier] : setup + every claimed check sequentially on /repo; summary in /tmp/full_pass.log
cd /verif
TIER="${1:-quick}"
./setup.sh > /tmp/full_setup.log 2>&1
: > /tmp/full_pass.log
for c in $(python3 -c "import json; print(' '.join(x['property_id'] for x in json.load(open('MANIFEST.json'))['checks']))"); do
  s=$(date +%s)
  ./check $c --tier $TIER > /tmp/full_$c.log 2>&1; rc=$?
  echo "$c rc=$rc $(( $(date +%s) - s ))s $(grep -E 'VIOLATION|KNOWN-FINDING' /tmp/full_$c.log | cut -c1-80 | tr '\n' ';') $(grep 'done:' /tmp/full_$c.log | tail -1 | sed 's/.*done: //')" >> /tmp/full_pass.log
done
