#!/bin/bash
# tools/rm_builder.sh <name> : remove a builder's copies (the branch stays)
N="$1"
git -C /repo worktree remove --force "/work/r$N" 2>/dev/null
git -C /verif worktree remove --force "/work/v$N" 2>/dev/null
rm -rf "/work/v$N" "/work/r$N"
