#!/bin/bash
# tools/regress_seeded.sh <Cxx> [<other-property-prefix> ...] : re-run every seeded change of the property (and of the given other
# prefixes) against its check in a private copy of /verif; one line per change in /tmp/regress_<Cxx>.log
P="$1"; shift
/verif/tools/mk_builder.sh g$P tmp-g$P > /dev/null || exit 2
git -C /repo worktree remove --force /work/rg$P
: > /tmp/regress_$P.log
for d in /verif/seeded/${P}_*; do
  out=$(cd /work/vg$P && VERIF_HOME=/work/vg$P tools/try_mutant.sh $d/patch.diff $P 2>&1 | grep -E "VIOLATION|exit=" | tr '\n' ' ' | cut -c1-160)
  echo "$(basename $d) $out" >> /tmp/regress_$P.log
done
git -C /verif worktree remove --force /work/vg$P; git -C /verif branch -qD tmp-g$P
