#!/venv/bin/python
"""Regenerate /verif/MANIFEST.json from the MANIFEST dict of every harness/Cxx.py."""
import importlib, json, os, sys
sys.path.insert(0, "/verif")
os.chdir("/verif")
props = [json.loads(l) for l in open("properties.jsonl")]
checks, na = [], []
NOT_YET = {}
if os.path.exists("tools/not_applicable.json"):
    NOT_YET = json.load(open("tools/not_applicable.json"))
for p in props:
    pid = p["id"]
    path = f"harness/{pid}.py"
    if not os.path.exists(path):
        na.append({"property_id": pid, "reason": NOT_YET.get(pid, "check not built yet (see DESIGN.md section 3 for the planned model and theorems)")})
        continue
    mod = importlib.import_module(f"harness.{pid}")
    m = mod.MANIFEST
    checks.append({
        "property_id": pid,
        "quick_cmd": f"./check {pid} --tier quick",
        "thorough_cmd": f"./check {pid} --tier thorough",
        "evidence_file": f"/verif/evidence/{pid}.json",
        "replay_cmd_template": f"./check {pid} --replay {{path}}",
        "engine": "coq-proof+tie",
        "level_claimed": {"category": "proof", "text": m["level_text"], "design_ref": m.get("design_ref", f"DESIGN.md section 3, {pid}")},
        "level_note": m["level_note"],
        "technique": m["technique"],
    })
man = {
    "version": 1,
    "setup_cmd": "./setup.sh",
    "hooks": {
        "guard": "IRISPIE_VERIF",
        "enable": "no source hooks: the harness sets IRISPIE_VERIF=1 and instruments black boxes by patching from its own process",
        "baseline_off_cmd": "cd /repo && /venv/bin/python -m pytest -ra -q -p no:cacheprovider --timeout=900 --continue-on-collection-errors",
        "source_commits": [],
        "add_only": True,
    },
    "engines": [{
        "name": "coq-proof+tie", "path": "/verif/check",
        "serves_properties": [c["property_id"] for c in checks],
        "kind_free_text": "Coq 8.16.1 development (coq/): models, theorems (props/Cxx.v), fragments regenerated from /repo/src by "
                          "fail-closed translators (translator/), bit-exact or tolerance correspondence of the executable models "
                          "against the implementation (harness/), falsifier search when an obligation breaks",
    }],
    "checks": checks,
    "not_applicable": na,
    "notes": "See DESIGN.md. Every check: regenerate coq/gen from /repo/src, full .vo build of the property's closure, static gate "
             "(no Admitted/Axiom/...), Print Assumptions against an allow-list, correspondence run, falsifier, known-findings.",
}
json.dump(man, open("MANIFEST.json", "w"), indent=1)
print(f"{len(checks)} checks, {len(na)} not claimed")
