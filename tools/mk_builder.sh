#!/bin/bash
# tools/mk_builder.sh <name> [branch] : a builder's own copy of /verif (git worktree on a new branch, compiled Coq files
# copied so that nothing needs rebuilding) and its own scratch copy of /repo.  Remove with tools/rm_builder.sh <name>.
set -eu
N="$1"; B="${2:-r4-$N}"
git -C /verif worktree add -q "/work/v$N" -b "$B" HEAD
mkdir -p "/work/v$N/coq/gen"
cp /verif/coq/gen/*.v "/work/v$N/coq/gen/" 2>/dev/null || true
cp /verif/coq/_CoqProject /verif/coq/Makefile /verif/coq/Makefile.conf /verif/coq/.Makefile.d "/work/v$N/coq/" 2>/dev/null || true
rsync -a --include='*/' --include='*.vo' --include='*.glob' --include='*.vok' --include='*.vos' --include='.*.aux' --exclude='*' /verif/coq/ "/work/v$N/coq/"
T=$(( $(date +%s) + 2 ))
find "/work/v$N/coq" \( -name '*.vo' -o -name '*.glob' -o -name '*.vok' -o -name '*.vos' -o -name '.*.aux' \) -print0 | xargs -0 touch -d "@$T"
git -C /repo worktree add -q "/work/r$N" HEAD
echo "verif copy: /work/v$N (branch $B)   repo copy: /work/r$N   use: cd /work/v$N && VERIF_REPO=/work/r$N ./check <Cxx>"
