#!/bin/bash
# tools/mutant_round.sh <seed_dir_prefix> <Cxx> ... : confirm + run the check for mutants 1..3 of each property, summary in /tmp/mutround_<Cxx>.log
PFX="$1"; shift
cd "${VERIF_HOME:-/verif}"
for p in "$@"; do
  for k in 1 2 3; do
    d="${PFX}_$p/mutants/$k"
    [ -f "$d/patch.diff" ] || continue
    echo "== $p/$k"
    tools/confirm_mutant.sh "$d"
    tools/try_mutant.sh "$d/patch.diff" "$p"
  done > "/tmp/mutround_$p.log" 2>&1
done
