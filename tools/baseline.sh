#!/bin/bash
# Run the pinned suite (guard off) and compare with BASELINE.json's stable_pass list.
cd /repo && /venv/bin/python -m pytest -ra -q -p no:cacheprovider --timeout=900 --continue-on-collection-errors --junitxml=/tmp/verif_baseline.xml > /tmp/verif_baseline.log 2>&1
/venv/bin/python - <<'PY'
import json, xml.etree.ElementTree as ET
base = json.load(open("/root/.vp/BASELINE.json"))
want = set(base["stable_pass"])
got = set()
for tc in ET.parse("/tmp/verif_baseline.xml").getroot().iter("testcase"):
    if not any(ch.tag in ("failure", "error", "skipped") for ch in tc):
        got.add(f"{tc.get('classname')}::{tc.get('name')}")
missing = sorted(want - got)
print(f"stable_pass={len(want)} passed_now={len(got)} missing={len(missing)}")
for m in missing[:20]:
    print("  MISSING", m)
PY
rm -f /tmp/verif_baseline.xml
