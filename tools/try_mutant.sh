#!/bin/bash
# tools/try_mutant.sh <patch.diff> <Cxx> [tier]  : run a check against a scratch copy of /repo with the patch applied
set -u
PATCH="$(realpath "$1")"; PID="$2"; TIER="${3:-quick}"
W=/tmp/mut_$$_$PID
git -C /repo worktree add -q "$W" HEAD || exit 2
if ! git -C "$W" apply "$PATCH"; then echo "PATCH DOES NOT APPLY"; git -C /repo worktree remove --force "$W"; exit 2; fi
cd "${VERIF_HOME:-/verif}" && VERIF_REPO="$W" ./check "$PID" --tier "$TIER" > "/tmp/mut_$$_$PID.log" 2>&1
rc=$?
grep -E "VIOLATION|KNOWN-FINDING|done:|translator failed|Coq build failed|correspondence:" "/tmp/mut_$$_$PID.log" | cut -c1-400
echo "exit=$rc"
git -C /repo worktree remove --force "$W"
rm -f "/tmp/mut_$$_$PID.log"
exit $rc
