#!/bin/bash
# tools/confirm_mutant.sh <mutant_dir> : confirm demo passes on clean code, fails with the patch, and tests still pass
D="$(realpath "$1")"; W=/tmp/conf_$$
git -C /repo worktree add -q "$W" HEAD || exit 2
run() { (cd "$W" && PYTHONPATH="$W/src" PYTHONHASHSEED=0 timeout 600 /venv/bin/python -W ignore "$D/demo.py" > /tmp/conf_$$.out 2>&1; echo $?); }
c=$(run); echo "clean demo exit=$c"
git -C "$W" apply "$D/patch.diff" || { echo "PATCH DOES NOT APPLY"; git -C /repo worktree remove --force "$W"; exit 2; }
m=$(run); echo "mutant demo exit=$m: $(tail -2 /tmp/conf_$$.out | tr '\n' ' ' | cut -c1-200)"
(cd "$W" && PYTHONPATH="$W/src" /venv/bin/python -m pytest -q -ra -p no:cacheprovider --timeout=900 --continue-on-collection-errors > /tmp/conf_$$.py 2>&1)
echo "pytest with mutant: $(tail -1 /tmp/conf_$$.py)"
# failures other than the 6 that fail on the unchanged code (x13 x5, logistic)
grep -E "^(FAILED|ERROR) " /tmp/conf_$$.py | grep -v "x13_test\|logistic\|^ERROR tests/\(databoxes_fixme\|dataslates\|gimm\|plans\|sources\)" | sed 's/^/  unexpected: /' | cut -c1-200
rm -f /tmp/conf_$$.py
git -C /repo worktree remove --force "$W"; rm -f /tmp/conf_$$.out
