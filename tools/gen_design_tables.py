#!/usr/bin/env python3
"""Print the as-built tables for DESIGN.md section 10 from evidence/*.json, seeded/*/meta.json, known_findings.json."""
import json, glob, os
props = {json.loads(l)["id"]: json.loads(l) for l in open("/verif/properties.jsonl")}
print("| id | theorems (props/Cxx.v) | axioms under Print Assumptions | generated from source (T) | correspondence evaluations (quick) | distinct non-trivial | wall s (last run) |")
print("|---|---|---|---|---|---|---|")
for pid in sorted(props):
    f = f"/verif/evidence/{pid}.json"
    if not os.path.exists(f):
        print(f"| {pid} | (not built) | | | | | |"); continue
    e = json.load(open(f)); c = e["coverage"]
    th = c.get("theorems", {})
    ax = sorted({a.split(".")[-1] for v in th.values() if v for a in v})
    gen = ", ".join(c.get("generated_from_source", [])) or "-"
    print(f"| {pid} | {len(th)} | {', '.join(ax) or 'none (closed under the global context)'} | {gen} | {c.get('evaluations')} | {c.get('distinct_nontrivial')} | {e['wall_s']} |")
print()
print("| mutant | property | needs to manifest | result |")
print("|---|---|---|---|")
for d in sorted(glob.glob("/verif/seeded/*/meta.json")):
    m = json.load(open(d))
    needs = m["needs_to_manifest"]
    if needs == "see notes.md":
        notes = os.path.join(os.path.dirname(d), "notes.md")
        needs = "see seeded/%s/notes.md" % m["id"]
    print(f"| {m['id']} | {m['property']} | {needs} | {m['check_result']} |")
