#!/usr/bin/env python3
"""tools/import_mutant.py <srcdir> <id> <property> <needs> <caught-by text>"""
import json, os, shutil, sys
src, mid, prop, needs, caught = sys.argv[1:6]
d = f"/verif/seeded/{mid}"
os.makedirs(d, exist_ok=True)
for f in ("patch.diff", "demo.py", "notes.md"):
    if os.path.exists(os.path.join(src, f)):
        shutil.copy(os.path.join(src, f), os.path.join(d, f))
meta = {
    "id": mid, "property": prop, "needs_to_manifest": needs,
    "origin": "written by an independent sub-agent that saw only the property text and a scratch worktree of /repo",
    "confirmed": {
        "how": "tools/confirm_mutant.sh: scratch worktree of /repo HEAD; demo.py exits 0 on the clean tree and 1 with patch.diff applied; "
               "pinned pytest suite with the patch: same passed set as the baseline (254 passed)",
    },
    "check_result": caught,
    "ran": f"tools/try_mutant.sh seeded/{mid}/patch.diff {prop}  (scratch worktree + VERIF_REPO; equivalent to git -C /repo apply / checkout)",
}
json.dump(meta, open(os.path.join(d, "meta.json"), "w"), indent=1)
print("imported", d)
