#!/usr/bin/env python3
"""tools/coqchk_report.py : run Coq's independent checker on every compiled props file of /verif/coq (after a full build) and
write coqchk_report.txt (axioms of every loaded library, type-in-type / unsafe fixpoints / assumed positivity)."""
import re, subprocess, sys, concurrent.futures as cf
COQ = "/verif/coq"
def run(p):
    try:
        pr = subprocess.run(["nice", "timeout", "1500", "coqchk", "-silent", "-o", "-Q", ".", "Verif", f"Verif.props.{p}"], cwd=COQ,
                            capture_output=True, text=True)
    except Exception as e:
        return p, f"(failed to run: {e})"
    out = pr.stdout + pr.stderr
    if "CONTEXT SUMMARY" not in out or pr.returncode != 0:
        return p, f"(not checked, rc={pr.returncode}) {out[-300:]!r}"
    def sect(name):
        m = re.search(name + r":\s*(.*?)(?=\n\* |\Z)", out, re.S)
        return m.group(1).strip() if m else ""
    ax = [l.strip() for l in sect(r"\* Axioms").splitlines() if l.strip() and "<none>" not in l]
    prim = [a for a in ax if re.match(r"Coq\.(Numbers\.Cyclic\.Int63|Floats|Numbers\.Cyclic\.Int63\.PrimInt63|Array)", a) or "PrimInt63" in a or "PrimFloat" in a or "Uint63" in a or "Sint63" in a or "FloatAxioms" in a or "FloatOps" in a or "SpecFloat" in a or "PArray" in a]
    other = sorted(set(ax) - set(prim))
    f = lambda s: ", ".join(l.strip() for l in sect(s).splitlines() if l.strip()) or "<none>"
    tit = f(r"Constants/Inductives relying on type-in-type")
    ufx = f(r"Constants/Inductives relying on unsafe \(co\)fixpoints")
    pos = f(r"Inductives whose positivity is assumed")
    oth = ", ".join(other) or "<none>"
    return p, (f"modules checked OK | axioms: {len(prim)} stdlib primitive-int/float declarations+specs; others: {oth} | "
               f"type-in-type: {tit} | unsafe fixpoints: {ufx} | assumed positivity: {pos}")
props = [f"C{i:02d}" for i in range(1, 21)]
with cf.ThreadPoolExecutor(int(sys.argv[1]) if len(sys.argv) > 1 else 3) as ex:
    res = dict(ex.map(run, props))
allo = set()
lines = ["coqchk -silent -o -Q . Verif Verif.props.<Cxx>  -- Coq 8.16.1's independent checker re-checks the compiled props file and everything it depends on",
         "(run by tools/coqchk_report.py on the full build of /verif/coq; 'axioms' lists every axiom of every library loaded, including standard-library",
         " axioms about primitive integers/floats that the executable carriers pull in; none is declared by this development)", ""]
for p in props:
    lines.append(f"{p}: {res[p]}")
    m = re.search(r"others: (.*?) \|", res[p])
    if m and m.group(1) != "<none>":
        allo |= set(x.strip() for x in m.group(1).split(","))
lines += ["", "All non-primitive axioms seen: " + (", ".join(sorted(allo)) or "<none>")]
open("/verif/coqchk_report.txt", "w").write("\n".join(lines) + "\n")
print("\n".join(lines[-6:]))
