#!/bin/bash
# Build the Coq development from files on disk only (offline).  The generated
# fragments coq/gen/*.v are regenerated from /repo/src first; every check
# regenerates them again and rebuilds what changed.
set -u
cd "$(dirname "$0")"
mkdir -p coq/gen evidence .work
/venv/bin/python - <<'PY'
import sys, importlib, pkgutil, traceback
sys.path.insert(0, __import__("os").path.dirname(__import__("os").path.abspath("setup.sh")))
from vf import core
import translator
for m in pkgutil.iter_modules(translator.__path__):
    mod = importlib.import_module(f"translator.{m.name}")
    if hasattr(mod, "run"):
        try:
            mod.run()
        except Exception as e:   # fail closed later, inside the check of the property that needs the fragment
            print(f"[setup] translator {m.name}: {type(e).__name__}: {e}")
core.write_coqproject()
PY
cd coq && timeout 7200 make -j16 -k --no-print-directory 2>&1 | grep -v "^COQC\|^COQDEP" | tail -20
exit 0
