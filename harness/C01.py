"""C01  First-order solution satisfies the model equations and is the stable one.

Scope note: the theorems (and the tolerance correspondence) assume CURRENT-DATED shocks.  In the model this assumption sits
in `simulate_flat` / `flat_step` / `simulate_measurement` of coq/model/Ford.v: the shock vector of period t that multiplies
P (and D, H, J in the statements) is ONE vector e[t] = u[t] + v[t] (w[t]) with one entry per shock token of the system, read
at date t, exactly as fords/shock_simulators.py::extract_shock_values reads `working_data[shock_qids, :]` by qid only.  A
lagged shock e{-k} is a separate shock token (a separate column of D / J) that the code nevertheless feeds with the value of
date t, not t-k: the theorems still hold for the vector the code uses, but that vector is not the model's e{-k}.  This is the
recorded finding `equations:lagged-shock`; models with lagged shocks are generated only by the dedicated falsifier class
`lagged_shock_*` below and are kept out of the correspondence and of every other failure key."""
from __future__ import annotations

import contextlib
import io
import math
import re

import numpy as np

from vf import core
from vf.core import CorrResult, Disagreement, Failure
from translator import ford as tr
from translator import fordsteady as tr_steady
from translator import variantlist as tr_variants

ID = "C01"
PROPS = "props/C01.v"
GENERATED = [tr.OUT, tr_steady.OUT, tr_variants.OUT]
CASE_DEPS = ["model/Ford.vo", "model/FordSteady.vo", "model/VariantList.vo"]
ALLOWED_AXIOMS: set = set()          # every theorem is closed under the global context
TRUSTED = [
    "translator/ford.py (tolerance predicates, classifiers, token-level scalar rules -> gen/FordGen.v; the statements of "
    "_solve_measurement_equations and left_div are compared literally with the ones modelled by solve_measurement)",
    "translator/fordsteady.py (the twelve blocks of AB, FF, GG and k of solve_steady_linear_nonflat -> gen/FordSteadyGen.v; every "
    "other statement of the function and the (linear, non-flat) dispatch are compared literally)",
    "translator/variantlist.py (the list-filling statement of Mixin.expand_num_variants -> gen/VariantListGen.v; num_variants, "
    "alter/shrink_num_variants, Variant.copy and the per-variant loop of _assign are compared literally)",
    "scipy.linalg.ordqz, scipy.linalg.schur, numpy.linalg.lstsq are oracles: their outputs are recorded by wrapping "
    "irispie.fords.solutions._solve_ordqz / scipy.linalg.schur from outside while the real solver runs; the theorems "
    "quantify over all oracle values satisfying the contract (Q A Z = S, Q B Z = T, Q and Z non-singular, S and T block "
    "upper triangular, S11, T22, S22+T22, Z21 non-singular, u orthogonal with Tg = u Ta u'); the harness re-checks the "
    "contract numerically on every recorded output",
    "Bignums BigQ under vm_compute (exact rational evaluation of the model on the dyadic values of the doubles)",
    "numpy log/exp of log-variables are glue: simulated cells of log-variables are compared in logs",
]
ASSUMPTIONS = [
    "theorems are exact over an arbitrary field (no rounding); the code is tied by tolerance 1e-7*(1+|x|)",
    "lstsq(A, B) is modelled as inv(A) @ B (square non-singular A)",
    "clip_small=False (the default): Ua and Z are not clipped",
    "non-explosiveness: the recursion matrix is proved similar to Tg = -S11^-1 T11 (the roots QZ ordered first); "
    "boundedness of powers of a matrix with spectral radius < 1 is NOT proved (no spectral theory in MathComp 1.15)",
    "the system matrices A..J come from the implementation (their derivation by aldi is C02); the falsifier re-derives "
    "the linearised equations from the generated model source independently",
]
MANIFEST = {
    "technique": "Coq 8.16 / MathComp proof of the first-order solution algebra written once over an abstract matrix interface "
                 "(instantiated on 'M[F]_(m,n) over an arbitrary field for the theorems and on exact rational / dyadic list "
                 "matrices for a correspondence with the real solver through the public API); QZ, Schur, lstsq as contracts; "
                 "classification predicates and token rules regenerated from the source",
    "level_text": "Theorems (props/C01.v, all closed under the global context, arbitrary field and block sizes): the triangular "
                  "solution annihilates both blocks of the QZ-transformed system; EVERY period of simulate_flat, from every initial "
                  "condition and every path of unanticipated and anticipated shocks, satisfies A xi+[t] + B xi+[t-1|t] + C + D e[t] = 0 "
                  "with the state rows of xi+ equal to the simulated path; the anticipated-shock impact equals P v[t] - X a[t] with the "
                  "forward expansion proved by induction over the horizon; the leads of xi+ are the states of the model-consistent "
                  "continuation (via the dynamic identities, which are proved to exist for every token set and to be x{k}(t) = x{k+1}(t-1)); "
                  "a steady state of the system is a fixed point of the recursion and level = steady + deviation period by period; the "
                  "same along a GROWING steady-state path (three consecutive points of an affine path satisfying the system are one step of the "
                  "recursion; C = -(A xi + B xi_lagged) makes that hold by construction); the deviation path satisfies the homogeneous "
                  "system; measurement block, for any invertible F (also non-diagonal / non-symmetric: measurement equations referring to other "
                  "measurement variables), and (Z, H, D) are the ONLY matrices satisfying it, a transposed solve is refuted; STABLE iff #unstable = #forward-looking, the three "
                  "eigenvalue classes partition, and the QZ ordering predicate agrees with the classifier (predicates regenerated from "
                  "fords/solutions.py); the recursion matrix has exactly the generalised eigenvalues of the pencil block ordered first. "
                  "Steady state of linear non-flat models (solve_steady_linear_nonflat, the blocks of the stacked matrices regenerated from "
                  "the source): any solution of the stacked systems is a steady-state PATH (transition and measurement equations at every "
                  "date, affine in t), and the level simulation of a measurement variable equals its steady-state value plus its deviation "
                  "simulation.  Parameter variants (the list-filling statement of expand_num_variants regenerated from the source, executed "
                  "on an object store): after every history of alter_num_variants / assign calls no Variant object occurs twice in the "
                  "list, and a per-variant assignment leaves variant i with its own value. "
                  "Correspondence: random models as source text -> from_string/assign/steady/solve/simulate, all 15 solution matrices, "
                  "expansions, token vectors, dynamic identities, classification and every simulated cell against the exact model.",
    "level_note": "partial. The theorems assume CURRENT-DATED shocks: one shock vector e[t] per period with one entry per shock token, "
                  "read at date t (simulate_flat / flat_step / simulate_measurement of model/Ford.v, as extract_shock_values does); a lagged "
                  "shock e{-k} is a separate token that the code feeds with the value of date t -- recorded finding equations:lagged-shock, "
                  "probed by a separate falsifier class and kept out of the correspondence. Contracts (premises, re-checked numerically on every recorded oracle output): ordered QZ (Q A Z = S, Q B Z = T, "
                  "Q non-singular, S/T block upper triangular, S11, T22, S22+T22, Z21 non-singular), Schur (u orthogonal, Tg = u Ta u'), "
                  "lstsq = inverse. NOT proved: boundedness of the powers of a matrix with spectral radius < 1 (non-explosiveness is stated "
                  "as similarity to the stable pencil block, theorem C01_recursion_spectrum_partial); floating-point rounding (tie by tolerance "
                  "1e-7*(1+|x|)); the derivation of A..J by aldi (C02). Trusted: Coq kernel + vm_compute, Bignums, translator/ford.py, harness.",
}

SHOCK_BIG = 2 ** 1000      # stands for an infinite eigenvalue modulus (alpha = 0)


def translate(ctx):
    errs = []
    for t in (tr, tr_steady, tr_variants):
        try:
            t.run()
        except core.TranslatorError as e:
            errs.append(f"{t.OUT}: {e}")
    if errs:
        raise core.TranslatorError("; ".join(errs))


# ====================================================================== model generator

def _r(rng, lo, hi, nd=2):
    v = round(rng.uniform(lo, hi), nd)
    return v if v != 0 else round(hi / 2, nd) or 0.1


def gen_spec(rng, max_states=8) -> dict:
    """A random small model: n equations, equation i determines variable i.
    V(j) = log(xj) for log-variables, xj otherwise; every equation is linear in the V's, optionally plus one product
    term of two level variables (genuinely non-linear model, solved at its steady state)."""
    for _ in range(200):
        n = rng.choice([1, 2, 2, 2, 3, 3, 4])
        nonlinear = rng.random() < 0.2
        uselog = rng.random() < 0.4
        logs = [uselog and rng.random() < 0.5 for _ in range(n)]
        maxlag = rng.choice([1, 1, 2, 2, 3])
        maxlead = rng.choice([0, 1, 1, 1, 2, 2, 3])
        eqs = []
        nshocks = rng.randint(1, n)
        for i in range(n):
            terms = {}
            if rng.random() < 0.85:
                terms[(i, -1)] = _r(rng, -0.9, 0.9)
            k = rng.randint(0, 3)
            for _t in range(k):
                j = rng.randrange(n)
                sh = rng.choice([s for s in range(-maxlag, maxlead + 1)])
                if j == i and sh == 0:
                    continue
                mag = 0.5 if sh > 0 else 0.6
                terms[(j, sh)] = _r(rng, -mag, mag)
            const = _r(rng, -1.0, 2.0) if rng.random() < 0.7 else 0.0
            shocks = []
            if i < nshocks:
                shocks.append([i, 1.0 if rng.random() < 0.6 else _r(rng, 0.2, 2.0)])
            if rng.random() < 0.2:
                s = rng.randrange(nshocks)
                if all(s != q[0] for q in shocks):
                    shocks.append([s, _r(rng, -1.0, 1.0)])
            eqs.append({"terms": [[j, sh, c] for (j, sh), c in sorted(terms.items())], "const": const,
                        "shocks": shocks, "nl": []})
        has_lead = any(sh > 0 for e in eqs for (_j, sh, _c) in e["terms"])
        if not has_lead and rng.random() < 0.55:
            i = rng.randrange(n)
            ld = rng.choice([1, 1, 1, 2, 2, 3])
            eqs[i]["terms"] = sorted(eqs[i]["terms"] + [[rng.randrange(n), ld, _r(rng, -0.5, 0.5)]])
        if nonlinear:
            lev = [j for j in range(n) if not logs[j]]
            if len(lev) >= 1:
                i = rng.randrange(n)
                j1, j2 = rng.choice(lev), rng.choice(lev)
                eqs[i]["nl"].append([j1, rng.choice([-1, 0]) if j1 != i else -1, j2, -1, _r(rng, -0.15, 0.15)])
            else:
                nonlinear = False
        ny = rng.choice([0, 1, 1, 2, 2, 3])
        meas = []
        nw = 0
        for k in range(ny):
            terms = {}
            for _t in range(rng.randint(1, 2)):
                terms[(rng.randrange(n), rng.choice([0, 0, -1, -2]))] = _r(rng, -2.0, 2.0)
            w = rng.random() < 0.7
            meas.append({"terms": [[j, sh, c] for (j, sh), c in sorted(terms.items())],
                         "const": _r(rng, -1, 1) if rng.random() < 0.6 else 0.0,
                         "log": uselog and rng.random() < 0.3, "wshock": nw if w else None})
            nw += 1 if w else 0
        if ny >= 2 and rng.random() < 0.7:
            add_cross_measurement(rng, meas)
        linear_flag = (not nonlinear) and (not any(logs)) and not any(m["log"] for m in meas) and rng.random() < 0.6
        spec = {"n": n, "logs": logs, "eqs": eqs, "meas": meas, "nshocks": nshocks, "nw": nw,
                "linear": linear_flag, "flat": rng.random() < 0.8, "literal": rng.random() < 0.4}
        lo, hi = _shift_ranges(spec)
        if sum(hi[j] - lo[j] for j in range(n)) > max_states:
            continue
        return spec
    raise RuntimeError("generator: no model within the size limit")


def meas_cross_matrix(meas) -> np.ndarray:
    """Q with  V(o_k) = ... + sum_k2 Q[k, k2] V(o_k2): the references of measurement equations to OTHER measurement variables
    (the measurement Jacobian w.r.t. measurement variables is then F = Q - I up to the sign convention: not diagonal)"""
    ny = len(meas)
    Q = np.zeros((ny, ny))
    for k, me in enumerate(meas):
        for (k2, c) in me.get("oterms", []):
            Q[k, k2] += c
    return Q


def add_cross_measurement(rng, meas) -> bool:
    """measurement equations that refer to other measurement variables (o2 = x + 0.5*o1 + w2): one-way, two-way with different
    coefficients, chains and cycles, so that F is neither diagonal nor symmetric (and, half of the time, not triangular
    either); I - Q well conditioned, so that the measurement block determines the measurement variables uniquely"""
    ny = len(meas)
    if ny < 2:
        return False
    pairs = [(k, k2) for k in range(ny) for k2 in range(ny) if k != k2]
    for _ in range(40):
        Q = np.zeros((ny, ny))
        for (k, k2) in pairs:
            if rng.random() < 0.5:
                Q[k, k2] = _r(rng, -0.8, 0.8)
        if not Q.any() or np.abs(Q - Q.T).max() < 0.1 or abs(np.linalg.det(np.eye(ny) - Q)) < 0.3:
            continue
        for k in range(ny):
            meas[k]["oterms"] = [[k2, float(Q[k, k2])] for k2 in range(ny) if Q[k, k2] != 0.0]
        return True
    return False


def force_cross_measurement(rng, spec) -> dict:
    """the same (already accepted) model with at least two measurement variables that refer to each other asymmetrically;
    the transition block, hence determinacy, is untouched (a measurement term at shift 0 adds no state)"""
    while len(spec["meas"]) < rng.choice([2, 2, 3]):
        spec["meas"].append({"terms": [[rng.randrange(spec["n"]), 0, _r(rng, 0.5, 2.0)]], "const": _r(rng, -1, 1),
                             "log": False, "wshock": None})
    add_cross_measurement(rng, spec["meas"])
    return spec


def meas_steady(meas, rhs) -> np.ndarray:
    """solves the measurement block for the measurement variables given the right-hand sides without the cross references"""
    ny = len(meas)
    if ny == 0:
        return np.zeros(0)
    return np.linalg.solve(np.eye(ny) - meas_cross_matrix(meas), np.asarray(rhs, dtype=float))


def add_growth(rng, base, zbar) -> dict:
    """A balanced-growth version of a stationary model that is linear in V: a stochastic trend  V_a = V_a{-1} + mu + e  is
    appended and every equation is re-read in gaps  V_j - kappa_j V_a :
        (V_i - k_i V_a) = sum c (V_j{sh} - k_j V_a{sh}) + const + shocks
    which is again of the standard form (V_i = linear terms + const + shocks).  The steady state grows:
    V_j(t) = zbar_j + kappa_j (a0 + mu t)  (gross rate exp(kappa_j mu) for log-variables).  The model is declared neither
    linear nor flat, so that the constants of the first-order system come from the steady-state path."""
    n = base["n"]
    assert not any(e["nl"] for e in base["eqs"])
    kappa = [(_r(rng, 0.3, 1.5) if rng.random() < 0.8 else 0.0) for _ in range(n)]
    if not any(kappa):
        kappa[rng.randrange(n)] = 1.0
    mu = _r(rng, 0.01, 0.08, 3) * rng.choice([1, 1, -1])
    a0 = _r(rng, -0.5, 0.8, 2)
    eqs = []
    for i, e in enumerate(base["eqs"]):
        terms = {(j, sh): c for (j, sh, c) in e["terms"]}
        ca = {0: kappa[i]}
        for (j, sh, c) in e["terms"]:
            ca[sh] = ca.get(sh, 0.0) - c * kappa[j]
        for sh, c in ca.items():
            if c != 0.0:
                terms[(n, sh)] = c
        eqs.append({"terms": [[j, sh, c] for (j, sh), c in sorted(terms.items())], "const": e["const"],
                    "shocks": [list(q) for q in e["shocks"]], "nl": []})
    eqs.append({"terms": [[n, -1, 1.0]], "const": mu, "shocks": [[base["nshocks"], 1.0]], "nl": []})
    spec = dict(base)
    spec.update({"n": n + 1, "logs": list(base["logs"]) + [rng.random() < 0.5], "eqs": eqs, "nshocks": base["nshocks"] + 1,
                 "linear": False, "flat": False})
    level = [float(zbar[j]) + kappa[j] * a0 for j in range(n)] + [a0]
    change = [kappa[j] * mu for j in range(n)] + [mu]
    spec["growth"] = {"trend": n, "mu": mu, "a0": a0, "kappa": kappa, "level": level, "change": change}
    return spec


def make_linear_growth(spec) -> dict:
    """The balanced-growth model declared linear=True, flat=False: its growing steady state (levels and changes) is then
    COMPUTED by steady() from the first-order system (fords/steadiers.py::solve_steady_linear_nonflat) instead of being
    assigned.  Only for models without log-variables (a linear model has none)."""
    assert not any(spec["logs"][:-1]) and not any(m["log"] for m in spec["meas"])
    spec["logs"][-1] = False
    spec["linear"] = True
    spec["flat"] = False
    spec["steady_solved"] = True
    return spec


def linear_eligible(spec) -> bool:
    return not any(spec["logs"]) and not any(m["log"] for m in spec["meas"]) and not any(e["nl"] for e in spec["eqs"])


def ensure_measurement(rng, spec) -> dict:
    """at least one measurement variable, loading on a transition variable at shift 0"""
    if not spec["meas"]:
        spec["meas"] = [{"terms": [[rng.randrange(spec["n"]), 0, _r(rng, 0.5, 2.0)]], "const": _r(rng, -1, 1),
                         "log": False, "wshock": None}]
    return spec


def growth_steady_assignment(spec) -> dict:
    """{name: (level, change)} at the reference date, changes as gross rates for log-variables"""
    g = spec["growth"]
    out = {}
    for j in range(spec["n"]):
        lv, ch = g["level"][j], g["change"][j]
        out[vname(j)] = (math.exp(lv), math.exp(ch)) if spec["logs"][j] else (lv, ch)
    lvs = meas_steady(spec["meas"], [me["const"] + sum(c * (g["level"][j] + sh * g["change"][j]) for (j, sh, c) in me["terms"])
                                     for me in spec["meas"]])
    chs = meas_steady(spec["meas"], [sum(c * g["change"][j] for (j, sh, c) in me["terms"]) for me in spec["meas"]])
    for k, me in enumerate(spec["meas"]):
        lv, ch = float(lvs[k]), float(chs[k])
        out[oname(k)] = (math.exp(lv), math.exp(ch)) if me["log"] else (lv, ch)
    return out


def vname(j): return f"x{j + 1}"
def ename(j): return f"e{j + 1}"
def oname(j): return f"o{j + 1}"
def wname(j): return f"w{j + 1}"


def _tok(spec, j, sh):
    s = vname(j) + (f"{{{sh:+d}}}" if sh else "")
    return f"log({s})" if spec["logs"][j] else s


def _num(c):
    return f"({c!r})" if c < 0 else repr(c)


def render_source(spec) -> tuple[str, dict]:
    """model source text and the parameter assignment"""
    n = spec["n"]
    params = {}
    lit = spec["literal"]

    def coef(tag, c):
        if lit:
            return _num(c)
        params[tag] = c
        return tag
    lines = ["!transition-variables", "  " + ", ".join(vname(j) for j in range(n))]
    logn = [vname(j) for j in range(n) if spec["logs"][j]] + [oname(k) for k, m in enumerate(spec["meas"]) if m["log"]]
    if logn:
        lines += ["!log-variables", "  " + ", ".join(logn)]
    lines += ["!transition-shocks", "  " + ", ".join(ename(j) for j in range(spec["nshocks"]))]
    if spec["meas"]:
        lines += ["!measurement-variables", "  " + ", ".join(oname(k) for k in range(len(spec["meas"])))]
        if spec["nw"]:
            lines += ["!measurement-shocks", "  " + ", ".join(wname(k) for k in range(spec["nw"]))]
    eq_lines = []
    for i, e in enumerate(spec["eqs"]):
        rhs = []
        for (j, sh, c) in e["terms"]:
            rhs.append(f"{coef(f'c{i + 1}_{j + 1}{'m' if sh < 0 else 'p'}{abs(sh)}', c)}*{_tok(spec, j, sh)}")
        for (j1, s1, j2, s2, c) in e["nl"]:
            a = vname(j1) + (f"{{{s1:+d}}}" if s1 else "")
            b = vname(j2) + (f"{{{s2:+d}}}" if s2 else "")
            rhs.append(f"{coef(f'n{i + 1}', c)}*{a}*{b}")
        if e["const"] != 0.0:
            rhs.append(coef(f"k{i + 1}", e["const"]))
        for (s, c) in e["shocks"]:
            rhs.append(ename(s) if c == 1.0 else f"{_num(c)}*{ename(s)}")
        for (s, lag, c) in e.get("lagshocks", []):
            rhs.append(f"{_num(c)}*{ename(s)}{{-{lag}}}")
        if not rhs:
            rhs = ["0"]
        eq_lines.append(f"  {_tok(spec, i, 0)} = " + " + ".join(rhs) + ";")
    meq = []
    for k, m in enumerate(spec["meas"]):
        rhs = [f"{coef(f'm{k + 1}_{j + 1}m{abs(sh)}', c)}*{_tok(spec, j, sh)}" for (j, sh, c) in m["terms"]]
        for (k2, c) in m.get("oterms", []):
            o2 = f"log({oname(k2)})" if spec["meas"][k2]["log"] else oname(k2)
            rhs.append(f"{coef(f'q{k + 1}_{k2 + 1}', c)}*{o2}")
        if m["const"] != 0.0:
            rhs.append(coef(f"d{k + 1}", m["const"]))
        if m["wshock"] is not None:
            rhs.append(wname(m["wshock"]))
            if m.get("wlag"):
                rhs.append(f"{_num(m['wlag'][1])}*{wname(m['wshock'])}{{-{m['wlag'][0]}}}")
        lhs = f"log({oname(k)})" if m["log"] else oname(k)
        meq.append(f"  {lhs} = " + " + ".join(rhs) + ";")
    if params:
        lines += ["!parameters", "  " + ", ".join(params)]
    lines += ["!transition-equations"] + eq_lines
    if meq:
        lines += ["!measurement-equations"] + meq
    return "\n".join(lines) + "\n", params


def _shift_ranges(spec):
    """per variable: lo (exclusive lower end of the state block, <= -1) and hi (>= 0) over ALL equations,
    measurement occurrences x{k} counting as x{k-1} (irispie's pretend lag)"""
    n = spec["n"]
    lo = [-1] * n
    hi = [0] * n
    for i, e in enumerate(spec["eqs"]):
        occ = [(i, 0)] + [(j, sh) for (j, sh, _c) in e["terms"]] + \
              [(q[0], q[1]) for q in e["nl"]] + [(q[2], q[3]) for q in e["nl"]]
        for j, sh in occ:
            lo[j] = min(lo[j], sh)
            hi[j] = max(hi[j], sh)
    for m in spec["meas"]:
        for (j, sh, _c) in m["terms"]:
            lo[j] = min(lo[j], sh - 1)
            hi[j] = max(hi[j], sh)
    return lo, hi


def own_tokens(spec):
    """(actual transition-variable tokens over all equations, transition-variable tokens in measurement equations)
    as (variable index, shift), derived from the generated source only"""
    actual, meas = set(), set()
    for i, e in enumerate(spec["eqs"]):
        actual.add((i, 0))
        for (j, sh, _c) in e["terms"]:
            actual.add((j, sh))
        for q in e["nl"]:
            actual.add((q[0], q[1])); actual.add((q[2], q[3]))
    for m in spec["meas"]:
        for (j, sh, _c) in m["terms"]:
            actual.add((j, sh)); meas.add((j, sh))
    return sorted(actual), sorted(meas)


# ---------------------------------------------------------------- independent linearisation and root count

def own_steady(spec):
    """steady state of V (log of log-variables) from the generated coefficients; Newton for the product terms"""
    n = spec["n"]
    V = np.zeros(n)

    def resid(V):
        x = np.where(spec["logs"], np.exp(V), V)
        r = np.zeros(n)
        for i, e in enumerate(spec["eqs"]):
            r[i] = -V[i] + e["const"] + sum(c * V[j] for (j, _sh, c) in e["terms"]) + \
                sum(c * x[j1] * x[j2] for (j1, _s1, j2, _s2, c) in e["nl"])
        return r
    for _ in range(60):
        r = resid(V)
        if np.abs(r).max() < 1e-13:
            break
        Jm = np.zeros((n, n))
        for j in range(n):
            d = np.zeros(n); d[j] = 1e-6
            Jm[:, j] = (resid(V + d) - resid(V - d)) / 2e-6
        try:
            V = V - np.linalg.solve(Jm, r)
        except np.linalg.LinAlgError:
            return None
    if not np.all(np.isfinite(V)) or np.abs(resid(V)).max() > 1e-10:
        return None
    return V


def own_jacobian(spec, V):
    """{(i, j, shift): d equation_i / d V_j{shift}} of  0 = -V_i + ...  at the steady state V (levels for non-log)"""
    Jc = {}
    x = None if V is None else np.where(spec["logs"], np.exp(V), V)
    for i, e in enumerate(spec["eqs"]):
        Jc[(i, i, 0)] = Jc.get((i, i, 0), 0.0) - 1.0
        for (j, sh, c) in e["terms"]:
            Jc[(i, j, sh)] = Jc.get((i, j, sh), 0.0) + c
        for (j1, s1, j2, s2, c) in e["nl"]:       # level variables only
            Jc[(i, j1, s1)] = Jc.get((i, j1, s1), 0.0) + c * x[j2]
            Jc[(i, j2, s2)] = Jc.get((i, j2, s2), 0.0) + c * x[j1]
    return Jc


def own_root_count(spec, Jc):
    """Generalised eigenvalues of the companion pencil built from the generated coefficients only
    (numpy/scipy eig, not ordqz): returns (num_forward_looking, num_unstable, min distance of |root| from 1)"""
    import scipy.linalg as sla
    n = spec["n"]
    lo, hi = _shift_ranges(spec)
    # do not count the pretend lags of measurement equations here: they only add zero roots
    idx = {}
    for j in range(n):
        for sh in range(hi[j], lo[j], -1):
            idx[(j, sh)] = len(idx)
    N = len(idx)
    A = np.zeros((N, N)); B = np.zeros((N, N))
    row = 0
    for i in range(n):
        for (ii, j, sh), c in Jc.items():
            if ii != i:
                continue
            if (j, sh) in idx:
                A[row, idx[(j, sh)]] += c
            else:                                   # sh == lo[j]: the lag of the lowest state
                B[row, idx[(j, sh + 1)]] += c
        row += 1
    for (j, sh), k in idx.items():
        if sh < hi[j]:
            A[row, k] = 1.0; B[row, idx[(j, sh + 1)]] = -1.0
            row += 1
    assert row == N
    # (A lam + B) v = 0   <=>   -B v = lam A v
    w = sla.eig(-B, A, right=False, homogeneous_eigvals=True)
    al, be = np.abs(w[0]), np.abs(w[1])
    if not (np.all(np.isfinite(al)) and np.all(np.isfinite(be))) or np.any((al == 0) & (be == 0)):
        return sum(hi), -1, 0.0           # singular pencil: neither accepted as determinate nor used as a counterexample
    unstable = 0
    dist = np.inf
    for a_, b_ in zip(al, be):
        if b_ == 0 or a_ / b_ > 1e12:
            unstable += 1
            continue
        r = a_ / b_
        if spec.get("growth") and abs(r - 1.0) < 1e-9:
            continue                                 # the unit root of the stochastic trend
        dist = min(dist, abs(r - 1.0))
        if r > 1.0:
            unstable += 1
    nf = sum(hi)
    return nf, unstable, dist


# ====================================================================== implementation side

class Recorder:
    """records the black boxes of the solver from outside (no bypass: the real functions run)"""

    def __init__(self):
        self.qz = None; self.system = None; self.schur = None; self.eig = None
        self.steady = []          # (system, (Xi, Y, dXi, dY)) of every solve_steady_linear_nonflat call

    @contextlib.contextmanager
    def active_steady(self):
        from irispie.fords import steadiers as st
        orig = st.solve_steady_linear_nonflat

        def w(system, *a, **k):
            out = orig(system, *a, **k)
            self.steady.append((system, tuple(np.array(x, dtype=float) for x in out)))
            return out
        st.solve_steady_linear_nonflat = w
        try:
            yield self
        finally:
            st.solve_steady_linear_nonflat = orig

    @contextlib.contextmanager
    def active(self):
        import scipy.linalg
        from irispie.fords import solutions as sol
        o_qz, o_schur = sol._solve_ordqz, scipy.linalg.schur

        def w_qz(system, f):
            out = o_qz(system, f)
            self.qz = tuple(np.array(x, dtype=float) for x in out[0]); self.eig = out[1]; self.system = system
            return out

        def w_schur(*a, **k):
            out = o_schur(*a, **k)
            self.schur = (np.array(out[0], dtype=float), np.array(out[1], dtype=float), out[2] if len(out) > 2 else None)
            return out
        sol._solve_ordqz = w_qz
        scipy.linalg.schur = w_schur
        try:
            yield self
        finally:
            sol._solve_ordqz = o_qz
            scipy.linalg.schur = o_schur


def build_model(spec):
    """from_string -> assign -> steady -> solve ; returns (model, recorder) or raises"""
    import irispie as ir
    src, params = render_source(spec)
    m = ir.Simultaneous.from_string(src, linear=spec["linear"], flat=spec["flat"])
    if params:
        m.assign(**params)
    rec = Recorder()
    if spec.get("growth") and not spec.get("steady_solved"):
        # a unit root: the growing steady state is assigned (levels and changes) and verified, not solved for
        m.assign(**growth_steady_assignment(spec))
        with contextlib.redirect_stdout(io.StringIO()):
            if m.check_steady() is False:
                raise RuntimeError("assigned balanced-growth path rejected by check_steady")
    else:
        # (models declared linear=True, flat=False -- also with a growing steady state -- go through
        # solve_steady_linear_nonflat, whose input and output are recorded)
        with contextlib.redirect_stdout(io.StringIO()), rec.active_steady():
            m.steady()
    with rec.active():
        m.solve()
    return m, rec


def series_value(db, name, period) -> float:
    v = db[name][period]
    return float(np.asarray(v).ravel()[0])


def model_layout(m):
    d = m._invariant.dynamic_descriptor
    names = m.create_qid_to_name()
    logly = m.create_qid_to_logly()
    return d, names, logly


# ---------------------------------------------------------------- scenarios

def gen_scenario(rng, spec, nper=None) -> dict:
    nper = nper or rng.randint(3, 9)
    n, ns, nw = spec["n"], spec["nshocks"], spec["nw"]
    sc = {"nper": nper, "deviation": rng.random() < 0.5, "u": [], "v": [], "w": [], "init": []}
    kind = rng.choice(["both", "both", "unant", "ant", "none"])
    for s in range(ns):
        for t in range(nper):
            if kind in ("both", "unant") and rng.random() < 0.35:
                sc["u"].append([s, t, _r(rng, -1, 1, 3)])
            if kind in ("both", "ant") and rng.random() < 0.3:
                sc["v"].append([s, t, _r(rng, -1, 1, 3)])
    for s in range(nw):
        for t in range(nper):
            if rng.random() < 0.4:
                sc["w"].append([s, t, _r(rng, -1, 1, 3)])
    lo, _hi = _shift_ranges(spec)
    for j in range(n):
        for back in range(1, -lo[j] + 2):
            if rng.random() < 0.7:
                sc["init"].append([j, back, _r(rng, -0.3, 0.3, 3)])     # deviation of V_j at start-back
    shape_scenario(rng, spec, sc, split=rng.random() < 0.35, cancel=rng.random() < 0.3)
    return sc


def shape_scenario(rng, spec, sc, split=False, cancel=False):
    """Classes of legitimate shock paths / options that a random draw rarely hits:
    cancel -- anticipated shocks whose values cancel: in the LAST anticipated period across two (or three) different
              shocks (column sum zero), or over time within one shock (row sum zero); nothing about a path of shocks may
              depend on sums of their values;
    split  -- simulate(..., force_split_frames=True): a new frame starts at every unanticipated shock; made non-trivial by an
              unanticipated shock after the first period and an anticipated shock dated after it."""
    nper, ns = sc["nper"], spec["nshocks"]
    val = lambda: rng.choice([0.25, 0.5, 0.75, 1.0, 1.5]) * rng.choice([1, -1])
    if cancel and nper >= 2:
        if ns >= 2 and rng.random() < 0.75:
            tc = rng.randint(max(1, nper // 2), nper - 1)
            sc["v"] = [q for q in sc["v"] if q[1] < tc]
            ss = rng.sample(range(ns), 3 if (ns >= 3 and rng.random() < 0.4) else 2)
            a = val()
            if len(ss) == 2:
                sc["v"] += [[ss[0], tc, a], [ss[1], tc, -a]]
            else:
                b = val()
                sc["v"] += [[ss[0], tc, a], [ss[1], tc, b], [ss[2], tc, -(a + b)]]
        else:
            s0 = rng.randrange(ns)
            t1 = rng.randint(0, nper - 2); t2 = rng.randint(t1 + 1, nper - 1)
            a = val()
            sc["v"] = [q for q in sc["v"] if not (q[0] == s0)] + [[s0, t1, a], [s0, t2, -a]]
    if split:
        sc["split"] = True
        if nper >= 3:
            tu = rng.randint(1, nper - 2)
            if not any(1 <= q[1] <= tu for q in sc["u"]):
                sc["u"].append([rng.randrange(ns), tu, val()])
            tu = min(q[1] for q in sc["u"] if q[1] >= 1)
            if not any(q[1] > tu for q in sc["v"]):
                sc["v"].append([rng.randrange(ns), rng.randint(tu + 1, nper - 1), val()])
    return sc


START = (2021, 1)


def run_scenario(m, spec, sc, deviation=None):
    """Databox.steady -> shocks and initial conditions -> simulate(method='first_order'); returns (in_db, out_db, span)"""
    import irispie as ir
    start = ir.qq(*START)
    span = start >> (start + sc["nper"] - 1)
    dev = sc["deviation"] if deviation is None else deviation
    db = ir.Databox.steady(m, span, deviation=dev)
    for (s, t, val) in sc["u"]:
        db[ename(s)][start + t] = val
    for (s, t, val) in sc["v"]:
        db["ant_" + ename(s)][start + t] = val
    for (s, t, val) in sc["w"]:
        db[wname(s)][start + t] = val
    for (j, back, dv) in sc["init"]:
        p = start - back
        nm = vname(j)
        try:
            base = series_value(db, nm, p)
        except Exception:
            continue
        if base != base:
            continue
        db[nm][p] = base * math.exp(dv) if spec["logs"][j] else base + dv
    opts = {"force_split_frames": True} if sc.get("split") else {}
    out = m.simulate(db, span, method="first_order", deviation=dev, **opts)
    return db, out, span


# ====================================================================== Coq literals

def dy(x: float) -> str:
    """the exact dyadic value of a double as an LQ.dy literal"""
    x = float(x)
    if x != x or math.isinf(x):
        raise ValueError("non-finite value in a matrix")
    if x == 0:
        return "(LQ.dy 0 0)"
    mant, ex = math.frexp(x)
    mi = int(mant * (1 << 53))
    ex -= 53
    while mi % 2 == 0:
        mi //= 2; ex += 1
    return f"(LQ.dy ({mi}) ({ex}))"




def dd(x: float) -> str:
    """the same value as an LD.dy literal (dyadic arithmetic, stage (b))"""
    return "(LD.dy" + dy(x)[6:]


def fparts(a):
    """integer mantissas and k with a == ints / 2**k exactly"""
    a = np.asarray(a, dtype=float)
    if a.ndim == 1:
        a = a.reshape(-1, 1)
    if not np.all(np.isfinite(a)):
        raise ValueError("non-finite value in a matrix")
    k = 0
    for v in a.ravel():
        if v != 0:
            mant, ex = math.frexp(float(v))
            mi = int(mant * (1 << 53)); ex -= 53
            while mi % 2 == 0:
                mi //= 2; ex += 1
            k = max(k, -ex)
    rows = [[int(float(v) * (1 << k)) if abs(v) < 2 ** 900 else int(v) * (1 << k) for v in row] for row in a]
    for row, arow in zip(rows, a):
        for iv, v in zip(row, arow):
            assert iv == float(v) * (2 ** k) or abs(v) >= 2 ** 900
    return rows, k


def _zl(rows) -> str:
    return "[" + "; ".join("[" + "; ".join(f"({v})%Z" for v in r) + "]" for r in rows) + "]"




def raw(a) -> str:
    """(integer mantissas, k): the matrix equals ints / 2^k exactly -- the only matrix literal of the case files"""
    if isinstance(a, (list, tuple)) and len(a) == 0:
        return "([], 0%Z)"
    rows, k = fparts(a)
    return f"({_zl(rows)}, {k}%Z)"



def cq(x: float) -> str:
    """a double as a Coq Q literal"""
    if math.isinf(x) or x > 1e300:
        return f"({SHOCK_BIG} # 1)"
    mant, ex = math.frexp(float(x))
    mi = int(mant * (1 << 53)); ex -= 53
    if mi == 0:
        return "(0 # 1)"
    while mi % 2 == 0:
        mi //= 2; ex += 1
    if ex >= 0:
        return f"({mi * (1 << ex)} # 1)"
    return f"(({mi}) # {1 << (-ex)})"


def ctok(t) -> str:
    return f"({t[0]}%nat, ({t[1]})%Z)"


HEADER = """From Coq Require Import List ZArith QArith Bool.
From Bignums Require Import BigQ BigZ BigN.
From Verif Require Import lib.MxC01 gen.FordGen model.Ford model.FordSteady.
Import ListNotations.
Import Case.
Close Scope Q_scope.
Open Scope nat_scope.
Set Printing Width 1000000.
Set Printing Depth 1000000.
"""


# ====================================================================== one model = one bundle of checks

SOL_NAMES = ["T", "P", "K", "X", "Ua", "Ta", "Pa", "Ka", "Xa", "J", "Ru", "Z", "H", "D", "Za"]


def contract_residuals(rec, nb, nf) -> dict:
    S, T, Q, Z = rec.qz
    sy = rec.system
    out = {"QAZ-S": float(np.abs(Q @ sy.A @ Z - S).max()), "QBZ-T": float(np.abs(Q @ sy.B @ Z - T).max()),
           "S21": float(np.abs(S[nb:, :nb]).max()) if nf and nb else 0.0,
           "T21": float(np.abs(T[nb:, :nb]).max()) if nf and nb else 0.0,
           "QQ'": float(np.abs(Q @ Q.T - np.eye(Q.shape[0])).max()), "ZZ'": float(np.abs(Z @ Z.T - np.eye(Z.shape[0])).max())}
    if rec.schur is not None:
        Ta, u, _ = rec.schur
        out["uu'"] = float(np.abs(u @ u.T - np.eye(u.shape[0])).max())
    return out


def conditioning(rec, nb, nf) -> float:
    S, T, Q, Z = rec.qz
    cs = [np.linalg.cond(S[:nb, :nb]), np.linalg.cond(Z[nf:, :nb])]
    if nf:
        cs += [np.linalg.cond(T[nb:, nb:]), np.linalg.cond(S[nb:, nb:] + T[nb:, nb:])]
    if rec.system.F.size:
        cs.append(np.linalg.cond(rec.system.F))
    return float(max(cs))


class Bundle:
    """everything observed on one solved model, plus the Coq text of its checks"""

    def __init__(self, spec, m, rec):
        self.spec, self.m, self.rec = spec, m, rec
        d, names, logly = model_layout(m)
        self.d, self.names, self.logly = d, names, logly
        self.name_to_qid = {v: k for k, v in names.items()}
        sv = d.system_vectors
        self.nf = d.get_num_forwards(); self.nb = d.get_num_backwards()
        self.ne = len(sv.transition_shocks); self.ny = len(sv.measurement_variables); self.nw = len(sv.measurement_shocks)
        self.sol = m.get_solution()
        self.checks: list[tuple[str, str, object]] = []     # (label, coq term : list nat, decoder info)
        self.defs: list[tuple[str, str]] = []               # shared raw matrices: (suffix, literal)
        self.tag = "m"

    def name(self, suffix, value) -> str:
        """register a raw matrix once per model; the case text defines <tag>_<suffix>"""
        if all(sfx != suffix for sfx, _ in self.defs):
            self.defs.append((suffix, raw(value)))
        return f"{self.tag}_{suffix}"

    def sol_names(self):
        s = self.sol
        return {k: self.name("s" + k, getattr(s, k)) for k in SOL_NAMES}

    # ---- stage (a)
    def add_solution_check(self):
        rec, s = self.rec, self.sol
        S, T, Q, Z = rec.qz
        sy = rec.system
        Ta, u, _ = rec.schur
        nb, nf, ne, ny, nw = self.nb, self.nf, self.ne, self.ny, self.nw
        sn = self.sol_names()
        ins = [("qS", S), ("qT", T), ("qQ", Q), ("qZ", Z), ("yC", sy.C), ("yD", sy.D), ("hTa", Ta), ("hu", u),
               ("yF", sy.F), ("yG", sy.G), ("yH", sy.H), ("yJ", sy.J)]
        args = " ".join(self.name(k, v) for k, v in ins)
        term = f"A.check_solution {nb} {nf} {ne} {ny} {nw} {args} [{'; '.join(sn[k] for k in SOL_NAMES)}]"
        self.checks.append(("solution", term, SOL_NAMES))

    def add_expansion_check(self, forward):
        s = self.sol
        import copy
        exp = copy.deepcopy(s).expand_square_solution(forward)
        sn = self.sol_names()
        term = (f"(if B.check_expansion {self.nb} {self.nf} {self.ne} {sn['P']} {sn['X']} {sn['J']} {sn['Ru']} "
                f"{forward} [{'; '.join(raw(x) for x in exp)}] then [] else [0])")
        self.checks.append(("expansion", term, [f"expand_square_solution({forward})"]))

    # ---- stage (e): the constant vector of a model that is not declared linear, from the steady-state path
    def add_constant_check(self):
        if self.spec["linear"]:
            return False
        m, sv, sy = self.m, self.d.system_vectors, self.rec.system
        lev, chg = dict(m.get_steady_levels()), dict(m.get_steady_changes())
        xi, xil = [], []
        for t in sv.transition_variables:
            nm = self.names[t.qid]
            L, c = float(lev[nm]), chg.get(nm)
            lg = bool(self.logly.get(t.qid))
            c = (1.0 if lg else 0.0) if (c is None or c != c) else float(c)
            if lg:
                L, c = math.log(L), math.log(c)
            xi.append(L + t.shift * c); xil.append(L + (t.shift - 1) * c)
        if not np.all(np.isfinite(xi + xil)):
            return False
        nrow, ncol = sy.A.shape
        term = (f"A.check_constant {nrow} {ncol} {self.name('yA', sy.A)} {self.name('yB', sy.B)} {raw(np.array(xi))} "
                f"{raw(np.array(xil))} {self.name('yC', sy.C)}")
        self.checks.append(("constant", term, ["C = -(A xi + B xi_lagged) on the steady-state path"]))
        return True

    # ---- stage (f): solve_steady_linear_nonflat (models declared linear=True, flat=False): the stacked systems built from
    # the regenerated blocks vanish at what lstsq returned (the contract of the theorems, on this input) and the unsolved
    # transition and measurement equations hold on the path level + t * change
    def add_steady_check(self, horizon=4):
        if not self.rec.steady:
            return False
        sy, (Xi, Y, dXi, dY) = self.rec.steady[-1]
        mats = [sy.A, sy.B, sy.C, sy.F, sy.G, sy.H, Xi, dXi, Y, dY]
        if not all(np.all(np.isfinite(np.asarray(x, dtype=float))) for x in mats):
            return False
        m_, n_ = sy.A.shape
        p_ = sy.F.shape[0]

        def lit(x, rows, cols):
            x = np.asarray(x, dtype=float).reshape(rows, cols)
            if rows == 0 or cols == 0:
                return "([" + "; ".join("[]" for _ in range(rows)) + "], 0%Z)"
            return raw(x)
        args = [lit(sy.A, m_, n_), lit(sy.B, m_, n_), lit(sy.C, m_, 1), lit(sy.F, p_, p_), lit(sy.G, p_, n_), lit(sy.H, p_, 1),
                lit(Xi, n_, 1), lit(dXi, n_, 1), lit(Y, p_, 1), lit(dY, p_, 1)]
        term = f"SteadyCase.check_steady_nonflat {m_} {n_} {p_} {' '.join(args)} {horizon}"
        lab = ["stacked transition row 1", "stacked transition row 2", "stacked measurement row 1", "stacked measurement row 2"]
        for t in range(horizon):
            lab += [f"transition equations on the steady path at t={t + 1}", f"measurement equations on the steady path at t={t}"]
        self.checks.append(("steady_nonflat", term, lab))
        return True

    # ---- stage (c)
    def add_token_check(self):
        spec, d = self.spec, self.d
        q = lambda j: self.name_to_qid[vname(j)]
        actual, meas = own_tokens(spec)
        sv, so = d.system_vectors, d.solution_vectors
        dynA = d.system_map.dynid_A; dynB = d.system_map.dynid_B
        zl = lambda M: "[" + "; ".join("[" + "; ".join(f"({int(v)})%Z" for v in row) + "]" for row in M) + "]"
        bl = lambda l: "[" + "; ".join("true" if b else "false" for b in l) + "]"
        tl = lambda l: "[" + "; ".join(ctok((t.qid, t.shift)) for t in l) + "]"
        term = (f"check_tokens [{'; '.join(ctok((q(j), sh)) for j, sh in actual)}] "
                f"[{'; '.join(ctok((q(j), sh)) for j, sh in meas)}] {tl(sv.transition_variables)} {bl(sv.true_initials)} "
                f"{self.nf} {tl(so.transition_variables)} {bl(so.true_initials)} {zl(dynA)} {zl(dynB)}")
        self.checks.append(("tokens", term, ["system_vector", "true_initials", "num_forwards", "solution_vector",
                                            "solution_true_initials", "dynid_A", "dynid_B"]))

    # ---- stage (d)
    def add_stability_check(self):
        s = self.sol
        mod = [float(np.abs(e)) for e in s.eigenvalues]
        if any(x != x for x in mod):
            return False
        kinds = [{"STABLE": 0, "UNIT_ROOT": 1, "UNSTABLE": 2}[k.name] for k in s.eigenvalues_stability]
        verdict = {"STABLE": 0, "MULTIPLE_STABLE": 1, "NO_STABLE": 2}[s.system_stability.name]
        tolq = "default_eigenvalue_tolerance"
        term = (f"check_stability {tolq} [{'; '.join(cq(x) for x in mod)}]%Q {self.nf} "
                f"[{'; '.join(str(k) for k in kinds)}] {verdict}")
        self.checks.append(("stability", term, ["eigenvalues_stability", "system_stability"]))
        return True

    # ---- stage (b)
    def add_simulation_check(self, sc, db, out, span):
        spec, s = self.spec, self.sol
        so = self.d.solution_vectors
        names, logly = self.names, self.logly
        per = list(span)
        dev = sc["deviation"]

        def val(dbx, t, p):
            v = series_value(dbx, names[t.qid], p)
            return math.log(v) if logly.get(t.qid) else v
        init = []
        for t in so.transition_variables:
            try:
                v = val(db, t, per[0] - 1 + t.shift)
            except Exception:
                v = float("nan")
            init.append(v)
        # a missing initial value may only sit where true_initials is False (those entries are zeroed by the code)
        init = [0.0 if (x != x and not ti) else x for x, ti in zip(init, so.true_initials)]
        us = [[series_value(db, names[t.qid], p) for t in so.transition_shocks] for p in per]
        vs = [[series_value(db, names[t.qid], p) for t in so.anticipated_shock_values] for p in per]
        ws = [[series_value(db, names[t.qid], p) for t in so.measurement_shocks] for p in per]
        exp_xi, exp_y = [], []
        for p in per:
            col = []
            for t in so.transition_variables:
                col.append(dd(val(out, t, p)) if t.shift == 0 else None)
            exp_xi.append(col)
            exp_y.append([dd(val(out, t, p)) for t in so.measurement_variables])
        ol = lambda col: "[" + "; ".join("None" if c is None else f"Some {c}" for c in col) + "]"
        vl = lambda cols: "[" + "; ".join(raw(np.array(c, dtype=float)) for c in cols) + "]"
        sn = self.sol_names()
        bl = lambda l: "[" + "; ".join("true" if b else "false" for b in l) + "]"
        term = (f"B.check_simulation {'true' if sc.get('split') else 'false'} {self.nb} {self.nf} {self.ne} {self.ny} {self.nw} {'true' if dev else 'false'} "
                f"{bl(so.true_initials)} {sn['T']} {sn['P']} {sn['K']} {sn['X']} {sn['J']} {sn['Ru']} "
                f"{sn['Z']} {sn['H']} {sn['D']} {raw(np.array(init))} {vl(us)} {vl(vs)} {vl(ws)} "
                f"[{'; '.join(ol(c) for c in exp_xi)}] [{'; '.join(ol(c) for c in exp_y)}]")
        lab = ["length"] + [f"xi[{i}]" for i in range(len(per))] + [f"y[{i}]" for i in range(len(per))]
        self.checks.append(("simulation", term, {"labels": lab, "scenario": sc}))


def case_text(bundles) -> str:
    lines = [HEADER]
    k = 0
    for bi, b in enumerate(bundles):
        for sfx, lit in b.defs:
            lines.append(f"Definition m{bi}_{sfx} : raw := {lit}.")
        for (_lab, term, _info) in b.checks:
            term = re.sub(r"\bm_(?=[a-zA-Z])", f"m{bi}_", term)
            lines.append(f"Definition c{k} : list nat := {term}.")
            k += 1
    lines.append("Eval vm_compute in [" + "; ".join(f"c{i}" for i in range(k)) + "].")
    return "\n".join(lines) + "\n"


def parse_nested(body: str) -> list[list[int]]:
    body = body.strip()
    if body in ("[]", "nil"):
        return []
    inner = body[1:-1]
    return [[int(x) for x in re.findall(r"\d+", part)] for part in re.findall(r"\[[^\[\]]*\]", inner)]


# ====================================================================== histories of variant operations (exact)

VARIANT_SRC = ("!transition-variables\n  x, y\n!transition-shocks\n  ex, ey\n!parameters\n  a, b, c\n"
               "!transition-equations\n  x = a*x{-1} + ex;\n  y = b*y{+1} + c*x + ey;\n")
VARIANT_NAMES = ["a", "b", "c"]

VHEADER = """From Coq Require Import List ZArith Bool.
From Verif Require Import lib.VarStmt gen.VariantListGen model.VariantList.
Import ListNotations.
Import VCase.
Set Printing Width 1000000.
Set Printing Depth 1000000.
"""


def gen_variant_history(rng) -> list:
    """calls on ONE model object: ["alter", n] = alter_num_variants(n); ["assign", name index, values] = assign(name=values)
    (a list: one value per variant, the last one repeated; a one-element list is passed as a scalar)"""
    val = lambda: rng.randint(1, 999)
    ops = [["assign", k, [val()]] for k in range(len(VARIANT_NAMES))]
    nv = 1
    for _ in range(rng.randint(4, 9)):
        if rng.random() < 0.5:
            n = rng.choice([1, 2, 3, 3, 4, 4, 5, nv + 2, nv + 3])
            ops.append(["alter", n]); nv = n
        else:
            ln = rng.choice([1, nv, nv, nv, max(1, nv - 1), nv + 1])
            ops.append(["assign", rng.randrange(len(VARIANT_NAMES)), [val() for _ in range(ln)]])
    if nv >= 2 and rng.random() < 0.8:
        ops.append(["assign", rng.randrange(len(VARIANT_NAMES)), [val() for _ in range(nv)]])
    return ops


def _identity_pattern(objs) -> list:
    first = {}
    out = []
    for i, o in enumerate(objs):
        first.setdefault(id(o), i)
        out.append(first[id(o)])
    return out


def run_variant_history(ops) -> list:
    """the implementation: after every call (identity pattern of the variants' value arrays, values of a, b, c per variant)"""
    import irispie as ir
    m = ir.Simultaneous.from_string(VARIANT_SRC, linear=True)
    obs = []
    for op in ops:
        if op[0] == "alter":
            m.alter_num_variants(op[1])
        else:
            vals = [float(v) for v in op[2]]
            m.assign(**{VARIANT_NAMES[op[1]]: vals[0] if len(vals) == 1 else vals})
        # two entries alias when they are one Variant object or share one array of values
        pat_obj = _identity_pattern(m._variants)
        pat_lev = _identity_pattern([v.levels for v in m._variants])
        pat = [min(a, b) for a, b in zip(pat_obj, pat_lev)]
        prm = m.get_parameters()
        rows = []
        for k in range(m.num_variants):
            row = []
            for nm in VARIANT_NAMES:
                v = prm[nm]
                v = v[k] if isinstance(v, (list, tuple)) else v
                v = float("nan") if v is None else float(np.asarray(v, dtype=float).ravel()[0])
                # never assigned (None / NaN) is the model's initial 0; assigned values are integers >= 1
                row.append(0 if v != v else (int(v) if float(int(v)) == v else -1))
            rows.append(row)
        obs.append([pat, rows])
    return obs


def variant_case_text(cases) -> str:
    zl = lambda l: "[" + "; ".join(f"({int(v)})%Z" for v in l) + "]"
    nl = lambda l: "[" + "; ".join(str(int(v)) for v in l) + "]"
    lines = [VHEADER]
    for k, (ops, obs) in enumerate(cases):
        o = "; ".join(f"OAlter {op[1]}" if op[0] == "alter" else f"OAssign {op[1]} {zl(op[2])}" for op in ops)
        e = "; ".join(f"({nl(pat)}, [{'; '.join(zl(r) for r in rows)}])" for pat, rows in obs)
        lines.append(f"Definition v{k} : list nat := check_variants {len(VARIANT_NAMES)} [{o}] [{e}].")
    lines.append("Eval vm_compute in [" + "; ".join(f"v{k}" for k in range(len(cases))) + "].")
    return "\n".join(lines) + "\n"


# ====================================================================== property residuals on the implementation

def property_residual(spec, m, sc, out, span, Jc=None, V=None, tol=2e-6, lag_mode="true") -> list[str]:
    """The property itself on the public API: every linearised equation (re-derived from the generated source) holds on
    the simulated databox in every period, with leads read from the model-consistent continuation of the same path
    (a re-simulation from t+1 on with later unanticipated shocks removed).  Returns descriptions of violations."""
    import irispie as ir
    bad = []
    n = spec["n"]

    def sv0(dbx, nm, q):
        try:
            v = series_value(dbx, nm, q)
        except Exception:
            return 0.0
        return 0.0 if v != v else v
    has_nl = any(e["nl"] for e in spec["eqs"])
    if has_nl:
        V = own_steady(spec) if V is None else V
        if V is None:
            return bad
    Jc = own_jacobian(spec, V) if Jc is None else Jc
    per = list(span)
    dev = sc["deviation"]
    lo, hi = _shift_ranges(spec)
    maxlead = max(hi)

    def Vraw(dbx, j, p):
        v = series_value(dbx, vname(j), p)
        return math.log(v) if spec["logs"][j] else v

    def Vval(dbx, j, p):
        # models that are linear in V: the equation itself, constants included, at any (also growing) steady state;
        # models with a product term: the deviation from the steady state the linearisation was taken at
        v = Vraw(dbx, j, p)
        return v if (dev or not has_nl) else v - V[j]
    for ti, p in enumerate(per):
        cont = None
        if maxlead > 0:
            # model-consistent continuation at t: same anticipated shocks, no unanticipated shocks after t
            db2 = out.copy()
            for s in range(spec["nshocks"]):
                for q in per[ti + 1:]:
                    db2[ename(s)][q] = 0.0
                # anticipated shocks beyond the original span do not exist
            cend = max(ti + maxlead, len(per) - 1)
            cspan = (p + 1) >> (per[0] + cend)
            for s in range(spec["nshocks"]):
                for q in cspan:
                    for nm in (ename(s), "ant_" + ename(s)):
                        try:
                            v = series_value(db2, nm, q)
                        except Exception:
                            v = float("nan")
                        if v != v:
                            db2[nm][q] = 0.0
            for k in range(spec["nw"]):
                for q in cspan:
                    try:
                        v = series_value(db2, wname(k), q)
                    except Exception:
                        v = float("nan")
                    if v != v:
                        db2[wname(k)][q] = 0.0
            cont = m.simulate(db2, cspan, method="first_order", deviation=dev)
        for i, e in enumerate(spec["eqs"]):
            r = 0.0
            for (ii, j, sh), c in Jc.items():
                if ii != i:
                    continue
                src = cont if (sh > 0) else out
                r += c * Vval(src, j, p + sh)
            for (s, c) in e["shocks"]:
                r += c * (series_value(out, ename(s), p) + series_value(out, "ant_" + ename(s), p))
            for (s, lag, c) in e.get("lagshocks", []):
                # lag_mode "true": the model's e{-lag}; "mistimed": the lagged token read at the current date
                q = p if lag_mode == "mistimed" else p - lag
                r += c * (sv0(out, ename(s), q) + sv0(out, "ant_" + ename(s), q))
            if not dev and not has_nl:
                r += e["const"]
            if not (abs(r) <= tol):
                bad.append(f"transition equation {i + 1} at period index {ti}: linearised residual {r:.3e}")
        for k, me in enumerate(spec["meas"]):
            # measurement equations are linear in V(x) and in (log) o
            o = series_value(out, oname(k), p)
            o = math.log(o) if me["log"] else o
            rhs = sum(c * Vraw(out, j, p + sh) for (j, sh, c) in me["terms"])
            for (k2, c) in me.get("oterms", []):
                # a reference to ANOTHER measurement variable of the same date (F not diagonal)
                o2 = series_value(out, oname(k2), p)
                rhs += c * (math.log(o2) if spec["meas"][k2]["log"] else o2)
            if not dev:
                rhs += me["const"]
            if me["wshock"] is not None:
                rhs += series_value(out, wname(me["wshock"]), p)
                if me.get("wlag"):
                    q = p if lag_mode == "mistimed" else p - me["wlag"][0]
                    rhs += me["wlag"][1] * sv0(out, wname(me["wshock"]), q)
            r = o - rhs
            if not (abs(r) <= tol * (1 + abs(o))):
                bad.append(f"measurement equation {k + 1} at period index {ti}: residual {r:.3e}")
    return bad


def _span_cells(spec, dbx, span, variant=None):
    names = [vname(j) for j in range(spec["n"])] + [oname(k) for k in range(len(spec["meas"]))] + \
            [ename(s) for s in range(spec["nshocks"])] + ["ant_" + ename(s) for s in range(spec["nshocks"])] + \
            [wname(k) for k in range(spec["nw"])]
    out = {}
    for nm in names:
        a = np.asarray(dbx[nm].get_data(span), dtype=float)
        a = a.reshape(len(list(span)), -1)
        out[nm] = a[:, 0 if variant is None else variant]
    return out


def _cells_differ(a: dict, b: dict, tol) -> list[str]:
    bad = []
    for nm in a:
        x, y = np.nan_to_num(a[nm]), np.nan_to_num(b[nm])
        if x.shape != y.shape or not np.all(np.abs(x - y) <= tol * (1 + np.abs(y))):
            bad.append(f"{nm}: {x.tolist()} != {y.tolist()}")
    return bad


def options_invariance(spec, m, sc, db, out, span) -> list[str]:
    """Output options and frame-by-frame simulation do not change any simulated cell of the span:
    prepend_input=False, remove_initial/remove_terminal=False, force_split_frames toggled."""
    bad = []
    ref = _span_cells(spec, out, span)
    base = {"force_split_frames": True} if sc.get("split") else {}
    for extra in ({"prepend_input": False}, {"remove_initial": False, "remove_terminal": False},
                  {"force_split_frames": not sc.get("split")}):
        opts = dict(base); opts.update(extra)
        try:
            o2 = m.simulate(db, span, method="first_order", deviation=sc["deviation"], **opts)
            d = _cells_differ(_span_cells(spec, o2, span), ref, 1e-9)
        except Exception as e:
            d = [f"raises {type(e).__name__}: {e}"[:200]]
        bad += [f"{extra}: {q}"[:300] for q in d[:2]]
    return bad


def scaled_spec(spec, factor) -> dict:
    """the same model text with every parameter value multiplied by `factor` (rounded to 4 decimals): the model that ONE
    parameter variant stands for"""
    import copy
    sp = copy.deepcopy(spec)
    rr = (lambda c: c) if factor == 1.0 else (lambda c: round(c * factor, 4))
    for e in sp["eqs"]:
        e["terms"] = [[j, sh, rr(c)] for (j, sh, c) in e["terms"]]
        e["nl"] = [[j1, s1, j2, s2, rr(c)] for (j1, s1, j2, s2, c) in e["nl"]]
        if e["const"] != 0.0:
            e["const"] = rr(e["const"])
    for me in sp["meas"]:
        me["terms"] = [[j, sh, rr(c)] for (j, sh, c) in me["terms"]]
        if me.get("oterms"):
            me["oterms"] = [[k2, rr(c)] for (k2, c) in me["oterms"]]
        if me["const"] != 0.0:
            me["const"] = rr(me["const"])
    return sp


VARIANT_MODES = ["alter-then-assign", "assign-alter-assign", "stepwise"]


def draw_variants(rng, spec):
    """(factors, mode) for a model object with 2-4 parameter variants, every variant independently determinate; None when
    not applicable (no parameters, growth, product terms)"""
    src, params = render_source(spec)
    if not params or spec.get("growth") or any(e["nl"] for e in spec["eqs"]):
        return None
    nv = rng.choice([2, 3, 3, 4])
    pool = [0.95, 0.9, 0.85, 1.03, 0.8, 0.97]
    rng.shuffle(pool)
    factors = [1.0]
    for f in pool:
        if len(factors) == nv:
            break
        sp = scaled_spec(spec, f)
        if render_source(sp)[0] != src:
            continue
        with np.errstate(all="ignore"):
            acc = _accept(sp)
        if acc is None or acc[3] != acc[2] or acc[4] <= 0.03:
            continue
        factors.append(f)
    if len(factors) < 2:
        return None
    return factors, rng.choice(VARIANT_MODES)


def variants_case(spec, sc, factors, mode) -> list | None:
    """ONE model object with len(factors) parameter variants (variant k = the model text at scaled_spec(spec, factors[k])),
    created by alter_num_variants in one of three ways.  For every variant k, against the parameters assigned to THAT variant:
    the unstable-root count / verdict, every model equation on the simulated path of m.get_variant(k) (deviations from
    perturbed initial conditions, and levels), and the column k of the simulation of the whole object against the singleton
    model with the same parameters.  Returns Failures (keys variants:*), [] when all hold, None when not applicable."""
    import irispie as ir
    src, params = render_source(spec)
    nv = len(factors)
    specs = [scaled_spec(spec, f) for f in factors]
    pvs = []
    for sp in specs:
        s_k, p_k = render_source(sp)
        if s_k != src or set(p_k) != set(params):
            return None
        pvs.append(p_k)
    accs = []
    for sp in specs:
        with np.errstate(all="ignore"):
            acc = _accept(sp)
        if acc is None or acc[3] != acc[2] or acc[4] <= 0.03:
            return None
        accs.append(acc)
    lists = {k: [pv[k] for pv in pvs] for k in params}

    def finish(mm):
        with contextlib.redirect_stdout(io.StringIO()):
            mm.steady()
        mm.solve()
        return mm
    try:
        m = ir.Simultaneous.from_string(src, linear=spec["linear"], flat=spec["flat"])
        if mode == "alter-then-assign":
            m.alter_num_variants(nv)
        elif mode == "assign-alter-assign":
            m.assign(**pvs[0]); m.alter_num_variants(nv)
        else:
            m.assign(**pvs[0])
            if nv > 2:
                m.alter_num_variants(2)
            m.alter_num_variants(nv)
        m.assign(**lists)
        finish(m)
        singles = []
        for k in range(nv):
            mk = ir.Simultaneous.from_string(src, linear=spec["linear"], flat=spec["flat"])
            mk.assign(**pvs[k])
            singles.append(finish(mk))
    except Exception:
        return None
    if any(q.get_solution().system_stability.name != "STABLE" for q in singles):
        return None                      # the reference models themselves: left to the singleton checks
    where = {"spec": spec, "scenario": sc, "variants": {"factors": factors, "mode": mode, "parameters": lists}, "source": src}
    repro = ("harness.C01.variants_case(spec, scenario, variants['factors'], variants['mode']): m = Simultaneous.from_string(source); "
             "alter_num_variants / assign(**parameters) as `mode` says; steady(); solve(); variant k is checked against "
             "parameters[.][k]")
    fails = []

    def add(key, what, obs, req):
        if all(f.key != key for f in fails):
            fails.append(Failure(key, what, where, obs, req, repro))
    sols = m.get_solution()
    sols = sols if isinstance(sols, list) else [sols]
    if len(sols) != nv or m.num_variants != nv:
        add("variants:count", "alter_num_variants(n) does not give n variants", {"num_variants": m.num_variants}, nv)
        return fails
    for k in range(nv):
        nf = accs[k][2]
        kinds = [q.name for q in sols[k].eigenvalues_stability]
        if sols[k].system_stability.name != "STABLE" or kinds.count("UNSTABLE") != nf:
            add("variants:verdict", f"variant {k} of {nv} is independently determinate at ITS parameters but is not reported "
                "STABLE / its unstable-root count differs from the number of forward-looking variables",
                {"variant": k, "system_stability": sols[k].system_stability.name, "reported_unstable": kinds.count("UNSTABLE")},
                {"independent_unstable": accs[k][3], "forward_looking": nf})
    if fails:
        return fails
    for scv in (dict(sc, deviation=True), dict(sc, deviation=False, init=[])):
        scv.pop("split", None)
        try:
            _db, out_all, span = run_scenario(m, spec, scv)
        except Exception as e:
            add("variants:simulate-raises", f"simulate of a model with {nv} variants raises {type(e).__name__}: {e}"[:200], None, None)
            return fails
        for k in range(nv):
            mk = m.get_variant(k)
            _d, outk, _s = run_scenario(mk, specs[k], scv)
            vals = [series_value(outk, vname(j), p) for j in range(spec["n"]) for p in span]
            if not all(np.isfinite(vals)):
                add("variants:path-non-finite", f"simulated path of variant {k} of {nv} contains non-finite values",
                    {"variant": k, "deviation": scv["deviation"]}, None)
                continue
            bad = property_residual(specs[k], mk, scv, outk, span, accs[k][1], accs[k][0])
            if bad:
                add("variants:equations-residual", f"a model equation, at the parameter values assigned to variant {k} of {nv}, "
                    "does not hold on the simulated path of that variant (leads from the model-consistent continuation)",
                    {"variant": k, "deviation": scv["deviation"], "residuals": bad[:4]}, "|residual| <= 2e-6")
            _d, outs, _s = run_scenario(singles[k], specs[k], scv)
            d = _cells_differ(_span_cells(spec, out_all, span, variant=k), _span_cells(spec, outs, span), 1e-9)
            if d:
                add("variants:differs-from-singleton", f"variant {k} of a {nv}-variant model does not simulate like the "
                    "singleton model with the same parameters", {"variant": k, "deviation": scv["deviation"], "cells": d[:3]},
                    "identical cells within 1e-9")
    return fails


def level_vs_deviation(spec, m, sc, tol=1e-7) -> list[str]:
    """a level simulation equals the steady state plus the deviation simulation of the same shocks"""
    bad = []
    V = None
    dbL, outL, span = run_scenario(m, spec, sc, deviation=False)
    dbD, outD, _ = run_scenario(m, spec, sc, deviation=True)
    import irispie as ir
    st = ir.Databox.steady(m, span, deviation=False)
    names = [vname(j) for j in range(spec["n"])] + [oname(k) for k in range(len(spec["meas"]))]
    islog = list(spec["logs"]) + [mm["log"] for mm in spec["meas"]]
    for nm, lg in zip(names, islog):
        for ti, p in enumerate(span):
            L = series_value(outL, nm, p); D = series_value(outD, nm, p); S = series_value(st, nm, p)
            want = S * D if lg else S + D
            if not (abs(L - want) <= tol * (1 + abs(want))):
                bad.append(f"{nm} at period index {ti}: level {L!r} != steady (+/*) deviation {want!r}")
    return bad


# ====================================================================== correspondence

def _accept(spec):
    """independent determinacy classification of a generated model: (V, Jc, nf, n_unstable, distance from the unit circle)"""
    if spec.get("growth"):
        Jc = own_jacobian(spec, None)
        nf, nun, dist = own_root_count(spec, Jc)
        return None, Jc, nf, nun, dist
    with np.errstate(all="ignore"):
        V = own_steady(spec)
    if V is None:
        return None
    if any(spec["logs"]) and np.abs(V).max() > 20:
        return None
    Jc = own_jacobian(spec, V)
    nf, nun, dist = own_root_count(spec, Jc)
    return V, Jc, nf, nun, dist


def steady_residual(spec, V):
    n = spec["n"]
    x = np.where(spec["logs"], np.exp(V), V)
    r = np.zeros(n)
    for i, e in enumerate(spec["eqs"]):
        r[i] = -V[i] + e["const"] + sum(c * V[j] for (j, _sh, c) in e["terms"]) + \
            sum(c * x[j1] * x[j2] for (j1, _s1, j2, _s2, c) in e["nl"])
    return r


def accept_at_model_steady(spec, m, acc):
    """A model with product terms can have several steady states; the implementation linearises around the one ITS steady
    solver found.  Re-derive the independent linearisation there (after checking, with the equations evaluated from the
    generated coefficients, that it is a steady state).  Models without product terms have a unique steady state."""
    if not any(e["nl"] for e in spec["eqs"]):
        return acc
    try:
        lev = m.get_steady_levels()
        x = np.array([float(lev[vname(j)]) for j in range(spec["n"])])
    except Exception:
        return None
    with np.errstate(all="ignore"):
        V = np.where(spec["logs"], np.log(x), x)
        if not np.all(np.isfinite(V)) or np.abs(steady_residual(spec, V)).max() > 1e-8:
            return None
        Jc = own_jacobian(spec, V)
        nf, nun, dist = own_root_count(spec, Jc)
    return V, Jc, nf, nun, dist


def gen_determinate(rng, max_states, growth_share=0.4, linear_growth=None):
    """linear_growth: None = a balanced-growth model of a log-free base is declared linear=True, flat=False (steady state
    computed by solve_steady_linear_nonflat) with probability 1/2; True = only such models, with a measurement block"""
    for _ in range(2000 if linear_growth else 400):
        spec = gen_spec(rng, max_states)
        if linear_growth and not linear_eligible(spec):
            continue
        acc = _accept(spec)
        if acc is None:
            continue
        V, Jc, nf, nun, dist = acc
        if not (nun == nf and dist > 0.03):
            continue
        if (linear_growth or rng.random() < growth_share) and not any(e["nl"] for e in spec["eqs"]):
            if linear_growth:
                ensure_measurement(rng, spec)
            g = add_growth(rng, spec, V)
            if linear_eligible(spec) and (linear_growth or rng.random() < 0.5):
                make_linear_growth(g)
            lo, hi = _shift_ranges(g)
            gacc = _accept(g)
            if sum(hi[j] - lo[j] for j in range(g["n"])) <= max_states + 2 and gacc is not None \
                    and gacc[3] == gacc[2] and gacc[4] > 0.03:
                return g, gacc
            continue
        return spec, acc
    raise RuntimeError("generator: no determinate model found")


def correspondence(ctx) -> CorrResult:
    import time as _time
    t_start = _time.time()
    rng = ctx.rng
    res = CorrResult()
    n_models = ctx.scale(120, 2000)
    n_scen = 3
    per_shard = ctx.scale(15, 25)
    max_states = ctx.scale(8, 10)
    dist = {"models": 0, "states": {}, "forwards": {}, "log_models": 0, "nonlinear_models": 0, "linear_flag": 0,
            "measurement": 0, "skipped": {}, "scenarios": 0, "deviation": 0, "anticipated": 0, "unanticipated": 0,
            "max_contract_residual": 0.0, "max_condition": 0.0}
    bundles = []
    samples = []
    tries = 0
    while len(bundles) < n_models and tries < 4 * n_models:
        tries += 1
        spec, acc = gen_determinate(rng, max_states)
        try:
            m, rec = build_model(spec)
        except Exception as e:      # steady state or solver refuses the model: not a correspondence case
            k = type(e).__name__
            dist["skipped"][k] = dist["skipped"].get(k, 0) + 1
            continue
        acc = accept_at_model_steady(spec, m, acc)
        if acc is None or acc[3] != acc[2] or acc[4] <= 0.03:
            dist["skipped"]["other-steady-state"] = dist["skipped"].get("other-steady-state", 0) + 1
            continue
        b = Bundle(spec, m, rec)
        if b.nb == 0 or rec.schur is None or rec.qz is None:
            dist["skipped"]["degenerate"] = dist["skipped"].get("degenerate", 0) + 1
            continue
        cr = contract_residuals(rec, b.nb, b.nf)
        worst = max(cr.values())
        cond = conditioning(rec, b.nb, b.nf)
        if worst > 1e-9:
            res.disagreements.append(Disagreement("oracle contract", {"spec": spec}, "contract residual <= 1e-9", cr))
            continue
        if cond > 1e6:
            dist["skipped"]["ill-conditioned"] = dist["skipped"].get("ill-conditioned", 0) + 1
            continue
        dist["max_contract_residual"] = max(dist["max_contract_residual"], worst)
        dist["max_condition"] = max(dist["max_condition"], cond)
        b.add_solution_check()
        dist["constant_checks"] = dist.get("constant_checks", 0) + int(b.add_constant_check())
        dist["steady_nonflat_checks"] = dist.get("steady_nonflat_checks", 0) + int(b.add_steady_check())
        dist["linear_growth_models"] = dist.get("linear_growth_models", 0) + int(bool(spec.get("steady_solved")))
        b.add_token_check()
        if not b.add_stability_check():
            dist["skipped"]["nan-eigenvalue"] = dist["skipped"].get("nan-eigenvalue", 0) + 1
        b.add_expansion_check(rng.randint(1, 4))
        b.scen = []
        for _k in range(n_scen):
            sc = gen_scenario(rng, spec)
            try:
                db, out, span = run_scenario(m, spec, sc)
            except Exception as e:
                res.disagreements.append(Disagreement("simulate raises", {"spec": spec, "scenario": sc},
                                                      "a simulated databox", f"{type(e).__name__}: {e}"[:300]))
                continue
            try:
                b.add_simulation_check(sc, db, out, span)
            except ValueError:       # a non-finite cell: left to the falsifier (path:non-finite)
                dist["skipped"]["non-finite-cell"] = dist["skipped"].get("non-finite-cell", 0) + 1
                continue
            b.scen.append((sc, db, out, span))
            dist["scenarios"] += 1
            dist["deviation"] += int(sc["deviation"]); dist["anticipated"] += int(bool(sc["v"]))
            dist["unanticipated"] += int(bool(sc["u"]))
            dist["split_frames"] = dist.get("split_frames", 0) + int(bool(sc.get("split")))
        bundles.append(b)
        dist["models"] += 1
        ns = b.nb + b.nf
        dist["states"][str(ns)] = dist["states"].get(str(ns), 0) + 1
        dist["forwards"][str(b.nf)] = dist["forwards"].get(str(b.nf), 0) + 1
        dist["log_models"] += int(any(spec["logs"])); dist["linear_flag"] += int(spec["linear"])
        dist["growth_models"] = dist.get("growth_models", 0) + int(bool(spec.get("growth")))
        dist["nonlinear_models"] += int(any(e["nl"] for e in spec["eqs"])); dist["measurement"] += int(bool(spec["meas"]))
        Qm = meas_cross_matrix(spec["meas"])
        dist["cross_measurement_models"] = dist.get("cross_measurement_models", 0) + int(bool(Qm.any()))
        dist["nontriangular_F_models"] = dist.get("nontriangular_F_models", 0) + int(bool(np.triu(Qm, 1).any() and np.tril(Qm, -1).any()))
        if len(samples) < 3:
            samples.append({"source": render_source(spec)[0], "system_vector": [(t.qid, t.shift) for t in
                            b.d.system_vectors.transition_variables], "eigenvalues": [str(e) for e in b.sol.eigenvalues]})
    # histories of alter_num_variants / assign on one model object against model/VariantList.v (exact)
    vcases = []
    for _ in range(ctx.scale(60, 1500)):
        ops = gen_variant_history(rng)
        try:
            vcases.append((ops, run_variant_history(ops)))
        except Exception as e:
            res.disagreements.append(Disagreement("variant history raises", {"variant_ops": ops}, "observations after every call",
                                                  f"{type(e).__name__}: {e}"[:300]))
    dist["variant_histories"] = len(vcases)
    dist["variant_history_calls"] = sum(len(o) for o, _ in vcases)
    dist["variant_history_max_variants"] = max([len(ob[0]) for _, obs_ in vcases for ob in obs_] or [0])
    t_impl = _time.time() - t_start
    shards = [bundles[i:i + per_shard] for i in range(0, len(bundles), per_shard)]
    texts = [case_text(bs) for bs in shards]
    vshards = [vcases[i:i + 500] for i in range(0, len(vcases), 500)]
    texts += [variant_case_text(vs) for vs in vshards]
    t1 = _time.time()
    results = core.run_cases(ctx, texts, timeout=ctx.scale(900, 2400))
    vresults = results[len(shards):]
    results = results[:len(shards)]
    dist["seconds_implementation_side"] = round(t_impl, 1)
    dist["seconds_coq_side"] = round(_time.time() - t1, 1)
    res.shards = len(texts)
    evals = 0
    for k, (ok, outp) in enumerate(results):
        bs = shards[k]
        if not ok:
            res.disagreements.append(Disagreement(f"cases shard {k} does not evaluate", None, outp[-800:], None))
            continue
        bodies = core.parse_eval_lists(outp)
        flat = [(b, c) for b in bs for c in b.checks]
        if len(bodies) != 1:
            res.disagreements.append(Disagreement(f"cases shard {k}: unparsable output", None, outp[-600:], None))
            continue
        got = parse_nested(bodies[0]) if bodies[0].strip() not in ("[]",) else []
        if len(got) != len(flat):
            res.disagreements.append(Disagreement(f"cases shard {k}: {len(got)} results for {len(flat)} checks", None,
                                                  bodies[0][:400], None))
            continue
        for (b, (lab, _term, info)), failing in zip(flat, got):
            evals += 1
            if not failing:
                continue
            d = _confirm(b, lab, info, failing)
            if d is not None:
                res.disagreements.append(d)
    for k, (ok, outp) in enumerate(vresults):
        vs = vshards[k]
        bodies = core.parse_eval_lists(outp) if ok else []
        got = None
        if ok and len(bodies) == 1:
            got = parse_nested(bodies[0]) if bodies[0].strip() not in ("[]",) else []
        if got is None or len(got) != len(vs):
            res.disagreements.append(Disagreement(f"variant-history shard {k} does not evaluate", None, outp[-800:], None))
            continue
        for (ops, obs), failing in zip(vs, got):
            evals += len(ops)
            if failing:
                i = failing[0]
                res.disagreements.append(Disagreement(
                    f"variant history: after call {i} ({ops[i] if i < len(ops) else '?'})", {"variant_ops": ops},
                    "model/VariantList.v: identity pattern and per-variant values differ", obs[i] if i < len(obs) else None))
    res.evaluations = evals
    res.distinct_nontrivial = dist["scenarios"] + 3 * dist["models"] + dist["variant_history_calls"]
    res.distribution = dist
    res.samples = samples
    res.rule = ("one generated determinate model (1-4 variables, lags/leads <= 3, log-variables, constants, measurement block with 0-3 "
                "measurement variables, which in 70% of the models with >= 2 of them refer to OTHER measurement variables so that F is "
                "neither diagonal nor symmetric, "
                "optionally a product term) -> Simultaneous.from_string/assign/steady/solve with QZ and Schur recorded; checks per "
                "model: 15 solution matrices, the constant vector C of models not declared linear (from the steady-state path, also "
                "a growing one: 40% of the draws are balanced-growth versions with a stochastic trend), forward expansion, token vectors + dynamic identities (exact), eigenvalue "
                "classification, and 3 simulations (random dated unanticipated/anticipated/measurement shocks, initial "
                "conditions, deviation in {True,False}) compared cell by cell with the exact-rational model; for models declared "
                "linear=True, flat=False (half of the balanced-growth models of a log-free base: growing steady state COMPUTED by "
                "steady()) the recorded input and output of solve_steady_linear_nonflat against the stacked systems of "
                "model/FordSteady.v and the equations on level + t * change, t = 0..4; plus histories of 7-13 alter_num_variants / "
                "assign calls on one model object (1-8 variants, lists shorter / longer than the number of variants) against "
                "model/VariantList.v after every call: identity pattern of the variants and their value arrays, values per variant (exact); "
                "non-trivial = every scenario and every model-level check; distinct = distinct generated inputs")
    ctx.log(f"correspondence: {dist['models']} models, {dist['scenarios']} simulations, {evals} checks, "
            f"{len(res.disagreements)} disagreement(s)")
    # keep what the falsifier can reuse
    ctx.c01_bundles = bundles
    return res


def _confirm(b: Bundle, lab: str, info, failing: list[int]):
    """a tolerance disagreement is confirmed by re-checking the property residual on the implementation"""
    spec = b.spec
    src = render_source(spec)[0]
    if lab == "simulation":
        sc = info["scenario"]
        which = [info["labels"][i] for i in failing if i < len(info["labels"])]
        seq = [q[0] for q in getattr(b, "scen", [])]
        return Disagreement("simulation cells", {"spec": spec, "scenario": sc, "scenarios": seq, "source": src},
                            "cells differ from the rational model: " + ", ".join(which[:6]), None)
    names = info if isinstance(info, list) else []
    which = [names[i] for i in failing if i < len(names)]
    return Disagreement(f"{lab}: " + ", ".join(which[:8]), {"spec": spec, "source": src}, "differs from the rational model", None)


# ====================================================================== falsifier

def measurement_lead_case(prm: dict):
    """A measurement equation that reads a LEAD of a transition variable:  o = c*x{+lead} + d  with  x = a*x{-1} + k + e.
    Closed form of the model-consistent continuation: E_t x[t+j] = xbar + a^j (x[t] - xbar).  Returns None when the model is
    rejected or the equation holds, else a Failure."""
    import irispie as ir
    a, k, c, d, lead, shock = (prm[q] for q in ("a", "k", "c", "d", "lead", "shock"))
    src = ("!transition-variables\n  x\n!transition-shocks\n  e\n!measurement-variables\n  o\n"
           f"!transition-equations\n  x = {_num(a)}*x{{-1}} + {_num(k)} + e;\n"
           f"!measurement-equations\n  o = {_num(c)}*x{{+{lead}}} + {_num(d)};\n")
    try:
        m = ir.Simultaneous.from_string(src, linear=True)
        with contextlib.redirect_stdout(io.StringIO()):
            m.steady()
        m.solve()
    except Exception:
        return None                     # the model is refused: nothing is simulated
    if m.get_solution().system_stability.name != "STABLE":
        return None
    start = ir.qq(*START)
    span = start >> (start + 3)
    db = ir.Databox.steady(m, span)
    db["e"][start] = shock
    try:
        out = m.simulate(db, span, method="first_order")
    except Exception:
        return None
    xbar = k / (1 - a)
    bad = []
    for ti, p in enumerate(span):
        x = series_value(out, "x", p)
        want = c * (xbar + a ** lead * (x - xbar)) + d
        got = series_value(out, "o", p)
        if not (abs(got - want) <= 1e-8 * (1 + abs(want))):
            bad.append({"period_index": ti, "o": got, "required": want})
    if not bad:
        return None
    return Failure("measurement:lead-dropped",
                   "a measurement equation containing a lead of a transition variable is accepted, the model is reported STABLE, "
                   "but the simulated measurement variable ignores the lead (system.G[:, num_forwards:] drops the column)",
                   {"source": src, "params": prm, "shock": {"e": shock, "period_index": 0}}, bad[:4],
                   "o[t] = c*E_t x[t+lead] + d on the model-consistent continuation",
                   "irispie.Simultaneous.from_string(source, linear=True); steady(); solve(); simulate(Databox.steady(m, span) with "
                   "e[start]=shock, span, method='first_order')")


LAGGED_WITNESS = {   # x = 1 + 0.5*x{-1} + e1 + 0.5*e1{-2}, linear, unit e1 in the first period
    "spec": {"n": 1, "logs": [False], "eqs": [{"terms": [[0, -1, 0.5]], "const": 1.0, "shocks": [[0, 1.0]], "nl": [],
                                             "lagshocks": [[0, 2, 0.5]]}],
             "meas": [], "nshocks": 1, "nw": 0, "linear": True, "flat": True, "literal": True},
    "scenario": {"nper": 5, "deviation": False, "u": [[0, 0, 1.0]], "v": [], "w": [], "init": []},
}


def add_lagged_shocks(rng, spec) -> dict:
    """the same model with lagged shock terms c*e{-k}, k = 1..3, in one or two transition equations and (when there is a
    measurement shock) a lagged measurement shock"""
    import copy
    sp = copy.deepcopy(spec)
    for i in rng.sample(range(sp["n"]), min(sp["n"], rng.choice([1, 1, 2]))):
        sp["eqs"][i]["lagshocks"] = [[rng.randrange(sp["nshocks"]), rng.randint(1, 3), rng.choice([0.25, 0.5, -0.5, 0.75])]]
    for me in sp["meas"]:
        if me["wshock"] is not None and rng.random() < 0.6:
            me["wlag"] = [rng.randint(1, 2), rng.choice([0.5, -0.5, 0.25])]
    return sp


def lagged_shock_case(spec, sc):
    """One model with lagged shocks.  The known defect (key exactly `equations:lagged-shock`): the equations fail on the
    simulated path, but hold once every lagged shock token is read at the CURRENT date -- i.e. the simulator applies
    e{-k} in the shock period.  Anything else that goes wrong on such a model keeps its own key."""
    acc = _accept(spec)
    if acc is None:
        return []
    m, _rec = build_model(spec)
    acc = accept_at_model_steady(spec, m, acc)
    if acc is None or m.get_solution().system_stability.name != "STABLE":
        return []
    V, Jc = acc[0], acc[1]
    src = render_source(spec)[0]
    where = {"spec": spec, "scenario": sc, "source": src}
    repro = ("harness.C01: m, _ = build_model(spec); db, out, span = run_scenario(m, spec, scenario); "
             "property_residual(spec, m, scenario, out, span)")
    fails = []
    db, out, span = run_scenario(m, spec, sc)
    vals = [series_value(out, vname(j), p) for j in range(spec["n"]) for p in span]
    if not all(np.isfinite(vals)):
        return [Failure("path:non-finite", "simulated path of a model with lagged shocks contains non-finite values", where,
                        None, None, repro)]
    bad_true = property_residual(spec, m, sc, out, span, Jc, V, lag_mode="true")
    bad_mis = property_residual(spec, m, sc, out, span, Jc, V, lag_mode="mistimed")
    if bad_mis and bad_true:
        fails.append(Failure("equations:residual", "a linearised equation of a model with lagged shocks does not hold on the simulated "
                             "path, and not only because lagged shocks are applied in the shock period (it fails as well with the "
                             "lagged shock tokens read at the current date)", where, bad_mis[:5], "|residual| <= 2e-6", repro))
    elif bad_true:
        fails.append(Failure("equations:lagged-shock", "first-order simulation mistimes lagged shocks: a term c*e{-k} acts in the period "
                             "of the shock instead of k periods later (the equations hold only when the lagged shock tokens are read at "
                             "the current date)", where, bad_true[:5], "|residual| <= 2e-6 with e{-k} read k periods earlier", repro))
    bad = level_vs_deviation(spec, m, sc)
    if bad:
        fails.append(Failure("level-vs-deviation", "level simulation differs from steady state plus deviation simulation (model with "
                             "lagged shocks)", where, bad[:5], "equal within 1e-7", repro))
    return fails


def linear_growth_case(rng, spec, acc, scen=None) -> list:
    """one linear, non-flat model with a growing steady state: equations on the level path, level = steady + deviation"""
    try:
        m, _rec = build_model(spec)
    except Exception:
        return []
    if m.get_solution().system_stability.name != "STABLE":
        return []
    V, Jc = acc[0], acc[1]
    src = render_source(spec)[0]
    scen = scen or [gen_scenario(rng, spec, nper=rng.randint(4, 8))]
    fails = []
    repro = ("harness.C01: m, _ = build_model(spec)  [from_string(source, linear=True, flat=False); assign; steady(); solve()]; "
             "level_vs_deviation(spec, m, scenario); run_scenario + property_residual")
    for sc in scen:
        sc.pop("split", None)
        where = {"spec": spec, "scenario": sc, "scenarios": scen, "source": src,
                 "steady_changes": {k: float(np.asarray(v).ravel()[0]) for k, v in dict(m.get_steady_changes()).items()
                                    if np.asarray(v).size and np.isfinite(np.asarray(v, dtype=float).ravel()[0])}}
        try:
            bad = level_vs_deviation(spec, m, sc)
        except Exception as e:
            fails.append(Failure("simulate:raises", f"simulate raises {type(e).__name__}: {e}"[:200], where)); break
        if bad:
            fails.append(Failure("level-vs-deviation", "level simulation differs from steady state plus deviation simulation "
                                 "(model declared linear=True, flat=False; growing steady state computed by steady())",
                                 where, bad[:5], "equal within 1e-7", repro))
        _db, out, span = run_scenario(m, spec, dict(sc, deviation=False))
        bad = property_residual(spec, m, dict(sc, deviation=False), out, span, Jc, V)
        if bad:
            fails.append(Failure("equations:residual", "a model equation does not hold on the simulated level path of a linear "
                                 "non-flat model with a growing steady state", where, bad[:5], "|residual| <= 2e-6", repro))
        if fails:
            break
    return fails


def falsify(ctx, hints):
    rng = ctx.rng
    fails: list[Failure] = []
    info = {"models": 0, "equation_residual_checks": 0, "level_vs_deviation_checks": 0, "verdict_checks": 0,
            "indeterminate_or_unstable_models": 0, "skipped": 0}

    def add(key, what, inp, obs=None, req=None):
        if all(f.key != key for f in fails):
            fails.append(Failure(key, what, inp, obs, req,
                                 "harness.C01: m, _ = build_model(spec); for sc in scenarios (in order, same m): run_scenario(m, spec, sc); "
                                 "property_residual(spec, m, sc, out, span); level_vs_deviation(spec, m, sc)"))
    # 1. inputs on which the correspondence disagreed come first
    todo = []
    for d in hints.get("disagreements", []):
        inp = d.get("input") or {}
        if isinstance(inp, dict) and "spec" in inp:
            seq = inp.get("scenarios") or ([inp["scenario"]] if inp.get("scenario") else None)
            todo.append((inp["spec"], seq))
    n = ctx.scale(24, 500)
    n_cross = ctx.scale(6, 100)
    for i_gen in range(n + n_cross):
        spec, _acc = gen_determinate(rng, ctx.scale(8, 12))
        if i_gen >= n:
            # measurement equations that refer to OTHER measurement variables: F neither diagonal nor symmetric
            force_cross_measurement(rng, spec)
            info["cross_measurement_models_forced"] = info.get("cross_measurement_models_forced", 0) + 1
        todo.append((spec, None))
    for spec, sc0 in todo:
        acc = _accept(spec)
        if acc is None:
            info["skipped"] += 1
            continue
        V, Jc, nf, nun, dist = acc
        try:
            m, rec = build_model(spec)
        except Exception as e:
            info["skipped"] += 1
            continue
        acc = accept_at_model_steady(spec, m, acc)
        if acc is None:
            info["skipped"] += 1
            continue
        V, Jc, nf, nun, dist = acc
        info["models"] += 1
        src = render_source(spec)[0]
        s = m.get_solution()
        # verdict and counts against the independent eigenvalue computation
        kinds = [k.name for k in s.eigenvalues_stability]
        nun_rep = kinds.count("UNSTABLE")
        nf_rep = m._invariant.dynamic_descriptor.get_num_forwards()
        info["verdict_checks"] += 1
        determinate = (nun == nf) and dist > 1e-6
        if determinate and (s.system_stability.name != "STABLE" or nun_rep != nf):
            add("verdict:determinate-not-stable", "an independently determinate model is not reported STABLE / unstable-root "
                "count differs from the number of forward-looking variables", {"spec": spec, "source": src},
                {"system_stability": s.system_stability.name, "reported_unstable": nun_rep, "num_forwards": nf_rep},
                {"independent_unstable": nun, "forward_looking": nf})
            continue
        if nf_rep != nf:
            add("verdict:num-forwards", "number of forward-looking variables differs from the model source",
                {"spec": spec, "source": src}, nf_rep, nf)
        if sc0:
            scen = list(sc0)
        else:
            # successive simulations on the SAME solved model object, the anticipation horizon growing from run to run
            # (the forward expansion is cached on the solution and extended on demand)
            nper = rng.randint(4, 7)
            sc1 = gen_scenario(rng, spec, nper=nper)
            sc1["v"] = [q for q in sc1["v"] if q[1] <= 1] or [[rng.randrange(spec["nshocks"]), 1, _r(rng, 0.3, 1.0, 3)]]
            sc2 = gen_scenario(rng, spec, nper=nper)
            if not any(q[1] == nper - 1 for q in sc2["v"]):
                sc2["v"].append([rng.randrange(spec["nshocks"]), nper - 1, _r(rng, 0.3, 1.0, 3)])
            # third run: cancelling anticipated shocks and / or frame-by-frame simulation (force_split_frames=True)
            sc3 = gen_scenario(rng, spec, nper=nper)
            shape_scenario(rng, spec, sc3, split=not sc3.get("split") and rng.random() < 0.6, cancel=rng.random() < 0.6)
            scen = [sc1, sc2, sc3]
        for k_run, sc in enumerate(scen):
            where = {"spec": spec, "scenario": sc, "scenarios": scen, "failing_run": k_run, "source": src}
            try:
                db, out, span = run_scenario(m, spec, sc)
            except Exception as e:
                add("simulate:raises", f"simulate raises {type(e).__name__}: {e}"[:200], where)
                continue
            vals = [series_value(out, vname(j), p) for j in range(spec["n"]) for p in span]
            if not all(np.isfinite(vals)):
                add("path:non-finite", "simulated path contains non-finite values", where)
                continue
            bad = property_residual(spec, m, sc, out, span, Jc, V)
            info["equation_residual_checks"] += len(list(span)) * (spec["n"] + len(spec["meas"]))
            if bad:
                add("equations:residual", "a linearised model equation does not hold on the simulated path (leads from the "
                    f"model-consistent continuation); simulation number {k_run + 1} on the same solved model object",
                    where, bad[:5], "|residual| <= 2e-6")
            bad = level_vs_deviation(spec, m, sc)
            info["level_vs_deviation_checks"] += 1
            if bad:
                add("level-vs-deviation", "level simulation differs from steady state plus deviation simulation",
                    where, bad[:5], "equal within 1e-7")
            if k_run == len(scen) - 1:
                bad = options_invariance(spec, m, sc, db, out, span)
                info["option_invariance_checks"] = info.get("option_invariance_checks", 0) + 1
                if bad:
                    add("options:span-cells-differ", "an output option / frame-by-frame simulation changes simulated cells of the "
                        "span (prepend_input, remove_initial, remove_terminal, force_split_frames)", where, bad[:4],
                        "identical cells within 1e-9")
                # one object with 2-4 parameter variants, every variant against ITS parameters
                dv = draw_variants(rng, spec)
                if dv is not None:
                    fl = variants_case(spec, sc, dv[0], dv[1])
                    if fl is not None:
                        info["variant_checks"] = info.get("variant_checks", 0) + 1
                        info["variants_checked"] = info.get("variants_checked", 0) + len(dv[0])
                        for f in fl:
                            if all(x.key != f.key for x in fails):
                                fails.append(f)
        if len(fails) >= 6:
            break
    # 2. models an independent computation classifies as NOT determinate must not be reported STABLE
    m_bad = ctx.scale(16, 300)
    tries = 0
    while info["indeterminate_or_unstable_models"] < m_bad and tries < 40 * m_bad:
        tries += 1
        spec = gen_spec(rng, 8)
        acc = _accept(spec)
        if acc is None:
            continue
        V, Jc, nf, nun, dist = acc
        if nun == nf or dist < 0.03:
            continue
        try:
            with contextlib.redirect_stdout(io.StringIO()):
                m, rec = build_model(spec)
        except Exception:
            continue
        acc = accept_at_model_steady(spec, m, acc)
        if acc is None:
            continue
        V, Jc, nf, nun, dist = acc
        if nun == nf or dist < 0.03:
            continue
        info["indeterminate_or_unstable_models"] += 1
        s = m.get_solution()
        if s.system_stability.name == "STABLE":
            add("verdict:non-determinate-reported-stable", "a model with a wrong number of unstable roots is reported STABLE",
                {"spec": spec, "source": render_source(spec)[0]}, "STABLE", {"independent_unstable": nun, "forward_looking": nf})
        want = "NO_STABLE" if nun > nf else "MULTIPLE_STABLE"
        if s.system_stability.name != want:
            add("verdict:wrong-kind", "the non-determinacy kind differs from the independent root count",
                {"spec": spec, "source": render_source(spec)[0]}, s.system_stability.name, want)
    # 2b. models declared linear=True, flat=False with a GROWING steady state (drifting unit root) and measurement variables:
    # the steady state (levels and changes) comes from solve_steady_linear_nonflat; level simulation = steady + deviation
    info["linear_growth_models"] = 0
    for _ in range(ctx.scale(5, 80)):
        try:
            spec, acc = gen_determinate(rng, 8, linear_growth=True)
        except RuntimeError:
            break
        for f in linear_growth_case(rng, spec, acc):
            if all(x.key != f.key for x in fails):
                fails.append(f)
        info["linear_growth_models"] += 1
    # 3. measurement equations that read a lead of a transition variable
    info["measurement_lead_models"] = 0
    for _ in range(ctx.scale(3, 40)):
        prm = {"a": _r(rng, -0.8, 0.8), "k": _r(rng, 0.5, 2.0), "c": _r(rng, 0.5, 2.0), "d": _r(rng, -1.0, 1.0),
               "lead": rng.choice([1, 1, 2]), "shock": _r(rng, 0.5, 1.5)}
        info["measurement_lead_models"] += 1
        f = measurement_lead_case(prm)
        if f is not None and all(x.key != f.key for x in fails):
            fails.append(f)
    # 4. models with lagged shocks (separate class; known finding equations:lagged-shock).  The deterministic witness first.
    info["lagged_shock_models"] = 0
    cases = [(LAGGED_WITNESS["spec"], LAGGED_WITNESS["scenario"])]
    for _ in range(ctx.scale(6, 120)):
        base, _acc = gen_determinate(rng, 8)
        sp = add_lagged_shocks(rng, base)
        sc = gen_scenario(rng, sp, nper=rng.randint(5, 8))
        if not sc["u"] and not sc["v"]:
            sc["u"].append([0, 0, 1.0])
        cases.append((sp, sc))
    for sp, sc in cases:
        try:
            fl = lagged_shock_case(sp, sc)
        except Exception as e:
            fl = [Failure("simulate:raises", f"a model with lagged shocks raises {type(e).__name__}: {e}"[:200],
                          {"spec": sp, "scenario": sc, "source": render_source(sp)[0]})]
        info["lagged_shock_models"] += 1
        for f in fl:
            if all(x.key != f.key for x in fails):
                fails.append(f)
    return fails, info


def replay(ctx, failure: dict):
    inp = failure.get("input") or {}
    if inp.get("spec") and (any(e.get("lagshocks") for e in inp["spec"]["eqs"]) or any(q.get("wlag") for q in inp["spec"]["meas"])):
        for f in lagged_shock_case(inp["spec"], inp["scenario"]):
            if f.key == failure.get("key"):
                return f
        return None
    if failure.get("key") == "measurement:lead-dropped" and "params" in inp:
        return measurement_lead_case(inp["params"])
    spec = inp.get("spec")
    if not spec:
        return None
    if inp.get("variants"):
        fs = variants_case(spec, inp["scenario"], inp["variants"]["factors"], inp["variants"]["mode"]) or []
        for f in fs:
            if f.key == failure.get("key"):
                return f
        return fs[0] if fs else None
    if spec.get("steady_solved") and failure.get("key") in ("level-vs-deviation", "equations:residual"):
        acc = _accept(spec)
        fs = linear_growth_case(ctx.rng, spec, acc, scen=inp.get("scenarios") or [inp["scenario"]]) if acc else []
        for f in fs:
            if f.key == failure.get("key"):
                return f
    hints = {"disagreements": [{"input": {"spec": spec, "scenario": inp.get("scenario"), "scenarios": inp.get("scenarios")}}]}

    class _C:      # a context that generates nothing new
        rng = ctx.rng
        def scale(self, a, b): return 0
        def log(self, *a): pass
    fs, _ = falsify(_C(), hints)
    for f in fs:
        if f.key == failure["key"]:
            return f
    return fs[0] if fs else None
