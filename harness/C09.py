"""C09  Periods behave as calendar-consistent integers and spans as their ranges."""
from __future__ import annotations

import calendar
import datetime as dt
import types

from vf import core
from vf.core import CorrResult, Disagreement, Failure, coq_z
from translator import dates as tr

ID = "C09"
PROPS = "props/C09.v"
GENERATED = [tr.OUT]
CASE_DEPS = ["lib/CaseUtil.vo", "model/Dates.vo"]
ALLOWED_AXIOMS: set = set()
TRUSTED = [
    "translator/dates.py (symbolic execution of the straight-line method bodies of dates.py -> gen/DatesGen.v); "
    "code it pins by exact text (Span constructor plumbing, _check_periods, __hash__, to_ymd lookup) fails closed on any edit",
    "CPython datetime.date / calendar.monthrange are the calendar oracle: coq/lib/Calendar.v is compared with them "
    "(rolling digest over blocks of ordinals; every ordinal 1..3652059 in the thorough tier)",
    "Span.__init__ (defaults in the direction of the step, needs_resolve, final _check_periods) and Span.resolve (kept / resolved "
    "end points, result built by the constructor) are symbolically executed into gen_span_init_* / gen_span_resolve; every other "
    "builder of a Span (>> << of periods and spans, + -, reversed) is pinned to the constructor, and no other method may assign "
    "_start/_end/_step/needs_resolve",
    "the dispatch over period classes, Span indexing / slicing, truthiness of end points and the error classes are "
    "hand-modelled (model/Dates.v) and tied by exact correspondence only",
]
ASSUMPTIONS = [
    "supported calendar = CPython date range (years 1..9999, ordinals 1..3652059); theorems about calendar dates carry that hypothesis",
    "Python int is modelled by Coq Z (// and % are Z.div and Z.modulo, which agree with Python for every sign)",
    "hash(p) is a function of the pair (serial, frequency) (tuple hashing is deterministic within a process)",
    "integer periods have no year/segment and no soy/eopy/tty keyword (AttributeError); yoy shifts them by 0",
]
MANIFEST = {
    "technique": "Coq proof over Z of arithmetic fragments regenerated from dates.py; verified proleptic Gregorian calendar; "
                 "Span as a state machine with a history invariant; exact correspondence incl. exhaustive block digests",
    "level_text": "Theorems (props/C09.v) over unbounded Z: group/order laws of period arithmetic and comparison, hash congruence, "
                  "rejection of mixed frequencies, tiling of the calendar by consecutive regular periods for every year >= 1, "
                  "year/segment accessors vs calendar (daily: day of year), keyword shifts, Span enumeration / length / indexing / "
                  "shift / reversal / resolution coherence and the history invariant for every sequence of in-place mutations; "
                  "Span.resolve rejects exactly the mixed-frequency resolutions and otherwise returns a one-frequency span, for every "
                  "span and context, and every history of public operations incl. resolutions keeps resolved spans one-frequency; "
                  "lib/Period.v agrees with the generated fragments.",
    "level_note": "Trusted: Coq kernel + vm_compute, translator/dates.py, harness, CPython datetime as the calendar oracle. "
                  "Hand-modelled and tied by correspondence only: class dispatch, Span constructor/indexing/slicing, error classes.",
}

HM = 1 << 63
REG = [1, 2, 4, 12]
FREQS = [1, 2, 4, 12, 365, 0]
ERR = {"ErrFreq": 1, "ErrType": 2, "ErrValue": 3, "ErrIndex": 4, "ErrAttr": 5, "ErrKey": 6, "ErrNone": 7}
ERRNAME = {v: k for k, v in ERR.items()}
POS = ["start", "middle", "end"]
CMP = ["==", "!=", "<", "<=", ">", ">="]
KWS = ["yoy", "soy", "boy", "eopy", "tty"]
MAXORD = 3652059


def translate(ctx):
    tr.run()


# ------------------------------------------------------------------ observations

class NoneResult(Exception):
    pass


def err_of(e: Exception) -> int:
    if type(e).__name__ in ("IrisPieError", "IrisPieCritical"):
        return ERR["ErrFreq"]
    if isinstance(e, NoneResult):
        return ERR["ErrNone"]
    if isinstance(e, TypeError):
        return ERR["ErrType"]
    if isinstance(e, (ValueError, OverflowError)):
        return ERR["ErrValue"]
    if isinstance(e, IndexError):
        return ERR["ErrIndex"]
    if isinstance(e, AttributeError):
        return ERR["ErrAttr"]
    if isinstance(e, KeyError):
        return ERR["ErrKey"]
    raise e


def attempt(f):
    try:
        return f()
    except Exception as e:  # noqa
        return ("E", err_of(e))


def oZ(n): return ("Z", int(n))
def oB(b): return ("B", bool(b))
def oL(l): return ("L", list(l))


def oP(p):
    if p is None:
        raise NoneResult()
    return ("P", int(p.frequency.value), int(p.serial))


def o_optp(p):
    return ("N",) if p is None else oP(p)


def o_ep(e):
    if getattr(e, "needs_resolve", False):
        s = str(e)            # <>.start+2
        body = s[3:]
        frm = body.startswith("start")
        rest = body[len("start" if frm else "end"):]
        return ("C", frm, int(rest) if rest else 0)
    return oP(e)


M63 = (1 << 63) - 1


def _mix(h, x):
    return (h * 1000003 + x + 7) & M63


def obs_digest(o) -> int:
    k = o[0]
    if k == "Z":
        return _mix(1, o[1])
    if k == "B":
        return _mix(2, 1 if o[1] else 0)
    if k == "N":
        return _mix(3, 0)
    if k == "E":
        return _mix(4, o[1])
    if k == "P":
        return _mix(_mix(5, o[1]), o[2])
    if k == "C":
        return _mix(_mix(6, 1 if o[1] else 0), o[2])
    h = _mix(7, len(o[1]))
    for x in o[1]:
        h = _mix(h, obs_digest(x))
    return h


def coq_obs(o) -> str:
    k = o[0]
    if k == "Z":
        return f"OZ {coq_z(o[1])}"
    if k == "B":
        return f"OB {core.coq_bool(o[1])}"
    if k == "N":
        return "ONone"
    if k == "E":
        return f"OE {ERRNAME[o[1]]}"
    if k == "P":
        return f"OP (mkP {coq_z(o[1])} {coq_z(o[2])})"
    if k == "C":
        return f"OC {core.coq_bool(o[1])} {coq_z(o[2])}"
    return "OL [" + "; ".join(coq_obs(x) for x in o[1]) + "]"


# ------------------------------------------------------------------ period specs

def coq_spec(s) -> str:
    k = s[0]
    if k == "reg":
        return f"(SReg {coq_z(s[1])} {coq_z(s[2])} {coq_z(s[3])})"
    if k == "day":
        return f"(SDay {coq_z(s[1])} {coq_z(s[2])} {coq_z(s[3])})"
    if k == "doy":
        return f"(SDoy {coq_z(s[1])} {coq_z(s[2])})"
    return f"(SInt {coq_z(s[1])})"


def mk_py(s):
    import irispie as ir
    k = s[0]
    if k == "reg":
        c = {1: ir.yy, 2: ir.hh, 4: ir.qq, 12: ir.mm}[s[1]]
        return c(s[2]) if s[3] == 1 else c(s[2], s[3])
    if k == "day":
        return ir.dd(s[1], s[2], s[3])
    if k == "doy":
        return ir.dd(s[1], None, s[2])
    return ir.ii(s[1])


def spec_freq(s) -> int:
    return {"reg": s[1], "day": 365, "doy": 365, "int": 0}[s[0]]


YEARS = [1, 2, 4, 100, 400, 1582, 1600, 1699, 1700, 1899, 1900, 1901, 1999, 2000, 2001, 2019, 2020, 2023, 2024, 2100, 2400,
         9996, 9998, 9999]


def rand_year(rng, lo=1, hi=9999):
    r = rng.random()
    if r < 0.35:
        y = rng.choice(YEARS)
    elif r < 0.7:
        y = rng.randint(1900, 2100)
    else:
        y = rng.randint(lo, hi)
    return min(max(y, lo), hi)


def rand_spec(rng, freq=None, lo=1, hi=9999, sloppy=0.04):
    f = rng.choice(FREQS) if freq is None else freq
    if f in REG:
        seg = rng.randint(1, f)
        if rng.random() < sloppy:
            seg = rng.choice([0, f + 1, 13, -1])
        return ("reg", f, rand_year(rng, lo, hi), seg)
    if f == 365:
        y = rand_year(rng, lo, hi)
        if rng.random() < 0.25:
            k = rng.choice([1, 31, 32, 59, 60, 61, 365, 366 if calendar.isleap(y) else 365, rng.randint(1, 365)])
            return ("doy", y, k)
        m = rng.randint(1, 12)
        dim = calendar.monthrange(y, m)[1]
        d = rng.choice([1, dim, rng.randint(1, dim), rng.randint(1, dim)])
        if rng.random() < sloppy:
            d = rng.choice([0, dim + 1, 31])
        return ("day", y, m, d)
    return ("int", rng.choice([0, 1, -1, rng.randint(-50, 50), rng.randint(-10 ** 6, 10 ** 6)]))


def rand_offset(rng):
    r = rng.random()
    if r < 0.5:
        return rng.randint(-40, 40)
    if r < 0.8:
        return rng.randint(-3000, 3000)
    return rng.randint(-10 ** 6, 10 ** 6)


# ------------------------------------------------------------------ period cases

def gen_pcase(rng) -> dict:
    kind = rng.choice(["add", "radd", "subint", "sub", "sub", "cmp", "cmp", "cmp", "hasheq", "yearseg", "year", "segment",
                       "toymd", "toymd", "toord", "shift", "shift", "shift", "fromymd", "fromys", "pfu", "pow", "mk",
                       "fromdate", "fromdate", "fromdate", "refreq", "refreq"])
    s = rand_spec(rng)
    c = {"kind": kind, "s": s}
    f = spec_freq(s)
    if kind in ("add", "radd", "subint"):
        # keep calendar frequencies inside the supported range most of the time
        c["n"] = rand_offset(rng)
    elif kind in ("sub", "cmp"):
        r = rng.random()
        if r < 0.7:
            o = rand_spec(rng, freq=f)
        elif r < 0.92 or kind == "sub":
            o = rand_spec(rng, freq=rng.choice([x for x in FREQS if x != f]))
        else:
            o = None
        c["o"] = o
        if kind == "cmp":
            c["op"] = rng.randrange(6)
    elif kind == "hasheq":
        c["n"] = rand_offset(rng)
    elif kind in ("toymd", "toord"):
        c["pos"] = rng.randrange(3)
        if kind == "toord" and f == 0:
            c["s"] = rand_spec(rng, freq=rng.choice([1, 2, 4, 12, 365]))
    elif kind == "shift":
        if rng.random() < 0.75:
            c["by"] = rng.choice(KWS + ["tty", "soy", "eopy"]) if rng.random() < 0.95 else "foo"
        else:
            c["by"] = rand_offset(rng)
    elif kind == "fromymd":
        ff = rng.choice([1, 2, 4, 12, 365, 365])
        y = rand_year(rng)
        m = rng.randint(1, 12)
        dim = calendar.monthrange(y, m)[1]
        d = rng.choice([1, dim, rng.randint(1, dim)])
        if rng.random() < 0.05:
            d = dim + 1
        c.update(f=ff, y=y, m=m, d=d)
    elif kind == "fromdate":
        # a period of every calendar frequency built from a calendar date, through one of the public entry points
        ff = rng.choice([1, 2, 4, 12, 365])
        y = rand_year(rng)
        m = rng.randint(1, 12)
        dim = calendar.monthrange(y, m)[1]
        d = rng.choice([1, dim, rng.randint(1, dim)])
        c.update(f=ff, y=y, m=m, d=d, via=rng.choice(["pydate", "iso", "ymd", "pydates", "isos", "dater"]))
    elif kind == "refreq":
        c["s"] = rand_spec(rng, freq=rng.choice([1, 2, 4, 12, 365, 365, 12]), sloppy=0)
        c["f"] = rng.choice([1, 2, 4, 12, 365])
        c["pos"] = rng.randrange(3)
        c["via"] = rng.choice(["method", "function", "convert"])
    elif kind == "fromys":
        pass
    elif kind == "pfu":
        c["s"] = s = rand_spec(rng, freq=f, sloppy=0)
        if rng.random() < 0.9:
            c["o"] = None                       # end within a few periods of the start
            c["delta"] = rng.randint(-5, 30)
        else:
            c["o"] = rand_spec(rng, freq=rng.choice([x for x in FREQS if x != f]), sloppy=0)
        c["step"] = rng.choice([1, 1, 1, 2, 3, 5, -1, 0])
    elif kind == "pow":
        c["n"] = rng.choice([2, 3, 5, -2, -4, 12, rng.randint(-30, 30)])
        if c["n"] in (1, -1, 0):
            c["n"] = 2
    return c


def period_from_date(ir, via: str, f: int, y: int, m: int, d: int):
    """the period of frequency f that a calendar date belongs to, through one public entry point"""
    F = ir.Frequency(f)
    day = dt.date(y, m, d)
    iso = f"{y:04d}-{m:02d}-{d:02d}"
    if via == "pydate":
        return ir.Period.from_python_date(day, frequency=F)
    if via == "iso":
        return ir.Period.from_iso_string(iso, frequency=F)
    if via == "ymd":
        return ir.Period.from_ymd(F, y, m, d)
    if via == "pydates":
        return ir.periods_from_python_dates([day], frequency=F)[0]
    if via == "isos":
        return ir.periods_from_iso_strings([iso], frequency=F)[0]
    if via == "dater":
        return ir.dates.Dater.from_iso_string(F, iso)
    raise AssertionError(via)


def run_pcase(c: dict):
    import irispie as ir
    kind = c["kind"]

    def go():
        if kind == "fromymd":
            return oP(ir.Period.from_ymd(ir.Frequency(c["f"]), c["y"], c["m"], c["d"]))
        if kind == "fromdate":
            return oP(period_from_date(ir, c["via"], c["f"], c["y"], c["m"], c["d"]))
        if kind == "refreq":
            src = mk_py(c["s"])
            F = ir.Frequency(c["f"])
            pos = POS[c["pos"]]
            if c["via"] == "method":
                return oP(src.refrequent(F, position=pos))
            if c["via"] == "convert":
                return oP(src.convert(F, position=pos))
            return oP(ir.refrequent(src, F, position=pos))
        p = mk_py(c["s"])
        if kind in ("mk", "fromys"):
            return oP(p)
        if kind == "add":
            return oP(p + c["n"])
        if kind == "radd":
            return oP(c["n"] + p)
        if kind == "subint":
            return oP(p - c["n"])
        if kind == "sub":
            return oZ(p - mk_py(c["o"]))
        if kind == "cmp":
            q = None if c["o"] is None else mk_py(c["o"])
            op = CMP[c["op"]]
            return oB({"==": lambda: p == q, "!=": lambda: p != q, "<": lambda: p < q, "<=": lambda: p <= q,
                       ">": lambda: p > q, ">=": lambda: p >= q}[op]())
        if kind == "hasheq":
            return oB(hash(p) == hash((p + c["n"]) - c["n"]))
        if kind == "yearseg":
            y, s = p.to_year_segment()
            return oL([oZ(y), oZ(s)])
        if kind == "year":
            v = p.year
            if v is None:
                raise NoneResult()
            return oZ(v)
        if kind == "segment":
            v = p.segment
            if v is None:
                raise NoneResult()
            return oZ(v)
        if kind == "toymd":
            v = p.to_ymd(position=POS[c["pos"]])
            if v is None:
                raise NoneResult()
            return oL([oZ(x) for x in v])
        if kind == "toord":
            return oZ(p.to_python_date(position=POS[c["pos"]]).toordinal())
        if kind == "shift":
            return o_optp(p.shift(c["by"]))
        if kind == "pfu":
            q = mk_py(c["o"]) if c["o"] is not None else p + c["delta"]
            return oL([oP(t) for t in ir.periods_from_until(p, q, c["step"])])
        if kind == "pow":
            return o_span(p ** c["n"])
        raise AssertionError(kind)
    return attempt(go)


def coq_pcase(c: dict) -> str:
    kind = c["kind"]
    s = coq_spec(c["s"])
    if kind in ("mk", "fromys"):
        return f"c_mk {s}"
    if kind in ("add", "radd"):
        return f"c_add {s} {coq_z(c['n'])}"
    if kind == "subint":
        return f"c_subint {s} {coq_z(c['n'])}"
    if kind == "sub":
        return f"c_sub {s} {coq_spec(c['o'])}"
    if kind == "cmp":
        o = "None" if c["o"] is None else f"(Some {coq_spec(c['o'])})"
        return f"c_cmp {c['op']} {s} {o}"
    if kind == "hasheq":
        return f"c_hasheq {s} {coq_z(c['n'])}"
    if kind in ("yearseg", "year", "segment"):
        return f"c_{kind} {s}"
    if kind in ("toymd", "toord"):
        return f"c_{kind} {c['pos']} {s}"
    if kind == "shift":
        by = f'(ByKw "{c["by"]}")' if isinstance(c["by"], str) else f"(ByInt {coq_z(c['by'])})"
        return f"c_shift {s} {by}"
    if kind in ("fromymd", "fromdate"):
        return f"c_fromymd {c['f']} {coq_z(c['y'])} {coq_z(c['m'])} {coq_z(c['d'])}"
    if kind == "refreq":
        return f"c_refreq {c['f']} {c['pos']} {s}"
    if kind == "pfu":
        if c["o"] is not None:
            return f"c_pfu {s} {coq_spec(c['o'])} {coq_z(c['step'])}"
        return f"c_pfu_delta {s} {coq_z(c['delta'])} {coq_z(c['step'])}"
    if kind == "pow":
        return f"c_pow {s} {coq_z(c['n'])}"
    raise AssertionError(kind)


# ------------------------------------------------------------------ spans

def o_span(s):
    return oL([o_ep(s.start), o_ep(s.end), oZ(s.step), oB(s.needs_resolve)])


def coq_epspec(e) -> str:
    if e is None:
        return "None"
    if e[0] == "ctx":
        return f"(Some (EC {core.coq_bool(e[1])} {coq_z(e[2])}))"
    return f"(Some (EP {coq_spec(e)}))"


def mk_ep(e):
    import irispie as ir
    if e is None:
        return None
    if e[0] == "ctx":
        base = ir.start if e[1] else ir.end
        return base + e[2] if e[2] else base
    return mk_py(e)


def coq_oz(x):
    return "None" if x is None else f"(Some {coq_z(x)})"


def coq_query(q) -> str:
    i1, i2, sl = q
    return f"({coq_z(i1)}, {coq_z(i2)}, ({coq_oz(sl[0])}, {coq_oz(sl[1])}, {coq_oz(sl[2])}))"


def rand_query(rng, n_hint: int):
    def idx():
        return rng.choice([0, -1, 1, rng.randint(-n_hint - 2, n_hint + 2), n_hint, -n_hint, n_hint - 1])

    def so():
        return None if rng.random() < 0.35 else rng.randint(-n_hint - 3, n_hint + 3)
    st = rng.choice([None, None, 1, 2, -1, -2, 3, 0 if rng.random() < 0.15 else 1])
    return (idx(), idx(), (so(), so(), st))


def shifted_spec(rng, s, delta):
    """a period `delta` periods after s, expressed through the public constructors (needs the serial arithmetic only
    to *choose* a nearby period; the value itself is built by the implementation / the model from (year, segment))."""
    k = s[0]
    if k == "reg":
        f = s[1]
        ser = s[2] * f + s[3] - 1 + delta
        return ("reg", f, ser // f, ser % f + 1)
    if k in ("day", "doy"):
        base = dt.date(s[1], 1, 1).toordinal() + s[2] - 1 if k == "doy" else dt.date(s[1], s[2], s[3]).toordinal()
        o = min(max(base + delta, 1), MAXORD)
        d = dt.date.fromordinal(o)
        return ("day", d.year, d.month, d.day)
    return ("int", s[1] + delta)


def gen_hist(rng) -> dict:
    f = rng.choice(FREQS)
    a = rand_spec(rng, freq=f, lo=1800, hi=2200, sloppy=0)
    step = rng.choice([1, 1, 1, -1, -1, 2, 3, -2, -3, 5, -7, 4, 0 if rng.random() < 0.3 else 1])
    dist = rng.randint(0, 24) * (1 if step >= 0 else -1)
    if rng.random() < 0.12:
        dist = -dist
    b = shifted_spec(rng, a, dist)
    r = rng.random()
    ea, eb = a, b
    if r < 0.10:
        eb = None
    elif r < 0.18:
        ea = None
    elif r < 0.24:
        ea, eb = None, None
    elif r < 0.30:
        ea = ("ctx", rng.random() < 0.5, rng.randint(-3, 3))
    elif r < 0.35:
        eb = rand_spec(rng, freq=rng.choice([x for x in FREQS if x != f]), lo=1800, hi=2200, sloppy=0)
    acts = []
    for _ in range(rng.randint(2, 8)):
        q = rng.random()
        k = rng.choice([1, -1, 2, -2, 3, 4, -5, rng.randint(-12, 12)])
        if q < 0.5:
            t = rng.choice(["reverse", "shift", "shift_start", "shift_end"])
            act = (t,) if t == "reverse" else (t, k)
        elif q < 0.6:
            act = ("add", k)
        elif q < 0.68:
            act = ("sub", k)
        elif q < 0.74:
            act = ("rsh", rng.choice([1, 2, 3, 0, -1]))
        elif q < 0.80:
            act = ("lsh", rng.choice([-1, -2, -3, 0, 1]))
        elif q < 0.88:
            act = ("reversed",)
        else:
            if rng.random() < 0.9:
                ca = shifted_spec(rng, a, rng.randint(-10, 10))     # a context near the span
            else:
                ca = rand_spec(rng, freq=rng.choice([x for x in FREQS if x != f]), lo=1800, hi=2200, sloppy=0)
            cb = shifted_spec(rng, ca, rng.randint(0, 20))
            act = ("resolve", ca, cb)
        acts.append((act, rand_query(rng, abs(dist) // max(abs(step), 1) + 1)))
    return {"a": ea, "b": eb, "step": step, "q0": rand_query(rng, abs(dist) // max(abs(step), 1) + 1), "acts": acts}


def observe(s, q):
    i1, i2, sl = q

    def nth(i):
        v = s[i]
        if v is None:
            raise NoneResult()
        return oP(v)
    return oL([o_span(s), attempt(lambda: oZ(len(s))), attempt(lambda: oL([oP(t) for t in list(s)])),
               attempt(lambda: nth(i1)), attempt(lambda: nth(i2)),
               attempt(lambda: oL([oP(t) for t in s[slice(*sl)]]))])


def run_hist(h: dict):
    import irispie as ir

    def go():
        s = ir.Span(mk_ep(h["a"]), mk_ep(h["b"]), h["step"])
        out = [observe(s, h["q0"])]
        for act, q in h["acts"]:
            try:
                t = act[0]
                if t == "reverse":
                    s.reverse()
                elif t == "shift":
                    s.shift(act[1])
                elif t == "shift_start":
                    s.shift_start(act[1])
                elif t == "shift_end":
                    s.shift_end(act[1])
                elif t == "add":
                    s = s + act[1]
                elif t == "sub":
                    s = s - act[1]
                elif t == "rsh":
                    s = s >> act[1]
                elif t == "lsh":
                    s = s << act[1]
                elif t == "reversed":
                    s = s.reversed()
                elif t == "resolve":
                    s = s.resolve(mk_context(ir, act[1], act[2], act[3] if len(act) > 3 else "ns"))
                out.append(observe(s, q))
            except Exception as e:  # noqa
                out.append(("E", err_of(e)))
        return oL(out)
    return attempt(go)


def mk_context(ir, ca, cb, kind: str):
    """a resolution context whose start_date / end_date are the periods ca / cb, as one of the public kinds of context"""
    a, b = mk_py(ca), mk_py(cb)
    if kind == "ns":
        return types.SimpleNamespace(start_date=a, end_date=b)
    if kind == "rc":
        return ir.dates.ResolutionContext(a, b)
    if kind == "span":           # Span.start_date / end_date are its start / end, whatever the direction
        return ir.Span(a, b, 1 if b - a >= 0 else -1)
    if kind == "series":         # a Series observed from a to b  (needs a <= b)
        import numpy as np
        return ir.Series(start=a, values=np.arange(float(b - a + 1)))
    raise AssertionError(kind)


def gen_resolve_hist(rng) -> dict:
    """a span with 0, 1 or 2 open / contextual ends, a few in-place mutations, then resolution against a context of the
    same or of ANOTHER frequency (through every kind of context object), then more actions and a second resolution"""
    f = rng.choice(FREQS)
    a = rand_spec(rng, freq=f, lo=1800, hi=2200, sloppy=0)
    step = rng.choice([1, 1, -1, -1, 2, 3, -2, -5])
    b = shifted_spec(rng, a, rng.randint(0, 12) * (1 if step > 0 else -1))

    def ctxep():
        return ("ctx", rng.random() < 0.5, rng.randint(-3, 3))
    shape = rng.choice(["a,None", "None,a", "a,ctx", "ctx,a", "None,None", "ctx,ctx", "a,b", "None,ctx", "ctx,None"])
    ea, eb = {"a,None": (a, None), "None,a": (None, a), "a,ctx": (a, ctxep()), "ctx,a": (ctxep(), a), "None,None": (None, None),
              "ctx,ctx": (ctxep(), ctxep()), "a,b": (a, b), "None,ctx": (None, ctxep()), "ctx,None": (ctxep(), None)}[shape]

    def mut():
        t = rng.choice(["reverse", "shift", "shift_start", "shift_end"])
        return (t,) if t == "reverse" else (t, rng.randint(-4, 4))

    def resolve_act():
        r = rng.random()
        g = f if r < 0.45 else rng.choice([x for x in FREQS if x != f])
        ca = shifted_spec(rng, a, rng.randint(-6, 6)) if g == f else rand_spec(rng, freq=g, lo=1800, hi=2200, sloppy=0)
        cb = shifted_spec(rng, ca, rng.randint(0, 14))
        kind = rng.choice(["ns", "rc", "span", "series"])
        if rng.random() < 0.15:        # a context whose two dates have different frequencies
            h = rng.choice([x for x in FREQS if x != g])
            cb = rand_spec(rng, freq=h, lo=1800, hi=2200, sloppy=0)
            kind = rng.choice(["ns", "rc"])
        elif kind == "span" and rng.random() < 0.3:
            ca, cb = cb, ca            # a backward span as the context
        return ("resolve", ca, cb, kind)
    n_hint = 16
    acts = [(mut(), rand_query(rng, n_hint)) for _ in range(rng.randint(0, 2))]
    acts.append((resolve_act(), rand_query(rng, n_hint)))
    for _ in range(rng.randint(0, 2)):
        acts.append((mut() if rng.random() < 0.7 else rng.choice([("add", 2), ("sub", 3), ("reversed",), ("rsh", 2), ("lsh", -2)]),
                     rand_query(rng, n_hint)))
    if rng.random() < 0.6:
        acts.append((resolve_act(), rand_query(rng, n_hint)))
    return {"a": ea, "b": eb, "step": step, "q0": rand_query(rng, n_hint), "acts": acts, "shape": shape}


def coq_act(act) -> str:
    t = act[0]
    if t == "reverse":
        return "AMut OReverse"
    if t in ("shift", "shift_start", "shift_end"):
        nm = {"shift": "OShift", "shift_start": "OShiftStart", "shift_end": "OShiftEnd"}[t]
        return f"AMut ({nm} {coq_z(act[1])})"
    if t in ("add", "sub", "rsh", "lsh"):
        nm = {"add": "AAdd", "sub": "ASub", "rsh": "ARsh", "lsh": "ALsh"}[t]
        return f"{nm} {coq_z(act[1])}"
    if t == "reversed":
        return "AReversed"
    return f"AResolve {coq_spec(act[1])} {coq_spec(act[2])}"


def coq_hist(h: dict) -> str:
    acts = "; ".join(f"({coq_act(a)}, {coq_query(q)})" for a, q in h["acts"])
    return f"c_hist {coq_epspec(h['a'])} {coq_epspec(h['b'])} {coq_z(h['step'])} {coq_query(h['q0'])} [{acts}]"


def gen_speq(rng):
    f = rng.choice(FREQS)
    a = rand_spec(rng, freq=f, lo=1800, hi=2200, sloppy=0)
    b = shifted_spec(rng, a, rng.randint(0, 10))
    s1 = rng.choice([1, 2, -1])
    if rng.random() < 0.5:
        c, d, s2 = a, b, s1
    else:
        ff = f if rng.random() < 0.8 else rng.choice(FREQS)
        c = rand_spec(rng, freq=ff, lo=1800, hi=2200, sloppy=0) if rng.random() < 0.5 else a
        if spec_freq(c) != f:
            d = shifted_spec(rng, c, 3)
        else:
            d = b if rng.random() < 0.5 else shifted_spec(rng, c, rng.randint(0, 10))
        s2 = rng.choice([s1, s1, 1, 2])
    return {"a": a, "b": b, "s1": s1, "c": c, "d": d, "s2": s2}


def run_speq(c):
    import irispie as ir
    return attempt(lambda: oB(ir.Span(mk_py(c["a"]), mk_py(c["b"]), c["s1"]) == ir.Span(mk_py(c["c"]), mk_py(c["d"]), c["s2"])))


def coq_speq(c) -> str:
    return (f"c_spaneq {coq_spec(c['a'])} {coq_spec(c['b'])} {coq_z(c['s1'])} {coq_spec(c['c'])} {coq_spec(c['d'])} "
            f"{coq_z(c['s2'])}")


# ------------------------------------------------------------------ exhaustive block digests

def hstep(h, x):
    return (h * 1000003 + x + 7) % HM


def h_try(h, f):
    try:
        return f(h)
    except Exception as e:  # noqa
        return hstep(h, -err_of(e))


def period_digest(h, p):
    def ys(h):
        y, s = p.to_year_segment()
        return hstep(hstep(h, y), s)

    def ymd(pos):
        def g(h):
            y, m, d = p.to_ymd(position=pos)
            return hstep(hstep(hstep(h, y), m), d)
        return g

    def od(pos):
        return lambda h: hstep(h, p.to_python_date(position=pos).toordinal())

    def sh(kw):
        def g(h):
            q = p.shift(kw)
            return hstep(h, -99 if q is None else q.serial)
        return g
    h = h_try(h, ys)
    for pos in POS:
        h = h_try(h, ymd(pos))
    h = h_try(h, od("start"))
    h = h_try(h, od("end"))
    for kw in ("tty", "soy", "eopy"):
        h = h_try(h, sh(kw))
    return h


def block_digest(f: int, first: int, count: int) -> int:
    import irispie as ir
    if f == 365:
        first_p = ir.Period.from_python_date(dt.date.fromordinal(first))
    else:
        first_p = ir.Period.from_year_segment(ir.Frequency(f), first // f, first % f + 1)
    if first_p.serial != first:
        return -1          # the constructor itself is off: reported as a digest mismatch of this block
    h = 0
    for k in range(count):
        h = period_digest(h, first_p + k)
    return h


def ord_digest(first: int, count: int) -> int:
    h = 0
    for o in range(first, first + count):
        d = dt.date.fromordinal(o)
        h = hstep(hstep(hstep(hstep(h, d.year), d.month), d.day), dt.date(d.year, d.month, d.day).toordinal())
    return h


def _pool_block(args):
    core.use_repo_in_process()
    kind = args[0]
    if kind == "block":
        return block_digest(*args[1:])
    return ord_digest(*args[1:])


def block_plan(ctx):
    """(kind, args) of every digest block"""
    rng = ctx.rng
    blocks = []
    if ctx.thorough:
        for f in REG:
            span_years = 50
            for y0 in range(1, 10000, span_years):
                y1 = min(y0 + span_years, 10000)
                blocks.append(("block", f, y0 * f, (y1 - y0) * f))
        # every ordinal through the calendar digest; the (much heavier) digest of all daily accessors on every day of
        # ~130 years around every kind of boundary plus random years
        for o in range(1, MAXORD + 1, 40000):
            blocks.append(("ords", o, min(40000, MAXORD + 1 - o)))
        years = set(list(range(1, 5)) + list(range(96, 105)) + list(range(396, 405)) + list(range(1580, 1590))
                    + list(range(1896, 1905)) + list(range(1996, 2005)) + list(range(2016, 2031)) + list(range(2096, 2105))
                    + list(range(9990, 10000)) + [rng.randint(1, 9999) for _ in range(40)])
        for y in sorted(years):
            o = dt.date(y, 1, 1).toordinal()
            n = dt.date(y, 12, 31).toordinal() - o + 1
            blocks.append(("block", 365, o, n))
    else:
        starts = [1, 1580, 1690, 1880, 1900, 1980, 2000, 2020, 2090, 2390, 9980] + [rng.randint(1, 9975) for _ in range(4)]
        for f in REG:
            for y0 in starts:
                blocks.append(("block", f, y0 * f, 20 * f))
        dstarts = [1, MAXORD - 399, dt.date(1899, 10, 1).toordinal(), dt.date(1999, 10, 1).toordinal(),
                   dt.date(2023, 10, 1).toordinal(), dt.date(2099, 10, 1).toordinal(), dt.date(399, 10, 1).toordinal()] + \
                  [rng.randint(1, MAXORD - 400) for _ in range(5)]
        for o in dstarts:
            blocks.append(("block", 365, o, 400))
        for o in [1, MAXORD - 19999, dt.date(1899, 1, 1).toordinal(), dt.date(1999, 1, 1).toordinal()] + \
                 [rng.randint(1, MAXORD - 20000) for _ in range(4)]:
            blocks.append(("ords", o, 20000))
    return blocks


def coq_block(b) -> str:
    if b[0] == "block":
        return f"c_block {coq_z(b[1])} {coq_z(b[2])} {b[3]}%nat"
    return f"c_ords {coq_z(b[1])} {b[2]}%nat"


# ------------------------------------------------------------------ correspondence

HEADER = """From Coq Require Import ZArith List Bool String.
From Verif Require Import lib.Calendar lib.DatesBase lib.CaseUtil gen.DatesGen model.Dates.
Import ListNotations.
Open Scope string_scope.
Open Scope Z_scope.
Set Printing Width 1000000.
Set Printing Depth 1000000.
Definition c_pfu_delta (a : pspec) (delta step : Z) : obs :=
  obs_of (fun l => OL (map OP l)) (bind (mk a) (fun p => periods_from_until p (padd p delta) step)).
Definition c_refreq (f pos : Z) (s : pspec) : obs :=
  obs_of OP (bind (mk s) (fun p => bind (to_ymd (pos_of pos) p) (fun '(y, m, d) => from_ymd f y m d))).
"""


def shard_text(pairs) -> str:
    """pairs: (Coq term of type obs computed by the model, observation of the implementation)"""
    lines = [HEADER, "Definition cases : list (Z * Z) := ["]
    lines.append(";\n".join(f"  (dg ({m}), {coq_z(obs_digest(o))})" for m, o in pairs))
    lines.append("].")
    lines.append("Eval vm_compute in (failing Z.eqb cases 0).")
    return "\n".join(lines) + "\n"


def explain(ctx, terms: list[str]) -> list[str]:
    """model observations of a few failing cases, printed by Coq (diagnostics only)"""
    text = HEADER + "\n".join(f"Eval vm_compute in ({t})." for t in terms) + "\n"
    (ok, out), = core.run_cases(ctx, [text], prefix="explain", timeout=600)
    bodies = core.parse_eval_lists(out) if ok else []
    return bodies if len(bodies) == len(terms) else [out[-300:]] * len(terms)


def finish_cases(ctx, res: CorrResult, items, per_small=800, per_big=4):
    """items: (where, case, model term, impl obs).  Runs the shards and records disagreements."""
    small = [it for it in items if not it[0].startswith("digest")]
    big = [it for it in items if it[0].startswith("digest")]
    shards = [small[i:i + per_small] for i in range(0, len(small), per_small)]
    shards += [big[i:i + per_big] for i in range(0, len(big), per_big)]
    texts = [shard_text([(it[2], it[3]) for it in sh]) for sh in shards]
    results = core.run_cases(ctx, texts, timeout=3000)
    res.shards = len(texts)
    bad = []
    for k, (ok, out) in enumerate(results):
        sh = shards[k]
        if not ok:
            res.disagreements.append(Disagreement(f"cases shard {k} does not evaluate", None, out[-800:], None))
            continue
        bodies = core.parse_eval_lists(out)
        if len(bodies) != 1:
            res.disagreements.append(Disagreement(f"cases shard {k}: unparsable output", None, out[-600:], None))
            continue
        bad += [sh[i] for i in core.parse_nat_list(bodies[0])]
    if bad:
        shown = explain(ctx, [it[2] for it in bad[:6]])
        for j, (where, case, term, o) in enumerate(bad):
            model = shown[j] if j < len(shown) else "(model value not printed)"
            impl = coq_obs(o)
            res.disagreements.append(Disagreement(where, case, f"{model[:500]}   [model call: {term[:300]}]", impl[:500]))


def _bump(d, k):
    d[k] = d.get(k, 0) + 1


def correspondence(ctx) -> CorrResult:
    rng = ctx.rng
    res = CorrResult()
    items = []          # (where, case, coq model term, impl obs)
    dist = {"period_ops": {}, "errors": {}, "span_actions": {}, "span_kinds": {}, "blocks": {}, "frequencies": {}}
    n_p = ctx.scale(4000, 80000)
    n_h = ctx.scale(1500, 30000)
    n_e = ctx.scale(300, 3000)
    nontrivial = set()
    for _ in range(n_p):
        c = gen_pcase(rng)
        o = run_pcase(c)
        if len(str(o)) > 80000:
            _bump(dist, "skipped_long")
            continue
        items.append((f"period:{c['kind']}", c, coq_pcase(c), o))
        _bump(dist["period_ops"], c["kind"])
        _bump(dist["frequencies"], str(spec_freq(c["s"])))
        if o[0] == "E":
            _bump(dist["errors"], ERRNAME[o[1]])
        else:
            nontrivial.add(repr(c))
    for _ in range(n_h):
        h = gen_hist(rng)
        o = run_hist(h)
        if len(str(o)) > 80000:        # a very long listing: skipped to keep the Coq evaluation small
            _bump(dist, "skipped_long")
            continue
        items.append(("span:history", h, coq_hist(h), o))
        kind = "mixed/contextual" if (h["a"] is None or h["b"] is None or h["a"][0] == "ctx") else "concrete"
        _bump(dist["span_kinds"], kind)
        for a, _ in h["acts"]:
            _bump(dist["span_actions"], a[0])
        if o[0] == "E":
            _bump(dist["errors"], "span:" + ERRNAME[o[1]])
        elif any(x[0] == "L" and x[1][2][0] == "L" and len(x[1][2][1]) >= 2 for x in o[1]):
            nontrivial.add(repr(h))
    n_r = ctx.scale(700, 14000)
    dist["resolve"] = {"shape": {}, "context": {}, "outcome": {}}
    for _ in range(n_r):
        h = gen_resolve_hist(rng)
        o = run_hist(h)
        if len(str(o)) > 80000:
            _bump(dist, "skipped_long")
            continue
        items.append(("span:resolve", h, coq_hist(h), o))
        _bump(dist["resolve"]["shape"], h["shape"])
        k = 0
        for j, (a, _) in enumerate(h["acts"]):
            _bump(dist["span_actions"], a[0])
            if a[0] == "resolve":
                mixed_ctx = spec_freq(a[1]) != spec_freq(a[2])
                _bump(dist["resolve"]["context"], a[3] + (":mixed-ends" if mixed_ctx else ""))
                if o[0] == "L":
                    r = o[1][j + 1]
                    _bump(dist["resolve"]["outcome"], ERRNAME[r[1]] if r[0] == "E" else "resolved")
                    k += r[0] != "E"
        if k:
            nontrivial.add(repr(h))
    for _ in range(n_e):
        c = gen_speq(rng)
        o = run_speq(c)
        items.append(("span:eq", c, coq_speq(c), o))
        if o[0] != "E":
            nontrivial.add(repr(c))
    # exhaustive digests
    blocks = block_plan(ctx)
    if ctx.thorough:
        import multiprocessing as mp
        with mp.get_context("fork").Pool(min(core.NCPU, 16)) as pool:
            digests = pool.map(_pool_block, blocks, chunksize=4)
    else:
        digests = [_pool_block(b) for b in blocks]
    covered = 0
    for b, d in zip(blocks, digests):
        items.append((f"digest:{b[0]}:{b[1]}", {"block": b}, coq_block(b), oZ(d)))
        n = b[3] if b[0] == "block" else b[2]
        covered += n
        _bump(dist["blocks"], f"{b[0]}:{b[1] if b[0] == 'block' else 'calendar'}")
        nontrivial.add(repr(b))
    dist["periods_in_digests"] = covered
    res.evaluations = len(items)
    res.distinct_nontrivial = len(nontrivial)
    res.distribution = dist
    res.rule = ("period operation cases (constructor through the public yy/hh/qq/mm/dd/ii, then one of add/sub/compare/hash/"
                "accessor/to_ymd/to_python_date/shift/from_ymd/periods_from_until/**), span histories (Span(...) with concrete, "
                "contextual or missing end points, 2-8 actions among in-place reverse/shift/shift_start/shift_end and functional "
                "+,-,>>,<<,reversed(),resolve(context); after every action: state, len, list, two indexings, one slice), directed "
                "resolution histories (0/1/2 open or contextual ends, mutations, resolve against a context of the same or another "
                "frequency given as SimpleNamespace / ResolutionContext / Span / Series or with two dates of different frequencies, "
                "more actions, a second resolve), span "
                "equality, and rolling digests of all accessors over blocks of consecutive periods / ordinals; non-trivial = "
                "the implementation returned a value (not an error) and, for histories, some listing has >= 2 periods; "
                "distinct = distinct case text")
    res.samples = [{"case": it[1], "model_call": it[2][:300], "impl": str(it[3])[:300]} for it in
                   (items[0], items[min(n_p, len(items) - 1)], items[-1])]
    res.notes.append(f"{covered} periods/ordinals covered by digests in {len(blocks)} blocks")
    finish_cases(ctx, res, items, per_small=500, per_big=6 if ctx.thorough else 3)
    return res


# ------------------------------------------------------------------ falsifier: the property on the public API

def py_spec(s) -> str:
    k = s[0]
    if k == "reg":
        nm = {1: "yy", 2: "hh", 4: "qq", 12: "mm"}[s[1]]
        return f"ir.{nm}({s[2]})" if s[1] == 1 and s[3] == 1 else f"ir.{nm}({s[2]}, {s[3]})"
    if k == "day":
        return f"ir.dd({s[1]}, {s[2]}, {s[3]})"
    if k == "doy":
        return f"ir.dd({s[1]}, None, {s[2]})"
    return f"ir.ii({s[1]})"


PRELUDE = "import irispie as ir, datetime as dt, types\n"


class Checker:
    """Runs Python snippets that state one instance of the property with `assert`; a snippet that raises is a failure."""

    def __init__(self):
        self.fails: list[Failure] = []
        self.keys = set()
        self.count = {}

    def check(self, key: str, what: str, inp, snippet: str, required=None):
        self.count[key.split(":")[0]] = self.count.get(key.split(":")[0], 0) + 1
        if key in self.keys:          # one failing input per call shape is enough
            return
        r = run_snippet(snippet)
        if r is not None and key not in self.keys:
            self.keys.add(key)
            self.fails.append(Failure(key, what, inp, r, required, PRELUDE + snippet))

    def note(self, key, what, inp, observed, required, snippet):
        if key not in self.keys:
            self.keys.add(key)
            self.fails.append(Failure(key, what, inp, observed, required, PRELUDE + snippet))


def run_snippet(snippet: str):
    """None when every assertion holds, else a description of what happened"""
    import irispie as ir
    env = {"ir": ir, "dt": dt, "types": types}
    try:
        exec(snippet, env)
        return None
    except AssertionError as e:
        return f"assertion failed: {e}" if str(e) else "assertion failed"
    except Exception as e:  # noqa
        return f"{type(e).__name__}: {e}"[:300]


def expected_listing(a: int, e: int, c: int) -> list[int]:
    """start, start+step, ... up to end (serials), written without range()"""
    out, x = [], a
    while (c > 0 and x <= e) or (c < 0 and x >= e):
        out.append(x)
        x += c
    return out


CTX_KINDS = ["ns", "rc", "span", "series"]
SERIES_ENTRY = ["x[sp]", "x(sp)", "x.get_data(sp)", "x.resolve_periods(sp)", "x.copy().set_data(sp, 1.0)",
                "x.copy().cum_diff(span=sp)"]


def py_context(kind: str, A: str, B: str) -> str:
    """Python text building a resolution context with start_date = A and end_date = B (A <= B, one frequency)"""
    return {"ns": f"types.SimpleNamespace(start_date={A}, end_date={B})",
            "rc": f"ir.dates.ResolutionContext({A}, {B})",
            "span": f"ir.Span({A}, {B})",
            "series": f"ir.Series(start={A}, values=np.arange(float(({B}) - ({A}) + 1)))"}[kind]


REJECTED = ("try:\n    r = {call}\nexcept Exception as e:\n    r = e\n"
            "assert isinstance(r, Exception), 'not rejected: ' + repr(sp) + ' -> ' + repr(r)[:200]")


def falsify_resolution(ctx, ck):
    rng = ctx.rng
    pairs = [(f, g) for f in FREQS for g in FREQS] + [(f, f) for f in FREQS] * 3
    rounds = ctx.scale(3, 20)
    for rnd in range(rounds):
        for f, g in pairs:
            p = rand_spec(rng, freq=f, lo=1800, hi=2200, sloppy=0)
            cs = shifted_spec(rng, p, rng.randint(-6, 6)) if f == g else rand_spec(rng, freq=g, lo=1800, hi=2200, sloppy=0)
            n = rng.randint(0, 14)
            ce = shifted_spec(rng, cs, n)
            P, A, B = py_spec(p), py_spec(cs), py_spec(ce)
            c = rng.choice([1, 2, 3, 5])
            k = rng.randint(-3, 3)
            # (text, which end is fixed, context date used on the open side, offset on it, step)
            shapes = [("p >> None", "start", "end", 0, 1), ("None >> p", "end", "start", 0, 1),
                      ("p << None", "end", "end", 0, -1), ("None << p", "start", "start", 0, -1),
                      (f"ir.Span(p, None, {c})", "start", "end", 0, c), (f"ir.Span(None, p, {c})", "end", "start", 0, c),
                      (f"ir.Span(p, None, {-c})", "start", "start", 0, -c), (f"ir.Span(None, p, {-c})", "end", "end", 0, -c),
                      (f"ir.Span(p, ir.end + {k}, {c})", "start", "end", k, c),
                      (f"ir.Span(ir.start + {k}, p, {c})", "end", "start", k, c),
                      (f"ir.Span(p, ir.start + {-k}, {-c})", "start", "start", -k, -c),
                      (f"ir.Span(ir.end + {-k}, p, {-c})", "end", "end", -k, -c),
                      (f"(p >> None) >> {c}", "start", "end", 0, c), (f"(None >> p) + {k}", "end", "start", k, 1)]
            text, fixed, side, off, step = shapes[rng.randrange(len(shapes))] if rng.random() < 0.5 \
                else rng.choice(shapes)
            pk = k if text.endswith(f") + {k}") else 0            # the fixed end moved by the functional shift
            kind = rng.choice(CTX_KINDS)
            pre = (f"import numpy as np\np = {P}; a = {A}; b = {B}\ncx = {py_context(kind, 'a', 'b')}\nsp = {text}\n"
                   "assert sp.needs_resolve and not sp\n")
            inp = {"span": text, "p": P, "context": kind, "start_date": A, "end_date": B}
            if f != g:
                ck.check(f"mixed:resolve:{kind}", "an open-ended span with a fixed end of one frequency resolved against a context "
                         "of another frequency is not rejected", inp, pre + REJECTED.format(call="sp.resolve(cx)"))
                # after in-place mutations of the open span
                ck.check("mixed:resolve:mutated", "a mutated open-ended span resolved against a context of another frequency is "
                         "not rejected", inp, pre + f"sp.shift({k}); sp.reverse(); sp.shift_end(1)\n"
                         + REJECTED.format(call="sp.resolve(cx)"))
                entry = rng.choice(SERIES_ENTRY)
                ck.check(f"mixed:resolve:{entry}", "a Series method given an open-ended span whose fixed end has another frequency "
                         "than the series does not reject it", dict(inp, context="series", call=entry),
                         f"import numpy as np\np = {P}; a = {A}; b = {B}\nx = {py_context('series', 'a', 'b')}\nsp = {text}\n"
                         + REJECTED.format(call=entry))
            else:
                want_fixed = f"p + {pk}"
                want_open = f"{'a' if side == 'start' else 'b'} + {off}"
                ws, we = (want_fixed, want_open) if fixed == "start" else (want_open, want_fixed)
                ck.check(f"span:resolve_open:{kind}", "a half-open span resolved against a context of its own frequency does not "
                         "agree with the explicit span (ends, frequency, length, listing, indexing)", inp,
                         pre + f"r = sp.resolve(cx)\nassert not r.needs_resolve and bool(r)\n"
                               f"assert r.start == {ws} and r.end == {we} and r.step == {step}, repr(r)\n"
                               "assert type(r.start) is type(r.end) is type(p) and r.frequency == p.frequency\n"
                               "ex = ir.Span(r.start, r.end, r.step)\n"
                               "assert r == ex and list(r) == list(ex) and len(r) == len(ex) == len(list(r))\n"
                               "assert all(type(t) is type(p) for t in r) and all(r[i] == t for i, t in enumerate(ex))\n"
                               "assert sp.needs_resolve, 'resolve changed the open span itself'")
            # a context whose own two dates have different frequencies, fully open span (both dates are used)
            if f != g:
                ckind = rng.choice(["ns", "rc"])
                cxt = {"ns": "types.SimpleNamespace(start_date=p, end_date=a)", "rc": "ir.dates.ResolutionContext(p, a)"}[ckind]
                op = rng.choice(["ir.Span(None, None)", f"ir.Span(None, None, {-c})", f"ir.Span(ir.start + {k}, ir.end - 1, {c})",
                                 f"ir.Span(ir.end, ir.start + {k}, {-c})"])
                ck.check("mixed:resolve:context-ends", "a fully open span resolved against a context whose start and end dates "
                         "have different frequencies is not rejected", {"span": op, "start_date": P, "end_date": A, "context": ckind},
                         f"p = {P}; a = {A}\ncx = {cxt}\nsp = {op}\n" + REJECTED.format(call="sp.resolve(cx)"))
    # histories of public operations with resolutions against contexts of random frequencies: whatever happens, a span
    # that says it is resolved has two ends of one frequency (the very pair is accepted by the constructor) and lists it
    for it in range(ctx.scale(250, 2500)):
        f = rng.choice(FREQS)
        p = rand_spec(rng, freq=f, lo=1800, hi=2200, sloppy=0)
        c = rng.choice([1, 1, -1, 2, -3])
        ctor = rng.choice(["ir.Span(p, None, {c})", "ir.Span(None, p, {c})", "ir.Span(None, None, {c})", "ir.Span(p, ir.end + 2, {c})",
                           "ir.Span(ir.start - 1, p, {c})", "ir.Span(p, p + 7, {c})", "ir.Span(ir.start, ir.end - 1, {c})"]).format(c=c)
        lines, ops = [], []
        for j in range(rng.randint(2, 6)):
            r = rng.random()
            kk = rng.randint(-4, 4)
            if r < 0.45:
                g = f if rng.random() < 0.4 else rng.choice(FREQS)
                a = shifted_spec(rng, p, rng.randint(-5, 5)) if g == f else rand_spec(rng, freq=g, lo=1800, hi=2200, sloppy=0)
                b = shifted_spec(rng, a, rng.randint(0, 9))
                if rng.random() < 0.12:
                    b = rand_spec(rng, freq=rng.choice(FREQS), lo=1800, hi=2200, sloppy=0)
                    kind = rng.choice(["ns", "rc"])
                else:
                    kind = rng.choice(CTX_KINDS)
                op = f"sp = sp.resolve({py_context(kind, py_spec(a), py_spec(b))})"
            elif r < 0.75:
                op = rng.choice([f"sp.shift({kk})", "sp.reverse()", f"sp.shift_start({kk})", f"sp.shift_end({kk})"])
            else:
                op = rng.choice([f"sp = sp + {kk}", f"sp = sp - {kk}", "sp = sp.reversed()", f"sp = sp >> {abs(kk) + 1}",
                                 f"sp = sp << {-abs(kk) - 1}"])
            ops.append(op)
            lines.append(f"try:\n    {op}\nexcept Exception as e:\n    pass\ninv(sp, {j})")
        ck.check("mixed:history", "after a sequence of public span operations (with resolutions against contexts of other "
                 "frequencies) a span that claims to be resolved has ends / periods of different frequencies",
                 {"p": py_spec(p), "span": ctor, "ops": ops},
                 f"import numpy as np\np = {py_spec(p)}\nsp = {ctor}\n"
                 "def inv(sp, j):\n"
                 "    if sp.needs_resolve:\n        return\n"
                 "    assert type(sp.start) is type(sp.end), (j, repr(sp))\n"
                 "    assert sp.start.frequency == sp.end.frequency == sp.frequency, (j, repr(sp))\n"
                 "    ex = ir.Span(sp.start, sp.end, sp.step)      # the constructor accepts exactly this pair\n"
                 "    assert ex == sp and len(ex) == len(sp) and all(type(t) is type(sp.start) for t in sp), (j, repr(sp))\n"
                 "inv(sp, -1)\n" + "\n".join(lines))


def falsify(ctx, hints):
    import irispie as ir
    rng = ctx.rng
    ck = Checker()
    n = ctx.scale(600, 4000)
    SEGM = {1: 12, 2: 6, 4: 3, 12: 1}
    # directed corpus run first: the periods around the end of February of century years (leap and non-leap by the 400
    # rule), ordinary leap and non-leap years, for every calendar frequency -- random years hit them too rarely
    corpus = []
    for y in (1600, 1700, 1900, 2000, 2100, 2200, 2400, 2023, 2024, 4, 100, 400):
        corpus += [(12, ("reg", 12, y, 2)), (12, ("reg", 12, y, 3)), (4, ("reg", 4, y, 1)), (2, ("reg", 2, y, 1)),
                   (365, ("day", y, 2, 28)), (365, ("day", y, 3, 1)), (365, ("doy", y, 60))]
    for it in range(n + len(corpus)):
        if it < len(corpus):
            f, s = corpus[it]
        else:
            f = rng.choice(FREQS)
            s = rand_spec(rng, freq=f, lo=2, hi=9998, sloppy=0)
        P = py_spec(s)
        k = rand_offset(rng) if f == 0 else rng.randint(-300, 300)
        q = shifted_spec(rng, s, rng.randint(-40, 40))
        Q = py_spec(q)
        pre = f"p = {P}; q = {Q}; n = {k}\n"
        # 1. integers: arithmetic, order, hashing
        ck.check("arith:add_sub", "p + (q - p) != q", {"p": P, "q": Q}, pre + "assert p + (q - p) == q")
        ck.check("arith:sub_add", "(p + n) - p != n", {"p": P, "n": k}, pre + "assert (p + n) - p == n and (p - n) + n == p")
        ck.check("arith:assoc", "(p + n) + 1 != p + (n + 1)", {"p": P, "n": k}, pre + "assert (p + n) + 1 == p + (n + 1) and n + p == p + n")
        ck.check("order:cmp", "comparison operators disagree with the sign of p - q", {"p": P, "q": Q},
                 pre + "d = p - q\nassert (p == q) == (d == 0) and (p != q) == (d != 0) and (p < q) == (d < 0) "
                       "and (p <= q) == (d <= 0) and (p > q) == (d > 0) and (p >= q) == (d >= 0)")
        ck.check("hash:eq", "equal periods hash differently", {"p": P, "n": k},
                 pre + "r = (p + n) - n\nassert r == p and hash(r) == hash(p) and len({p, r}) == 1")
        # 2. mixing frequencies is rejected
        g = rng.choice([x for x in FREQS if x != f])
        O = py_spec(rand_spec(rng, freq=g, lo=2, hi=9998, sloppy=0))
        for op in ("p - o", "p == o", "p != o", "p < o", "p <= o", "p > o", "p >= o", "ir.Span(p, o)",
                   "ir.periods_from_until(p, o)", "p == None"):
            snippet = (f"p = {P}; o = {O}\ntry:\n    r = {op}\nexcept Exception as e:\n    r = e\n"
                       f"assert isinstance(r, Exception), 'returned ' + repr(r)")
            ck.check(f"mixed:{op}", f"`{op}` across frequencies is not rejected", {"p": P, "o": O}, snippet)
        if f == 0:
            continue
        # 3-5. calendar consistency
        if f in REG:
            m = SEGM[f]
            ck.check(f"tiling:{f}", "consecutive periods leave a gap or overlap / start <= middle <= end fails", {"p": P},
                     pre + "one = dt.timedelta(days=1)\n"
                           "a, b, c = (p.to_python_date(position=x) for x in ('start', 'middle', 'end'))\n"
                           "assert a <= b <= c and c + one == (p + 1).to_python_date(position='start') "
                           "and (p - 1).to_python_date(position='end') + one == a")
            ck.check(f"accessor:{f}", "year/segment disagree with the calendar dates", {"p": P},
                     pre + "a = p.to_python_date(position='start'); c = p.to_python_date(position='end')\n"
                           f"assert p.year == a.year == c.year and p.segment == (a.month - 1) // {m} + 1 == (c.month - 1) // {m} + 1\n"
                           "assert p.to_year_segment() == (p.year, p.segment) and a.day == 1 and (c + dt.timedelta(days=1)).day == 1\n"
                           f"assert ir.Period.from_year_segment(ir.Frequency({f}), p.year, p.segment) == p")
            ck.check(f"shift:kw:{f}", "a keyword shift lands on the wrong period", {"p": P},
                     pre + f"f = {f}\nassert p.shift('yoy') == p - f and p.shift('yoy').segment == p.segment and p.shift('yoy').year == p.year - 1\n"
                           "s = p.shift('soy'); assert s.year == p.year and s.segment == 1 and s == p.shift('boy') and s <= p\n"
                           "e = p.shift('eopy'); assert e.year == p.year - 1 and e.segment == f and e + 1 == s\n"
                           "t = p.shift('tty'); assert (t is None and p.segment == 1) or (p.segment > 1 and t == p - 1)\n"
                           "assert p.shift(n) == p + n and p.shift() == p - 1")
        else:
            ck.check("tiling:365", "consecutive days are not consecutive dates", {"p": P},
                     pre + "one = dt.timedelta(days=1)\n"
                           "a, b, c = (p.to_python_date(position=x) for x in ('start', 'middle', 'end'))\n"
                           "assert a == b == c and c + one == (p + 1).to_python_date() and a.toordinal() == p.serial")
            ck.check("accessor:365", "year/segment of a daily period disagree with the calendar date", {"p": P},
                     pre + "a = p.to_python_date()\nassert p.year == a.year and p.to_ymd() == (a.year, a.month, a.day)\n"
                           "assert p.segment == a.timetuple().tm_yday and p.to_year_segment() == (a.year, a.timetuple().tm_yday)\n"
                           "assert ir.dd(p.year, None, p.segment) == p")
            ck.check("shift:kw:365", "a keyword shift of a daily period lands on the wrong day", {"p": P},
                     pre + "a = p.to_python_date()\nassert p.shift('yoy') == p - 365\n"
                           "s = p.shift('soy'); assert s.to_python_date() == dt.date(a.year, 1, 1) and s == p.shift('boy')\n"
                           "e = p.shift('eopy'); assert e.to_python_date() == dt.date(a.year - 1, 12, 31) and e + 1 == s\n"
                           "t = p.shift('tty'); assert (t is None and p == s) or (p > s and t == p - 1)")
    # 5b. periods built from calendar dates, every calendar frequency, every public entry point: the period contains
    #     the date, its year/segment agree with the calendar, and all entry points agree with one another.
    #     Every month is visited in every run (first, last and a random day), in a common, a leap and a random year.
    years = [rng.choice([1999, 2001, 2023, 2100]), rng.choice([2000, 2024, 1600]), rng.randint(2, 9998)]
    if ctx.thorough:
        years += [rng.randint(2, 9998) for _ in range(25)]
    for y in years:
        for m in range(1, 13):
            dim = calendar.monthrange(y, m)[1]
            for d in sorted({1, dim, rng.randint(1, dim)}):
                for f in (1, 2, 4, 12, 365):
                    seg = f"(a.month - 1) // {12 // f} + 1" if f in REG else "a.timetuple().tm_yday"
                    ck.check(f"fromdate:{f}", "a period built from a calendar date does not contain that date / its year or "
                             "segment disagree with the calendar / the date-based constructors disagree",
                             {"date": [y, m, d], "frequency": f},
                             f"a = dt.date({y}, {m}, {d}); F = ir.Frequency({f}); iso = a.isoformat()\n"
                             "ps = {'from_python_date': ir.Period.from_python_date(a, frequency=F),\n"
                             "      'from_iso_string': ir.Period.from_iso_string(iso, frequency=F),\n"
                             "      'from_ymd': ir.Period.from_ymd(F, a.year, a.month, a.day),\n"
                             "      'periods_from_python_dates': ir.periods_from_python_dates([a], frequency=F)[0],\n"
                             "      'periods_from_iso_strings': ir.periods_from_iso_strings([iso], frequency=F)[0],\n"
                             "      'daily.refrequent': ir.dd(a.year, a.month, a.day).refrequent(F),\n"
                             "      'daily.convert(end)': ir.dd(a.year, a.month, a.day).convert(F, position='end'),\n"
                             "      'refrequent(daily)': ir.refrequent(ir.dd(a.year, a.month, a.day), F)}\n"
                             + ("" if f == 365 else
                                "for pos in ('start', 'middle', 'end'):\n"
                                "    ps['monthly.refrequent ' + pos] = ir.mm(a.year, a.month).refrequent(F, position=pos)\n"
                                if f != 12 else "ps['monthly'] = ir.mm(a.year, a.month)\n") +
                             "for how, p in ps.items():\n"
                             "    lo = p.to_python_date(position='start'); hi = p.to_python_date(position='end')\n"
                             "    assert p.frequency == F and lo <= a <= hi, (how, str(p), str(lo), str(hi))\n"
                             f"    assert p.year == a.year and p.segment == {seg}, (how, str(p), p.year, p.segment)\n"
                             f"    assert p.to_year_segment() == (a.year, {seg}) and p == ps['from_ymd'], (how, str(p))\n"
                             "    one = dt.timedelta(days=1)\n"
                             "    assert (p - 1).to_python_date(position='end') + one == lo and hi + one == (p + 1).to_python_date(position='start'), how")
    for f in (1, 2, 4, 12, 365):
        ck.check(f"fromdate:today:{f}", "Period.today does not contain today's date", {"frequency": f},
                 f"F = ir.Frequency({f}); a = dt.date.today(); p = ir.Period.today(F)\n"
                 "assert p.to_python_date(position='start') <= a <= p.to_python_date(position='end') and p.year == a.year")
    # 6. spans
    for it in range(ctx.scale(600, 4000)):
        f = rng.choice(FREQS)
        s = rand_spec(rng, freq=f, lo=1800, hi=2200, sloppy=0)
        c = rng.choice([1, 1, -1, 2, 3, -2, -3, 5, -7])
        dist = rng.randint(0, 30) * (1 if c > 0 else -1)
        if rng.random() < 0.1:
            dist = -dist
        e = shifted_spec(rng, s, dist)
        P, E = py_spec(s), py_spec(e)
        pre = f"p = {P}; e = {E}; c = {c}\nsp = ir.Span(p, e, c)\n"
        want = expected_listing(0, dist, c)       # offsets from p
        W = repr(want)
        ck.check("span:list", "list(span) is not start, start+step, ... up to end", {"start": P, "end": E, "step": c},
                 pre + f"want = [p + k for k in {W}]\nassert list(sp) == want, list(sp)\n"
                       "assert all((t - p) % c == 0 and min(p, e) <= t <= max(p, e) for t in sp)")
        ck.check("span:len_index", "len / indexing / slicing disagree with iteration", {"start": P, "end": E, "step": c},
                 pre + "l = list(sp)\nassert len(sp) == len(l)\n"
                       "assert all(sp[i] == l[i] and sp[i - len(l)] == l[i] for i in range(len(l)))\n"
                       "assert list(sp[:]) == l and list(sp[1:]) == l[1:] and list(sp[:2]) == l[:2]\n"
                       "try:\n    sp[len(l)]; ok = False\nexcept IndexError:\n    ok = True\nassert ok")
        ck.check("span:reverse", "reversal does not enumerate end, end-step, ... down to start / is not an involution",
                 {"start": P, "end": E, "step": c},
                 pre + f"r = sp.reversed()\nwant = [e + k for k in {expected_listing(0, -dist, -c)!r}]\n"
                       "assert list(r) == want and r.start == e and r.end == p and r.step == -c\n"
                       "assert r.reversed() == sp and list(r.reversed()) == list(sp)\n"
                       "if (e - p) % c == 0: assert list(r) == list(sp)[::-1]")
        k = rng.randint(-9, 9)
        ck.check("span:shift", "shifting a span does not shift its periods", {"start": P, "end": E, "step": c, "by": k},
                 pre + f"k = {k}\nl = list(sp)\nt = sp + k\nassert list(t) == [x + k for x in l] and len(t) == len(l)\n"
                       "sp.shift(k); assert list(sp) == [x + k for x in l] and sp == t\n"
                       "u = sp - k; assert list(u) == l")
        # in-place histories against a pure recomputation on offsets
        ops, a0, e0, c0 = [], 0, dist, c
        for _ in range(rng.randint(1, 7)):
            t = rng.choice(["reverse", "shift", "shift_start", "shift_end"])
            kk = rng.randint(-6, 6)
            if t == "reverse":
                ops.append("sp.reverse()"); a0, e0, c0 = e0, a0, -c0
            elif t == "shift":
                ops.append(f"sp.shift({kk})"); a0 += kk; e0 += kk
            elif t == "shift_start":
                ops.append(f"sp.shift_start({kk})"); a0 += kk
            else:
                ops.append(f"sp.shift_end({kk})"); e0 += kk
        ck.check("span:history", "a sequence of in-place mutations leaves the span in the wrong state",
                 {"start": P, "end": E, "step": c, "ops": ops},
                 pre + "\n".join(ops) + f"\nassert sp.start == p + {a0} and sp.end == p + {e0} and sp.step == {c0}\n"
                                       f"assert list(sp) == [p + k for k in {expected_listing(a0, e0, c0)!r}]")
        # open-ended spans resolved against a context
        o1, o2 = rng.randint(-3, 3), rng.randint(-3, 3)
        fwd = c > 0
        lo_, hi_ = (0, abs(dist)) if fwd else (abs(dist), 0)
        ck.check("span:resolve", "an open-ended span does not resolve to the context's dates", {"start": P, "end": E, "step": c},
                 f"p = {P}; e = p + {abs(dist)}; c = {c}\n"
                 f"cx = types.SimpleNamespace(start_date=p, end_date=e)\n"
                 f"a = ir.Span(None, None, c); assert a.needs_resolve and not a\n"
                 f"r = a.resolve(cx); assert list(r) == list(ir.Span({'p, e' if fwd else 'e, p'}, c))\n"
                 f"b = ir.Span(ir.start + {o1}, ir.end + {o2}, {abs(c)}).resolve(cx)\n"
                 f"assert b.start == p + {o1} and b.end == e + {o2} and not b.needs_resolve\n"
                 f"h = ir.Span(None, e, {abs(c)}); h.shift(2); h.reverse(); g = h.resolve(cx)\n"
                 f"h2 = ir.Span(None, e, {abs(c)}).resolve(cx); h2.shift(2); h2.reverse(); assert g == h2 and list(g) == list(h2)")
    # 7. open-ended spans resolved against contexts of EVERY frequency, through every public entry point that resolves a
    #    span: mixing frequencies must be rejected, a same-frequency resolution must agree with the explicit span
    falsify_resolution(ctx, ck)
    # exhaustive calendar sweep (thorough tier: every regular period of years 2..9998, every 7th day)
    if ctx.thorough:
        one = dt.timedelta(days=1)
        for f in REG:
            cons = {1: ir.yy, 2: ir.hh, 4: ir.qq, 12: ir.mm}[f]
            p = cons(2, 1)
            last = cons(9998, f)
            prev_end = (p - 1).to_python_date(position="end")
            while p <= last:
                a, b, c_ = (p.to_python_date(position=x) for x in POS)
                ok = prev_end + one == a and a <= b <= c_ and p.year == a.year == c_.year \
                    and p.segment == (a.month - 1) // SEGM[f] + 1
                if not ok:
                    ck.note(f"tiling:{f}", "exhaustive sweep: tiling/accessors fail", {"p": repr(p)},
                            [str(prev_end), str(a), str(b), str(c_), p.year, p.segment], None,
                            f"p = ir.{repr(p)}; print(p.to_python_date(position='start'), (p - 1).to_python_date(position='end'))")
                    break
                prev_end = c_
                p = p + 1
            ck.count[f"sweep:{f}"] = (9997 * f)
    if ctx.thorough:
        # every day of 60 years through from_python_date into every regular frequency
        for y in sorted({1, 2, 1900, 2000, 2024, 9998, 9999} | {rng.randint(1, 9999) for _ in range(53)}):
            a = dt.date(y, 1, 1)
            while a.year == y:
                for f in REG:
                    p = ir.Period.from_python_date(a, frequency=ir.Frequency(f))
                    if not (p.to_python_date(position="start") <= a <= p.to_python_date(position="end")
                            and p.year == y and p.segment == (a.month - 1) // SEGM[f] + 1):
                        ck.note(f"fromdate:{f}", "exhaustive sweep: a period built from a date does not contain it",
                                {"date": a.isoformat(), "frequency": f}, [str(p), p.year, p.segment], None,
                                f"p = ir.Period.from_python_date(dt.date({a.year}, {a.month}, {a.day}), frequency=ir.Frequency({f}))\n"
                                f"assert p.to_python_date(position='start') <= dt.date({a.year}, {a.month}, {a.day}) "
                                "<= p.to_python_date(position='end')")
                a += dt.timedelta(days=1)
        ck.count["sweep:fromdate"] = 60 * 365 * 4
    seen = {}
    for f_ in ck.fails:
        seen.setdefault(f_.key, f_)
    return list(seen.values()), {"checks": ck.count}


def replay(ctx, failure: dict):
    snippet = failure.get("repro") or ""
    if not snippet:
        return None
    r = run_snippet(snippet)
    if r is None:
        return None
    return Failure(failure["key"], failure["what"], failure["input"], r, failure.get("required"), snippet)
