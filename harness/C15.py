"""C15  Model-implied autocovariances solve the solved model's Lyapunov equation."""
from __future__ import annotations

import math
import re
from unittest import mock

import numpy as np

from vf import core
from vf.core import CorrResult, Disagreement, Failure

ID = "C15"
PROPS = "props/C15.v"
GENERATED: list = []
CASE_DEPS = ["lib/MxC15.vo", "model/Acov.vo"]
ALLOWED_AXIOMS: set = set()          # every theorem is closed under the global context
TRUSTED = [
    "harness/C15.py: model generator, recording of scipy.linalg.solve_discrete_lyapunov from outside, rendering of "
    "doubles as exact dyadic literals, comparison",
    "Bignums (BigZ) arithmetic evaluated by vm_compute for the executable instance of the matrix interface",
    "scipy.linalg.solve_discrete_lyapunov: contract X = A X A' + Q (and symmetry) checked on every recorded call in "
    "exact arithmetic inside Coq, not verified",
    "the first-order solution (QZ, Schur, lstsq of fords/solutions.py) is an input of this property (C01 is about it); "
    "the falsifier re-derives T, P, Z, H from the equations for backward-looking models",
]
ASSUMPTIONS = [
    "theorems are over an arbitrary real closed field (no rounding); the same model text evaluated on exact dyadic "
    "rationals is compared with the floating-point implementation within 1e-7*(s+|x|), s = largest shock variance "
    "(autocovariances; keeps the comparison meaningful for stds of 1e-6..1e-9) and 1e-7*(1+|x|) (autocorrelations)",
    "uniqueness of the Lyapunov solution (stable Ta_stable) is a premise of the scaling theorem (no spectral theory "
    "in MathComp 1.15); covariance is defined algebraically (loadings on uncorrelated primitive shocks), not "
    "measure-theoretically",
    "generated models have linear equations (declared linear, or non-linear with some variables in logs), 1-4 core "
    "variables with lags <= 3 and occasional leads, optional unit-root block (random walks, I(2), differences, "
    "cointegrated pairs, measurement equations in which the unit root cancels exactly), 0-3 measurement equations, 1-2 "
    "parameter variants, stds of ordinary size or all scaled by 1e-6..1e-9 (falsifier also: one nearly switched-off shock, "
    "for which only the self-consistency of get_acorr is demanded); models whose solve() itself refuses "
    "(double unit roots split by rounding) or whose solution is not the unique stable one are rejected (C01)",
]
MANIFEST = {
    "technique": "Coq/MathComp proof over any real closed field of a model of fords/covariances.py written once over an "
                 "abstract matrix interface; the same text run on exact dyadic rationals against get_acov/get_acorr "
                 "(public API) with the Lyapunov solver recorded and checked against its contract",
    "level_text": "Theorems (props/C15.v, all closed under the global context): the order-0 matrix solves the Lyapunov "
                  "equation of the SQUARE solution on every combination of variables not loaded on unit roots (the whole "
                  "matrix for a stationary model), with the measurement and cross blocks Z G Z'+H Sw H', G Z', Z G; the "
                  "triangular order-0 matrix is the stationary covariance of s_t = A s_(t-1) + E[u;w]; order j is A^j G0 "
                  "and equals cov(x_(t+j), x_t) of any linear process with that law (induction on t and j, covariance as "
                  "loadings on uncorrelated shocks); reported entries are NaN exactly on rows/columns loaded on unit "
                  "roots above the tolerance; scaling the stds by c scales every order by c^2 (uniqueness contract); "
                  "acorr is acov over the two order-0 standard deviations, NaN preserved, unit diagonal, invariant under "
                  "that scaling. Tie: tolerance correspondence through Simultaneous.get_acov/get_acorr on random solved "
                  "models (stationary and unit-root, 1-2 variants, orders 0..4).",
    "level_note": "Trusted: Coq kernel + vm_compute + Bignums; harness. Contracts (premises, checked numerically per call): "
                  "solve_discrete_lyapunov output satisfies its equation and is symmetric; uniqueness of that solution; "
                  "square solution is the rotation of the triangular one (C01). Not modelled: float rounding.",
}

TOL = 1e-7          # |model - impl| <= TOL * (1 + |impl|)
CTOL = 1e-9         # the solver's contract, same form


def translate(ctx):
    return None


# ------------------------------------------------------------------ model generator

def _r(rng, lo, hi, nd=2):
    return round(rng.uniform(lo, hi), nd)


def gen_model(rng, mixed_ok: bool = False) -> dict:
    """A random linear model through source text: structure (JSON-able), parameter and std values per variant."""
    nx = rng.randint(1, 4)
    nvar = 2 if rng.random() < 0.3 else 1
    xs = [f"x{i + 1}" for i in range(nx)]
    params: dict = {}

    def P(fn):
        nm = f"p{len(params) + 1}"
        vals = [fn() for _ in range(nvar)]
        if nvar == 2 and rng.random() < 0.4:
            vals[1] = vals[0]
        params[nm] = vals
        return nm

    teq: list = []      # {"lhs": v, "terms": [[coef, var, shift]], "shocks": [[coef, shock]]}; coef = param name or float
    shocks: list = []
    tv = list(xs)
    budget = rng.choice([0.5, 0.7, 0.85])
    has_lead = False
    for i, x in enumerate(xs):
        nterm = rng.randint(1, 3)
        weights = [rng.uniform(0.2, 1.0) for _ in range(nterm)]
        tot = sum(weights)
        terms = []
        for w in weights:
            share = budget * w / tot
            j = rng.randrange(nx)
            if rng.random() < 0.12 and nx <= 3:
                shift = 1; has_lead = True
            else:
                shift = -rng.choice([1, 1, 1, 2, 3])
            sgn = rng.choice([1, 1, -1])
            terms.append([P(lambda s=share, g=sgn: round(g * s * rng.uniform(0.6, 1.0), 3)), xs[j], shift])
        if rng.random() < 0.85 or i == 0:
            sh = f"e{i + 1}"; shocks.append(sh)
            sterms = [[1.0, sh]] if rng.random() < 0.6 else [[P(lambda: _r(rng, 0.3, 1.5)), sh]]
        else:
            sterms = [[P(lambda: _r(rng, 0.3, 1.2)), shocks[rng.randrange(len(shocks))]]]
        # shocks shared by several equations, with non-unit (also negative) loadings
        if rng.random() < 0.3:
            other = [z for z in shocks if z not in [t[1] for t in sterms]]
            if other:
                sterms.append([P(lambda: rng.choice([1, -1]) * _r(rng, 0.2, 1.5)), rng.choice(other)])
        teq.append({"lhs": x, "terms": terms, "shocks": sterms})
    if nx >= 2 and rng.random() < 0.3:      # a common shock entering two or more equations
        shocks.append("ec")
        for e in rng.sample(teq, rng.randint(2, nx)):
            e["shocks"].append([P(lambda: rng.choice([1, -1]) * _r(rng, 0.2, 1.5)), "ec"])
    kinds = {x: "S" for x in xs}          # by construction: S stationary, N loaded on a unit root
    if rng.random() < 0.45:
        tv.append("w1"); kinds["w1"] = "N"
        st = []
        if rng.random() < 0.6:
            shocks.append("ew1"); st = [[1.0, "ew1"]]
        if rng.random() < 0.3:
            st = st + [[P(lambda: rng.choice([1, -1]) * _r(rng, 0.2, 1.2)), rng.choice([z for z in shocks if z != "ew1"])]]
        teq.append({"lhs": "w1", "terms": [[1.0, "w1", -1], [P(lambda: _r(rng, 0.2, 1.0)), rng.choice(xs), 0]], "shocks": st})
        pool = ["d1", "s1", "w2", "co"] + (["i2"] if rng.random() < 0.3 else [])
        for extra in rng.sample(pool, rng.randint(0, 3)):
            if extra == "d1":
                tv.append("d1"); kinds["d1"] = "S"
                teq.append({"lhs": "d1", "terms": [[1.0, "w1", 0], [-1.0, "w1", -1]], "shocks": []})
            elif extra == "s1":
                tv.append("s1"); kinds["s1"] = "N"
                teq.append({"lhs": "s1", "terms": [[P(lambda: _r(rng, 0.3, 1.0)), "w1", 0], [1.0, rng.choice(xs), 0]], "shocks": []})
            elif extra == "w2":
                tv.append("w2"); kinds["w2"] = "N"; shocks.append("ew2")
                teq.append({"lhs": "w2", "terms": [[1.0, "w2", -1], [P(lambda: _r(rng, 0.2, 0.9)), rng.choice(xs), -1]],
                            "shocks": [[1.0, "ew2"]]})
            elif extra == "i2":
                tv.append("i2"); kinds["i2"] = "N"
                teq.append({"lhs": "i2", "terms": [[1.0, "i2", -1], [P(lambda: _r(rng, 0.2, 0.9)), "w1", 0]], "shocks": []})
            elif extra == "co":
                tv += ["v1", "co"]; kinds["v1"] = "N"; kinds["co"] = "S"
                teq.append({"lhs": "v1", "terms": [[1.0, "w1", 0], [1.0, rng.choice(xs), 0]], "shocks": []})
                teq.append({"lhs": "co", "terms": [[1.0, "v1", 0], [-1.0, "w1", 0]], "shocks": []})
    # variables sharing the stochastic trend of w1 with exactly representable coefficients: combinations of them in a
    # measurement equation can cancel the unit root exactly (cointegration)
    sharing = {"w1": 1.0} if "w1" in tv else {}
    if "v1" in tv:
        sharing["v1"] = 1.0
    if "w1" in tv and rng.random() < 0.55:
        if "v1" not in tv:
            tv.append("v1"); kinds["v1"] = "N"; sharing["v1"] = 1.0
            teq.append({"lhs": "v1", "terms": [[1.0, "w1", 0], [1.0, rng.choice(xs), 0]], "shocks": []})
        if rng.random() < 0.5:
            c2 = rng.choice([2.0, 0.5, -1.0, 1.5])
            tv.append("v2"); kinds["v2"] = "N"; sharing["v2"] = c2
            teq.append({"lhs": "v2", "terms": [[c2, "w1", 0], [P(lambda: _r(rng, 0.3, 1.5)), rng.choice(xs), -rng.choice([0, 1])]],
                        "shocks": []})
    mv, meq, mshocks = [], [], []
    n_coint = 0

    def mshock_terms(k):
        """Measurement shocks of equation k: none, its own (unit or free loading), earlier ones (common measurement
        errors with non-unit loadings), or both."""
        st = []
        q = rng.random()
        if q < 0.7:
            ms = f"m{k + 1}"; mshocks.append(ms)
            st.append([1.0, ms] if rng.random() < 0.6 else [P(lambda: _r(rng, 0.3, 1.8)), ms])
        earlier = [z for z in mshocks if z != f"m{k + 1}"]
        if earlier and rng.random() < (0.45 if q < 0.7 else 0.7):
            st.append([P(lambda: rng.choice([1, -1]) * _r(rng, 0.3, 1.8)), rng.choice(earlier)])
        return st
    if rng.random() < 0.75 or (len(sharing) >= 2 and rng.random() < 0.6):
        for k in range(rng.randint(1, 3)):
            if len(sharing) >= 2 and rng.random() < (0.6 if n_coint == 0 else 0.2):
                # a cointegrating measurement variable: a*(cb*A - ca*B) (+ stationary terms) carries no unit root
                y = f"y{k + 1}"; mv.append(y); n_coint += 1
                A, B = rng.sample(sorted(sharing), 2)
                a = rng.choice([1.0, 2.0, 0.5, -1.0])
                terms = [[a * sharing[B], A, 0], [-a * sharing[A], B, 0]]
                if rng.random() < 0.5:
                    terms.append([P(lambda: _r(rng, 0.3, 2.0)), rng.choice([v for v in tv if kinds[v] == "S"]), 0])
                meq.append({"lhs": y, "terms": terms, "shocks": mshock_terms(k)})
                kinds[y] = "S"
                continue
            y = f"y{k + 1}"; mv.append(y)
            terms, nonst = [], False
            for _ in range(rng.randint(1, 2)):
                v = rng.choice(tv)
                nonst = nonst or kinds[v] == "N"
                terms.append([P(lambda: _r(rng, 0.3, 2.0)), v, 0])
            meq.append({"lhs": y, "terms": terms, "shocks": mshock_terms(k)})
            kinds[y] = "N" if nonst else "S"
        if len(mv) >= 2 and rng.random() < 0.35:      # a common measurement error in two or more equations
            mshocks.append("mc")
            for e in rng.sample(meq, rng.randint(2, len(mv))):
                e["shocks"].append([P(lambda: rng.choice([1, -1]) * _r(rng, 0.3, 1.8)), "mc"])
    stds = {}
    for s in shocks + mshocks:
        vals = [_r(rng, 0.1, 2.5) for _ in range(nvar)]
        if s in mshocks and rng.random() < 0.1:
            vals = [0.0] * nvar
        stds["std_" + s] = vals
    # tiny standard deviations: all of them scaled by 1e-6 .. 1e-9 (variances down to 1e-18), or (falsifier only,
    # because one nearly switched-off shock next to ordinary ones is ill-conditioned in floating point) one tiny shock
    tiny = None
    q = rng.random()
    if q < 0.13:
        tiny = rng.choice([1e-6, 1e-7, 1e-8, 1e-9])
        stds = {k: [x * tiny for x in v] for k, v in stds.items()}
    elif mixed_ok and q < 0.22:
        k = "std_" + rng.choice(shocks)
        stds[k] = [rng.choice([1e-6, 1e-7, 1e-8])] * nvar
        tiny = "mixed"
    # a share of the stationary models is declared non-linear, with some variables in logs (same equations in
    # log terms; steady state 0 / 1 assigned): covariances are then those of the logs, default std is 0.01
    nonlinear = ("w1" not in tv) and rng.random() < 0.2
    logvars = [x for x in xs if rng.random() < 0.5] if nonlinear else []
    unassigned = []
    if tiny is None and rng.random() < 0.15:
        k = rng.choice(sorted(stds)); unassigned.append(k)
        stds[k] = [0.01 if nonlinear else 1.0] * nvar       # documented defaults
    def n_shared(eqs):
        cnt = {}
        for e in eqs:
            for _, z in e["shocks"]:
                cnt[z] = cnt.get(z, 0) + 1
        return sum(1 for v in cnt.values() if v >= 2)
    return {"shared_shocks": [n_shared(teq), n_shared(meq)], "tiny": tiny, "cointegrating": n_coint, "coint_names": [e["lhs"] for e in meq if len(e["terms"]) >= 2 and
                                                                     isinstance(e["terms"][0][0], float)], "nonlinear": nonlinear, "logvars": logvars, "nvar": nvar, "params": params, "stds": stds, "unassigned": unassigned, "tv": tv, "mv": mv,
            "shocks": shocks, "mshocks": mshocks, "kinds": kinds, "has_lead": has_lead, "teq": teq, "meq": meq}


def _term(c, v, sh, logs=()):
    cs = "" if c == 1.0 else ("-" if c == -1.0 else f"{c}*")
    x = f"{v}" + ("" if sh == 0 else "{%+d}" % sh)
    return cs + (f"log({x})" if v in logs else x)


def source_of(spec: dict) -> str:
    logs = spec.get("logvars", [])

    def eq(e):
        parts = [_term(c, v, sh, logs) for c, v, sh in e["terms"]] + [_term(c, s, 0) for c, s in e["shocks"]]
        return f"{_term(1.0, e['lhs'], 0, logs)} = " + " + ".join(parts).replace("+ -", "- ") + ";"
    src = "!transition-variables\n    " + ", ".join(spec["tv"]) + "\n"
    if logs:
        src += "!log-variables\n    " + ", ".join(logs) + "\n"
    src += "!transition-shocks\n    " + ", ".join(spec["shocks"]) + "\n"
    if spec["mv"]:
        src += "!measurement-variables\n    " + ", ".join(spec["mv"]) + "\n"
    if spec["mshocks"]:
        src += "!measurement-shocks\n    " + ", ".join(spec["mshocks"]) + "\n"
    if spec["params"]:
        src += "!parameters\n    " + ", ".join(spec["params"]) + "\n"
    src += "!transition-equations\n    " + "\n    ".join(eq(e) for e in spec["teq"]) + "\n"
    if spec["mv"]:
        src += "!measurement-equations\n    " + "\n    ".join(eq(e) for e in spec["meq"]) + "\n"
    return src


def build_model(spec: dict, variant: int | None = None, scale: float | None = None):
    """The solved irispie model of the spec (all variants, or one variant as a singleton model)."""
    import irispie as ir
    m = ir.Simultaneous.from_string(source_of(spec), linear=not spec.get("nonlinear", False))
    if spec.get("nonlinear"):
        m.assign(**{x: (1.0 if x in spec["logvars"] else 0.0) for x in spec["tv"] + spec["mv"]})
    nvar = spec["nvar"] if variant is None else 1
    if nvar > 1:
        m.alter_num_variants(nvar)

    def val(v):
        if variant is not None:
            return v[variant]
        return v if nvar > 1 else v[0]
    m.assign(**{k: val(v) for k, v in spec["params"].items()})
    m.assign(**{k: val(v) for k, v in spec["stds"].items() if k not in spec["unassigned"]})
    m.solve()
    if scale is not None:
        m.rescale_stds(scale)
    return m


def usable(m) -> bool:
    """Generator-side rejection: the first-order solution must be the unique stable one (C01's business)."""
    for s in m.get_solution(unpack_singleton=False):
        if "NO_STABLE" in str(s.system_stability) or "MULTIPLE" in str(s.system_stability):
            return False
        for a in (s.Ta, s.Pa, s.Za, s.H, s.Ua):
            if not np.all(np.isfinite(a)):
                return False
    return True


# ------------------------------------------------------------------ implementation with the solver recorded

class Recorder:
    def __init__(self):
        import scipy.linalg
        self.orig = scipy.linalg.solve_discrete_lyapunov
        self.calls: list = []

    def __call__(self, a, q, *args, **kw):
        x = self.orig(a, q, *args, **kw)
        self.calls.append((np.array(a, dtype=float), np.array(q, dtype=float), np.array(x, dtype=float)))
        return x


def call_acov(m, order: int, style: int):
    """get_acov / get_acorr through the public API, normalised to [variant][order] -> 2-D array."""
    import scipy.linalg
    rec = Recorder()
    with mock.patch.object(scipy.linalg, "solve_discrete_lyapunov", rec):
        if style == 0:
            acov = m.get_acov(up_to_order=order, unpack_singleton=False)
        elif style == 1:
            acov = m.get_acov(order)
            acov = [acov] if m.num_variants == 1 else acov
        else:
            acov = m.get_acov(up_to_order=order)
            acov = [acov] if m.num_variants == 1 else acov
    n_calls = len(rec.calls)
    calls = list(rec.calls)
    if style == 2:
        acorr = m.get_acorr(acov=(acov[0] if m.num_variants == 1 else acov))
        acorr = [acorr] if m.num_variants == 1 else acorr
    elif style == 1:
        acorr = m.get_acorr(up_to_order=order)
        acorr = [acorr] if m.num_variants == 1 else acorr
    else:
        acorr = m.get_acorr(up_to_order=order, unpack_singleton=False)
    return acov, acorr, calls, n_calls


def run_impl(spec: dict, order: int, style: int) -> dict:
    """Everything the model needs for every variant + the implementation's outputs."""
    m = build_model(spec)
    if not usable(m):
        return {"skip": "solution not unique/stable"}
    acov, acorr, calls, n_calls = call_acov(m, order, style)
    sols = m.get_solution(unpack_singleton=False)
    sv = m.solution_vectors
    q2n = m.create_qid_to_name()
    shifts = [int(t.shift) for t in tuple(sv.transition_variables) + tuple(sv.measurement_variables)]
    u_names = [q2n[t.qid] for t in sv.transition_shocks]
    w_names = [q2n[t.qid] for t in sv.measurement_shocks]
    tol = float(m.get_tolerance("eigenvalue"))
    names = list(m.get_acov_dimension_names().rows)
    out = {"variants": [], "names": names, "shifts": shifts, "solver_calls": n_calls}
    for v, s in enumerate(sols):
        nu = int(s.num_unit_roots)
        na = s.Ta.shape[0]
        std_u = [float(spec["stds"]["std_" + n][v]) for n in u_names]
        std_w = [float(spec["stds"]["std_" + n][v]) for n in w_names]
        if len(calls) == len(sols):
            X = calls[v][2]; xsrc = "recorded"
        else:   # the implementation no longer calls scipy's solver: any output meeting the contract will do
            import scipy.linalg
            Pas = s.Pa[nu:, :]
            X = scipy.linalg.solve_discrete_lyapunov(s.Ta[nu:, nu:], Pas @ np.diag(np.array(std_u) ** 2) @ Pas.T)
            xsrc = "harness"
        out["variants"].append({
            "nu": nu, "ns": na - nu, "ny": int(s.Z.shape[0]), "ne": int(s.Pa.shape[1]), "nw": int(s.H.shape[1]),
            "Ta": s.Ta, "Pa": s.Pa, "Za": s.Za, "H": s.H, "Ua": s.Ua, "tol": tol, "std_u": std_u, "std_w": std_w,
            "X": np.array(X, dtype=float).reshape(na - nu, na - nu), "xsrc": xsrc,
            "scale": (max([x * x for x in std_u + std_w] + [0.0]) or 1.0),
            "acov": [np.asarray(a, dtype=float) for a in acov[v]], "acorr": [np.asarray(a, dtype=float) for a in acorr[v]],
        })
    return out


# ------------------------------------------------------------------ Coq rendering

def cf(x: float) -> str:
    x = float(x)
    return "nan" if not math.isfinite(x) else core.coq_float(x)


def mat(a) -> str:
    a = np.asarray(a, dtype=float)
    if a.ndim != 2:
        a = a.reshape(a.shape[0], -1) if a.ndim else a.reshape(1, 1)
    return "[" + "; ".join("[" + "; ".join(cf(v) for v in row) + "]" for row in a.tolist()) + "]"


def omat(a) -> str:
    a = np.asarray(a, dtype=float)
    if a.ndim != 2:
        return "[[nan]; [nan; nan]]"      # a wrong shape never matches
    return mat(a)


def coq_case(v: dict, shifts, order: int) -> str:
    f = [
        f"c_nu := {v['nu']}%nat", f"c_ns := {v['ns']}%nat", f"c_ny := {v['ny']}%nat", f"c_ne := {v['ne']}%nat",
        f"c_nw := {v['nw']}%nat", f"c_Ta := {mat(v['Ta'])}", f"c_Pa := {mat(v['Pa'])}", f"c_Za := {mat(v['Za'])}",
        f"c_H := {mat(v['H'])}", f"c_Ua := {mat(v['Ua'])}", f"c_tol := {cf(v['tol'])}",
        "c_stdu := [" + "; ".join(cf(x) for x in v["std_u"]) + "]",
        "c_stdw := [" + "; ".join(cf(x) for x in v["std_w"]) + "]",
        f"c_X := {mat(v['X'])}",
        "c_shifts := [" + "; ".join(f"{s}%Z" if s >= 0 else f"({s})%Z" for s in shifts) + "]",
        f"c_order := {order}%nat", f"c_scale := {cf(v['scale'])}",
        "c_acov := [" + ";\n   ".join(omat(a) for a in v["acov"]) + "]",
        "c_acorr := [" + ";\n   ".join(omat(a) for a in v["acorr"]) + "]",
    ]
    return "{| " + ";\n  ".join(f) + " |}"


HEADER = """From Coq Require Import ZArith List Bool PrimFloat.
From Verif.lib Require Import MxC15.
From Verif.model Require Import Acov.
Import ListNotations.
Set Printing Width 1000000.
Set Printing Depth 1000000.
"""


def shard_text(cases: list[str]) -> str:
    return (HEADER + "Definition cases : list ccase := [\n" + ";\n".join(cases) + "\n].\n"
            + f"Eval vm_compute in (failing_codes (map (run_case (dyf0 {cf(CTOL)}) (dyf0 {cf(TOL)})) cases) 0).\n")


CODE = {1: "lyapunov-contract", 2: "get_acov", 3: "get_acorr"}


# ------------------------------------------------------------------ correspondence

def correspondence(ctx) -> CorrResult:
    rng = ctx.rng
    import time
    t0 = time.time()
    n_models = ctx.scale(150, 3000)
    per = ctx.scale(13, 16)
    res = CorrResult()
    dist = {"variants": {}, "order": {}, "unit_roots": {}, "alpha_size": {}, "measurement_vars": {}, "style": {},
            "with_lead": 0, "nonlinear_with_log_variables": 0, "cointegrating_measurement_variables": 0, "models_with_shared_transition_shock": 0,
            "models_with_shared_measurement_shock": 0, "tiny_stds": {}, "rejected_at_solve": 0, "rejected_not_unique": 0, "nan_rows": 0, "solver_recorded": 0,
            "solver_recomputed_by_harness": 0}
    entries = []        # (coq text, meta)
    tries = 0
    while len({e[1]["model"] for e in entries}) < n_models and tries < 3 * n_models:
        tries += 1
        spec = gen_model(rng)
        order = rng.choice([0, 1, 1, 2, 2, 3, 4])
        style = rng.choice([0, 0, 1, 2])
        try:
            out = run_impl(spec, order, style)
        except Exception as e:  # noqa
            if "Inconsistency in classification of unit roots" in str(e):
                dist["rejected_at_solve"] += 1        # the solver's own refusal (double unit roots); C01
                continue
            res.disagreements.append(Disagreement("get_acov/get_acorr raises", {"spec": spec, "order": order, "style": style},
                                                  "a tuple of matrices per variant", f"{type(e).__name__}: {e}"[:300]))
            continue
        if "skip" in out:
            dist["rejected_not_unique"] += 1
            continue
        mid = tries
        for vi, v in enumerate(out["variants"]):
            a0 = v["acov"][0]
            meta = {"model": mid, "variant": vi, "spec": spec, "order": order, "style": style,
                    "nontrivial": bool(a0.ndim == 2 and a0.shape[0] >= 2 and np.isfinite(a0).sum() >= 4 and order >= 1)}
            entries.append((coq_case(v, out["shifts"], order), meta))
            dist["unit_roots"][str(v["nu"])] = dist["unit_roots"].get(str(v["nu"]), 0) + 1
            dist["alpha_size"][str(v["nu"] + v["ns"])] = dist["alpha_size"].get(str(v["nu"] + v["ns"]), 0) + 1
            dist["measurement_vars"][str(v["ny"])] = dist["measurement_vars"].get(str(v["ny"]), 0) + 1
            dist["nan_rows"] += int(np.isnan(np.diag(v["acov"][0])).sum()) if v["acov"][0].ndim == 2 else 0
            dist["solver_recorded" if v["xsrc"] == "recorded" else "solver_recomputed_by_harness"] += 1
        dist["variants"][str(spec["nvar"])] = dist["variants"].get(str(spec["nvar"]), 0) + 1
        dist["order"][str(order)] = dist["order"].get(str(order), 0) + 1
        dist["style"][str(style)] = dist["style"].get(str(style), 0) + 1
        dist["with_lead"] += int(spec["has_lead"])
        dist["nonlinear_with_log_variables"] += int(spec["nonlinear"])
        dist["cointegrating_measurement_variables"] += spec["cointegrating"]
        dist["models_with_shared_transition_shock"] += int(spec["shared_shocks"][0] > 0)
        dist["models_with_shared_measurement_shock"] += int(spec["shared_shocks"][1] > 0)
        if spec["tiny"]:
            dist["tiny_stds"][str(spec["tiny"])] = dist["tiny_stds"].get(str(spec["tiny"]), 0) + 1
        if len(res.samples) < 3:
            res.samples.append({"source": source_of(spec), "params": spec["params"], "stds": spec["stds"], "order": order,
                                "names": out["names"], "acov0_variant0": np.round(out["variants"][0]["acov"][0], 6).tolist()})
    res.evaluations = len(entries)
    res.distinct_nontrivial = len({e[0] for e in entries if e[1]["nontrivial"]})
    res.distribution = dist
    res.rule = ("one case = one parameter variant of a random solved linear model (source text -> Simultaneous.from_string, "
                "assign, solve) and one call shape of get_acov/get_acorr (orders 0..4, keyword/positional, unpack_singleton, "
                "acorr from acov=); the Coq model receives Ta, Pa, Za, H, Ua, the number of unit roots, the eigenvalue "
                "tolerance, the std vectors as assigned by the harness (ordered by the shock tokens), the recorded Lyapunov "
                "output and the token shifts; all orders of acov and acorr are compared entrywise (NaN pattern exactly, "
                f"acov within {TOL}*(s+|x|) with s the largest shock variance, acorr within {TOL}*(1+|x|)) after the recorded solver "
                f"output passed its contract within {CTOL}*(s+|x|); nontrivial = "
                "order >= 1 and at least a 2x2 block of finite autocovariances; distinct = distinct case text")
    texts = [shard_text([e[0] for e in entries[i:i + per]]) for i in range(0, len(entries), per)]
    ctx.log(f"implementation: {len(entries)} cases from {len({e[1]['model'] for e in entries})} models in {time.time() - t0:.1f}s; {len(texts)} Coq shards")
    t1 = time.time()
    results = core.run_cases(ctx, texts)
    ctx.log(f"Coq evaluation of the shards: {time.time() - t1:.1f}s")
    res.shards = len(texts)
    for k, (ok, out) in enumerate(results):
        chunk = entries[k * per:(k + 1) * per]
        if not ok:
            res.disagreements.append(Disagreement(f"cases shard {k} does not evaluate", None, out[-600:], None))
            continue
        bodies = core.parse_eval_lists(out)
        if len(bodies) != 1:
            res.disagreements.append(Disagreement(f"cases shard {k}: unparsable output", None, out[-600:], None))
            continue
        for i, code in re.findall(r"\((\d+),\s*(\d+)\)", bodies[0]):
            meta = chunk[int(i)][1]
            res.disagreements.append(Disagreement(
                CODE.get(int(code), "?"),
                {"spec": meta["spec"], "order": meta["order"], "style": meta["style"], "variant": meta["variant"]},
                "exact evaluation of model/Acov.v differs", "see replay of the falsifier on this input"))
    return res


# ------------------------------------------------------------------ falsifier: the property on the public API

def _coef(c, spec, v):
    return float(spec["params"][c][v]) if isinstance(c, str) else float(c)


def structural_solution(spec: dict, v: int):
    """T, P, Z, H of a backward-looking spec derived from the equations (no irispie code): companion form of
    A0 z_t = sum_l A_l z_(t-l) + B u_t,  y_t = C z_t + D w_t; the state is [z_t; z_(t-1); ...]."""
    tv, n = spec["tv"], len(spec["tv"])
    ix = {x: i for i, x in enumerate(tv)}
    L = max([1] + [-t[2] for e in spec["teq"] for t in e["terms"]])
    A0 = np.eye(n); A = [np.zeros((n, n)) for _ in range(L + 1)]
    B = np.zeros((n, len(spec["shocks"])))
    for e in spec["teq"]:
        i = ix[e["lhs"]]
        for c, x, sh in e["terms"]:
            if sh == 0:
                A0[i, ix[x]] -= _coef(c, spec, v)
            else:
                A[-sh][i, ix[x]] += _coef(c, spec, v)
        for c, s in e["shocks"]:
            B[i, spec["shocks"].index(s)] += _coef(c, spec, v)
    A0i = np.linalg.inv(A0)
    T = np.zeros((n * L, n * L)); P = np.zeros((n * L, B.shape[1]))
    for l in range(1, L + 1):
        T[:n, (l - 1) * n:l * n] = A0i @ A[l]
    T[n:, :-n] = np.eye(n * (L - 1))
    P[:n, :] = A0i @ B
    ny = len(spec["mv"])
    Z = np.zeros((ny, n * L)); H = np.zeros((ny, len(spec["mshocks"])))
    for k, e in enumerate(spec["meq"]):
        for c, x, sh in e["terms"]:
            Z[k, ix[x]] += _coef(c, spec, v)
        for c, s in e["shocks"]:
            H[k, spec["mshocks"].index(s)] += _coef(c, spec, v)
    return T, P, Z, H, list(range(n))


def independent_acov(T, P, Z, H, su, sw, order, cur):
    """MA(infinity) autocovariances of the current-dated [xi; y] from the square solution, independent of the
    triangular system: Gamma_j = sum_k Psi_(k+j) Su Psi_k' (+ H Sw H' at j = 0), Psi_k = [T^k P; Z T^k P].
    Returns (list of matrices, status) with status[i] in {'stable', 'unit', '?'} from the decay of T^N."""
    n = T.shape[0]
    N = 3000
    TN = np.linalg.matrix_power(T, N)
    load = np.max(np.abs(np.vstack([TN, Z @ TN])), axis=1) if n else np.zeros(Z.shape[0])
    rows = list(cur) + [n + i for i in range(Z.shape[0])]
    status = ["unit" if load[r] > 1e-6 else ("stable" if load[r] < 1e-12 else "?") for r in rows]
    Su = np.diag(np.asarray(su, dtype=float) ** 2); Sw = np.diag(np.asarray(sw, dtype=float) ** 2)
    S = np.vstack([np.eye(n), Z])
    psi = []
    R = P.copy()
    for k in range(N + order + 1):
        psi.append((S @ R)[rows, :])
        R = T @ R
        if k > 50 and not np.all(np.isfinite(R)):
            break
    K = len(psi) - order - 1
    out = []
    with np.errstate(all="ignore"):
        for j in range(order + 1):
            G = np.zeros((len(rows), len(rows)))
            for k in range(K):
                G += psi[k + j] @ Su @ psi[k].T
            if j == 0:
                Hs = np.vstack([np.zeros((n, H.shape[1])), H])[rows, :]
                G += Hs @ Sw @ Hs.T
            out.append(G)
    return out, status


def _close(a, b, tol, scale=1.0):
    with np.errstate(all="ignore"):
        return bool(np.all(np.abs(a - b) <= tol * (scale + np.abs(b))))


def rng_factor(spec: dict, order: int) -> float:
    """Deterministic choice of the rescaling factor from the case itself (replays must repeat it)."""
    h = (len(spec["params"]) * 7 + len(spec["tv"]) * 3 + order) % 10
    if spec.get("tiny") not in (None, "mixed"):
        return [2.5, 0.4][h % 2]               # already tiny: keep the variances representable
    return [2.5, 0.4, 1e-7, 2.5, 1e-6, 0.4, 1e-8, 2.5, 0.4, 1e-7][h]


def check_spec(spec: dict, order: int, info: dict) -> list[Failure]:
    """The property itself on one model: values, NaN mask, s -> s^2, acorr, variants, names."""
    fails: list[Failure] = []
    src = source_of(spec)
    inp = {"source": src, "params": spec["params"], "stds": spec["stds"], "order": order, "spec": spec}
    repro = (f"m = irispie.Simultaneous.from_string(source, linear={not spec.get('nonlinear', False)}); m.assign(**params, **stds); m.solve(); "
             f"m.get_acov(up_to_order={order})")
    try:
        m = build_model(spec)
        if not usable(m):
            return []
        acov = m.get_acov(up_to_order=order, unpack_singleton=False)
        acorr = m.get_acorr(up_to_order=order, unpack_singleton=False)
        names = list(m.get_acov_dimension_names().rows)
    except Exception as e:  # noqa
        if "Inconsistency in classification of unit roots" in str(e):
            return []
        return [Failure("acov:raises", f"get_acov/get_acorr raises {type(e).__name__}: {e}"[:200], inp, repr(e)[:200],
                        "autocovariance matrices", repro)]
    want_names = [f"log({x})" if x in spec.get("logvars", []) else x for x in spec["tv"] + spec["mv"]]
    info["models"] = info.get("models", 0) + 1
    if names != want_names:
        fails.append(Failure("acov:names", "get_acov_dimension_names is not the current-dated transition and measurement "
                             "variables in declaration order", inp, names, want_names, repro))
        return fails
    nn = len(names)
    if len(acov) != spec["nvar"] or any(len(a) != order + 1 for a in acov) or any(
            np.asarray(x).shape != (nn, nn) for a in acov for x in a):
        fails.append(Failure("acov:layout", "get_acov does not return order+1 square matrices per variant", inp,
                             [[list(np.asarray(x).shape) for x in a] for a in acov], f"{spec['nvar']} x {order + 1} x ({nn},{nn})", repro))
        return fails
    q2n = m.create_qid_to_name(); sv = m.solution_vectors
    for v in range(spec["nvar"]):
        A = [np.asarray(x, dtype=float) for x in acov[v]]
        R = [np.asarray(x, dtype=float) for x in acorr[v]]
        # independent values -------------------------------------------------
        if not spec["has_lead"]:
            T, P, Z, H, cur = structural_solution(spec, v)
            su = [spec["stds"]["std_" + s][v] for s in spec["shocks"]]
            sw = [spec["stds"]["std_" + s][v] for s in spec["mshocks"]]
            how = "equations"
        else:
            s = m.get_solution(unpack_singleton=False)[v]
            T, P, Z, H = s.T, s.P, s.Z, s.H
            cur = [i for i, t in enumerate(sv.transition_variables) if t.shift == 0]
            su = [spec["stds"]["std_" + q2n[t.qid]][v] for t in sv.transition_shocks]
            sw = [spec["stds"]["std_" + q2n[t.qid]][v] for t in sv.measurement_shocks]
            how = "square solution"
        G, status = independent_acov(T, P, Z, H, su, sw, order, cur)
        scale = max([x * x for x in list(su) + list(sw)] + [0.0]) or 1.0       # comparisons relative to the shock variances
        info["value_checks"] = info.get("value_checks", 0) + 1
        plain = spec["tv"] + spec["mv"]
        st = [i for i in range(nn) if status[i] == "stable" and spec["kinds"][plain[i]] == "S"]
        un = [i for i in range(nn) if status[i] == "unit" and spec["kinds"][plain[i]] == "N"]
        info["stable_vars"] = info.get("stable_vars", 0) + len(st)
        info["unit_root_vars"] = info.get("unit_root_vars", 0) + len(un)
        info["cointegrating_measurement_vars"] = info.get("cointegrating_measurement_vars", 0) + \
            len([i for i in st if plain[i] in spec.get("coint_names", [])])
        vin = dict(inp, variant=v, independent_from=how)
        for j in range(order + 1):
            # NaN exactly on the variables loaded on unit roots
            for i in un:
                if np.any(np.isfinite(A[j][i, :])) or np.any(np.isfinite(A[j][:, i])):
                    fails.append(Failure("acov:unit-root-not-nan", f"variable {names[i]} is loaded on a unit root but order {j} "
                                         "reports finite numbers", vin, A[j][i, :].tolist(), "NaN", repro))
            sub = A[j][np.ix_(st, st)]
            if not np.all(np.isfinite(sub)):
                fails.append(Failure("acov:stationary-nan", f"order {j}: stationary variables are reported as NaN/inf", vin,
                                     sub.tolist(), G[j][np.ix_(st, st)].tolist(), repro))
            elif not _close(sub, G[j][np.ix_(st, st)], 1e-6, scale):
                fails.append(Failure(f"acov:order{min(j, 1)}-value", f"order {j} differs from cov(x_t, x_(t-{j})) implied by the "
                                     f"{how} (MA(infinity) sum)", vin, sub.tolist(), G[j][np.ix_(st, st)].tolist(), repro))
        # Lyapunov equation of the square solution, stationary models (scipy on T, P directly)
        sq = m.get_solution(unpack_singleton=False)[v]
        if sq.num_unit_roots == 0 and not fails:
            import scipy.linalg
            su_ = [spec["stds"]["std_" + q2n[t.qid]][v] for t in sv.transition_shocks]
            G0 = scipy.linalg.solve_discrete_lyapunov(sq.T, sq.P @ np.diag(np.array(su_) ** 2) @ sq.P.T)
            curx = [i for i, t in enumerate(sv.transition_variables) if t.shift == 0]
            nx = len(curx)
            info["lyapunov_checks"] = info.get("lyapunov_checks", 0) + 1
            if not _close(A[0][:nx, :nx], G0[np.ix_(curx, curx)], 1e-6, scale):
                fails.append(Failure("acov:order0-lyapunov", "order 0 is not the solution of G = T G T' + P Su P' of the square "
                                     "solution", vin, A[0][:nx, :nx].tolist(), G0[np.ix_(curx, curx)].tolist(), repro))
            if order >= 1 and not _close(A[1][:nx, :nx], (sq.T @ G0)[np.ix_(curx, curx)], 1e-6, scale):
                fails.append(Failure("acov:order1-value", "order 1 is not T G0 of the square solution", vin,
                                     A[1][:nx, :nx].tolist(), (sq.T @ G0)[np.ix_(curx, curx)].tolist(), repro))
        # acorr = acov scaled by the order-0 standard deviations
        info["acorr_checks"] = info.get("acorr_checks", 0) + 1
        d = np.diag(A[0])
        for j in range(order + 1):
            with np.errstate(all="ignore"):
                want = A[j] / np.sqrt(np.outer(d, d))
            pos = np.outer(d > 0, d > 0)
            okv = np.isfinite(want) & pos
            if R[j].shape != A[j].shape or not _close(R[j][okv], want[okv], 1e-8) or \
                    np.any(np.isnan(R[j]) != np.isnan(A[j])):
                fails.append(Failure("acorr:scaling", f"get_acorr order {j} is not get_acov divided by the order-0 standard "
                                     "deviations (NaN kept)", vin, R[j].tolist(), want.tolist(), repro.replace("get_acov", "get_acorr")))
                break
        dg = np.diag(R[0])
        if np.any(np.abs(dg[(d > 0) & np.isfinite(d)] - 1) > 1e-9):
            fails.append(Failure("acorr:diagonal", "the diagonal of the order-0 autocorrelation matrix is not 1", vin,
                                 dg.tolist(), 1.0, repro.replace("get_acov", "get_acorr")))
        # every variant behaves like the singleton model with its parameters
        if spec["nvar"] > 1:
            info["variant_checks"] = info.get("variant_checks", 0) + 1
            m1 = build_model(spec, variant=v)
            A1 = m1.get_acov(up_to_order=order)
            for j in range(order + 1):
                a1 = np.asarray(A1[j], dtype=float)
                if a1.shape != A[j].shape or np.any(np.isnan(a1) != np.isnan(A[j])) or \
                        not _close(np.nan_to_num(a1), np.nan_to_num(A[j]), 1e-7, scale):
                    fails.append(Failure("acov:variants", f"variant {v} of a multi-variant model differs from the singleton model "
                                         "with the same parameters", vin, A[j].tolist(), a1.tolist(), repro))
                    break
    # scaling all standard deviations by s scales every autocovariance by s^2 and leaves the autocorrelations
    # unchanged (public rescale_stds); also with tiny factors, which push every variance below 1e-12
    mixed = spec.get("tiny") == "mixed"
    sc = rng_factor(spec, order)
    m2 = build_model(spec, scale=sc)
    A2 = m2.get_acov(up_to_order=order, unpack_singleton=False)
    R2 = m2.get_acorr(up_to_order=order, unpack_singleton=False)
    info["scaling_checks"] = info.get("scaling_checks", 0) + 1
    info["tiny_scaling_checks"] = info.get("tiny_scaling_checks", 0) + int(sc < 1e-3)
    for v in range(spec["nvar"]):
        scale = max([x[v] ** 2 for x in spec["stds"].values()] + [0.0]) or 1.0
        for j in range(order + 1):
            a, a2 = np.asarray(acov[v][j], dtype=float), np.asarray(A2[v][j], dtype=float)
            r, r2 = np.asarray(acorr[v][j], dtype=float), np.asarray(R2[v][j], dtype=float)
            if np.any(np.isnan(a) != np.isnan(a2)) or \
                    not _close(np.nan_to_num(a2), sc * sc * np.nan_to_num(a), 1e-8, sc * sc * scale):
                fails.append(Failure("acov:scaling", f"rescale_stds({sc}) does not scale order {j} by {sc * sc}",
                                     dict(inp, variant=v, factor=sc), a2.tolist(), (sc * sc * a).tolist(),
                                     f"m.rescale_stds({sc}); m.get_acov(up_to_order={order})"))
                break
            # (one nearly switched-off shock next to ordinary ones: the variances it drives are computed with a large
            #  relative rounding error, so only the self-consistency of acorr above is demanded of such models)
            if not mixed and (np.any(np.isnan(r) != np.isnan(r2)) or not _close(np.nan_to_num(r2), np.nan_to_num(r), 1e-7)):
                fails.append(Failure("acorr:scaling-invariance", f"rescale_stds({sc}) changes the autocorrelations (order {j})",
                                     dict(inp, variant=v, factor=sc), r2.tolist(), r.tolist(),
                                     f"m.rescale_stds({sc}); m.get_acorr(up_to_order={order})"))
                break
    return fails


def falsify(ctx, hints):
    rng = ctx.rng
    fails: list[Failure] = []
    info: dict = {"from_disagreements": 0}
    # 1. the inputs on which model and implementation disagreed: the property residual itself decides
    seen_src = set()
    for d in hints.get("disagreements", [])[:12]:
        inp = d.get("input") or {}
        spec = inp.get("spec")
        if not spec:
            continue
        key = source_of(spec) + repr(spec["params"]) + repr(inp.get("order"))
        if key in seen_src:
            continue
        seen_src.add(key)
        info["from_disagreements"] += 1
        try:
            fails += check_spec(spec, int(inp.get("order", 2)), info)
        except Exception as e:  # noqa
            fails.append(Failure("acov:raises", f"{type(e).__name__}: {e}"[:200], {"source": source_of(spec)}, repr(e)[:200]))
    # 2. search
    n = ctx.scale(45, 900)
    it = 0
    while info.get("models", 0) < n + info["from_disagreements"] and it < 3 * n and len(fails) < 25:
        it += 1
        spec = gen_model(rng, mixed_ok=True)
        order = rng.choice([1, 2, 3, 4])
        try:
            fails += check_spec(spec, order, info)
        except Exception as e:  # noqa
            fails.append(Failure("acov:raises", f"{type(e).__name__}: {e}"[:200], {"source": source_of(spec), "spec": spec,
                                                                                 "order": order}, repr(e)[:200]))
    seen, uniq = set(), []
    for f in fails:
        if f.key not in seen:
            seen.add(f.key); uniq.append(f)
    for f in uniq:      # keep replay files readable
        if isinstance(f.input, dict) and "spec" in f.input:
            f.input = dict(f.input); f.input["spec"] = f.input["spec"]
    return uniq, info


def replay(ctx, failure: dict):
    inp = failure.get("input") or {}
    spec = inp.get("spec")
    if not spec:
        return None
    for f in check_spec(spec, int(inp.get("order", 2)), {}):
        if f.key == failure["key"]:
            return f
    return None
