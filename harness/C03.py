"""C03  Kalman filter, smoother and likelihood equal exact Gaussian conditioning."""
from __future__ import annotations

import os

from vf import core
from vf.core import CorrResult, Failure
from . import kalman_common as kc
from . import kalman_sessions as ks
from translator import measblock as trm

ID = "C03"
PROPS = "props/C03.v"
GENERATED = [trm.OUT]
CASE_DEPS = ["lib/MatOps.vo", "model/Kalman.vo", "lib/KalmanCase.vo", "model/KalmanSession.vo", "lib/KalmanSessionCase.vo"]
ALLOWED_AXIOMS: set = set()          # the theorems are closed under the global context
TRUSTED = [
    "model/KalmanSession.v is hand-written from has_variants.py (alter_num_variants, iter_variants), simultaneous/main.py "
    "(solve -> _solve_variant), simultaneous/_get.py (_gets_solution), fords/kalmans.py (the loop over the variants), "
    "fords/shock_simulators.py and fords/solutions.py (_get_solution_expansion memo lists); it is tied to the code by the session "
    "correspondence (recorded inputs of fords.kalmans.predict and of _get_solution_expansion, memo-list lengths after every "
    "operation) - no translator",
    "model/Kalman.v is hand-written from fords/kalmans.py (predict, Cache.calculate_likelihood, "
    "_calculate_variance_scale, calculate_likelihood_contributions, _OutputStore), simultaneous/_kalmans.py and "
    "fords/covariances.py (symmetrize, std_from_cov); it is tied to the code by the tolerance correspondence only",
    "the executable instance of the model runs in 2^-384 fixed-point arithmetic on Bignums integers (a few tiny cases on exact "
    "rationals); numpy.linalg.inv / det are matched by Gauss-Jordan elimination; logarithms are kept symbolic in Coq and "
    "evaluated by the harness with math.log",
    "the initial mean and MSE used by the filter are recorded from fords/initializers.initialize and checked inside Coq against "
    "(I-Ta) m = Ka and the Lyapunov equation (residual <= 1e-8); scipy's solve_discrete_lyapunov is a black box",
    "the falsifier's reference is dense numpy/scipy linear algebra on the stacked Gaussian built from get_solution()",
]
ASSUMPTIONS = [
    "Gaussian conditioning and densities are defined algebraically (no probability library); the scalar logarithm is a Section "
    "variable with flog(ab) = flog a + flog b for non-zero a, b",
    "theorems are over an arbitrary real field (no rounding); shock covariances symmetric; statements that mention the inverse "
    "of F need F invertible in every period",
    "unit-root models: diffuse_method='fixed_unknown' (the default) with the unit roots identified by the data (the GLS "
    "system is solved by the inverse in the model, by lstsq in the code); the numerical model is that of ONE pass of the "
    "loop over the parameter variants - which solution, values, expansion matrices and data column each pass of each call of a "
    "session is handed is the subject of model/KalmanSession.v (state machine over the variants, black boxes abstract); the impact of anticipated "
    "shocks enters the model as an input that the harness derives from a public simulate() run on a fresh model object",
    "the model follows the code as repaired by fixes/C03_1.patch (contributions carry the variance scale)",
]

MANIFEST = {
    "technique": "Coq proof (MathComp matrices over any real field): Kalman step = Gaussian conditioning, Schur-complement tower "
                 "law, prediction-error decomposition of the likelihood; the same model text evaluated on rationals against "
                 "Simultaneous.kalman_filter; brute-force batch conditioning as falsifier",
    "level_text": "Theorems (props/C03.v), for every state dimension, number of periods, missing-data pattern, time-varying "
                  "system: the literal model of predict's loop body meets its textbook specification (symmetrize, empty "
                  "observation and P-is-None branches included); in every period of every run the update is the conditional "
                  "mean/covariance of the joint Gaussian of (state, observations) given the prediction; conditioning "
                  "sequentially equals conditioning on the stacked vector (mean, covariance, density: Schur complement "
                  "inverse and determinant); the likelihood is the sum of the predictive Gaussian negative log densities; "
                  "by induction over the periods the filtered moments after any number of periods are the conditional moments "
                  "given all data so far and the reported likelihood is the negative log density of the stacked data; "
                  "contributions sum to the total for rescale_variance in {True, False}; empty periods contribute 0 and leave "
                  "the state unchanged; var_scale and the concentrated likelihood formula.",
    "level_note": "Round 4: props C0x_session_* / C0x_call_variant_pointwise / C0x_reachable_solved_is_fresh are about the "
                  "model OBJECT (list of variants with stored solutions and memo lists) over every operation history; the numerical "
                  "black boxes are arbitrary functions there.  PARTIAL: the filter part is complete (one step = conditioning, tower law, and the induction over the periods: "
                  "filtered moments and likelihood = conditioning the stacked Gaussian, C03_filter_is_batch).  Not proved in Coq: "
                  "that the SMOOTHED means/stds (and smoothed shocks) are the conditional moments given all data, and the batch "
                  "characterisation of predicted quantities of shocks; these are checked numerically by the falsifier (dense "
                  "conditioning of the stacked Gaussian) on every run; the smoother's structural identities are under C08.  "
                  "Trusted: Coq kernel + vm_compute, harness, Gauss-Jordan vs LAPACK, recorded initial condition checked "
                  "against its defining equations.  Not covered: rank-deficient GLS systems and diffuse methods other than fixed_unknown, float rounding, "
                  "differences below 1e-7 relative.",
}


def translate(ctx):
    trm.run()


def correspondence(ctx) -> CorrResult:
    n = int(os.environ.get("VERIF_KF_CASES", ctx.scale(250, 1200)))      # development knob
    res = kc.correspondence(ctx, n_cases=n, n_exact=ctx.scale(3, 12) if n >= 100 else 0,
                            max_periods=ctx.scale(8, 24), pid=ID)
    # the model object as a state machine (model/KalmanSession.v) against real call sequences
    ks.session_correspondence(ctx, int(os.environ.get("VERIF_KF_SESSIONS", ctx.scale(24, 300))),
                              max_periods=ctx.scale(8, 16), pid=ID, res=res)
    return res


def falsify(ctx, hints):
    fails: list[Failure] = []
    info = {"cases": 0, "from_disagreements": 0}
    seen = set()

    def run(case):
        for f in (ks.falsify_session_c03(case) if "ops" in case else kc.falsify_c03_case(case)):
            if f.key not in seen:
                seen.add(f.key)
                fails.append(f)
    for d in hints.get("disagreements", [])[:20]:
        case = d.get("input")
        if isinstance(case, dict) and "model" in case:
            info["from_disagreements"] += 1
            try:
                run(case)
            except Exception as e:  # noqa
                ctx.log("falsifier on a disagreement raised", repr(e)[:200])
    n = int(os.environ.get("VERIF_KF_CASES", ctx.scale(300, 6000)))
    for _ in range(n):
        case = kc.gen_case(ctx.rng, max_periods=ctx.scale(8, 24))
        info["cases"] += 1
        try:
            run(case)
        except Exception as e:  # noqa   (a crash of the harness itself is logged, it is not a property violation)
            info["harness_errors"] = info.get("harness_errors", 0) + 1
            ctx.log("falsifier raised on a case:", f"{type(e).__name__}: {e}"[:200])
        if len(fails) > 10:
            break
    # sessions: call sequences (alter_num_variants / assign / solve / kalman_filter in both modes / simulate) on one
    # model object whose variants differ in transition AND measurement parameters
    ns = int(os.environ.get("VERIF_KF_SESSIONS", ctx.scale(60, 1200)))
    info["sessions"] = 0
    srng = ks.session_rng(ctx, "falsifier")      # own stream (derived from the seed): the older cases keep theirs
    for _ in range(ns):
        case = ks.gen_session(srng, max_periods=ctx.scale(8, 16))
        info["sessions"] += 1
        try:
            run(case)
        except Exception as e:  # noqa
            info["harness_errors"] = info.get("harness_errors", 0) + 1
            ctx.log("falsifier raised on a session:", f"{type(e).__name__}: {e}"[:200])
        if len(fails) > 10:
            break
    return fails, info


def replay(ctx, failure: dict):
    case = failure.get("input")
    if isinstance(case, dict) and "model" in case:
        for f in (ks.falsify_session_c03(case) if "ops" in case else kc.falsify_c03_case(case)):
            if f.key == failure["key"]:
                return f
    return None
