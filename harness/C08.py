"""C08  Smoothed estimates reproduce the data and are a simulation of the model."""
from __future__ import annotations

import os

from vf import core
from vf.core import CorrResult, Failure
from . import kalman_common as kc
from . import kalman_sessions as ks
from translator import measblock as trm

ID = "C08"
PROPS = "props/C08.v"
GENERATED = [trm.OUT]
CASE_DEPS = ["lib/MatOps.vo", "model/Kalman.vo", "lib/KalmanCase.vo", "model/KalmanSession.vo", "lib/KalmanSessionCase.vo"]
ALLOWED_AXIOMS: set = set()          # the theorems are closed under the global context
TRUSTED = [
    "model/KalmanSession.v is hand-written from has_variants.py (alter_num_variants, iter_variants), simultaneous/main.py "
    "(solve -> _solve_variant), simultaneous/_get.py (_gets_solution), fords/kalmans.py (the loop over the variants), "
    "fords/shock_simulators.py and fords/solutions.py (_get_solution_expansion memo lists); it is tied to the code by the session "
    "correspondence (recorded inputs of fords.kalmans.predict and of _get_solution_expansion, memo-list lengths after every "
    "operation) - no translator",
    "model/Kalman.v is hand-written from fords/kalmans.py (predict, update, smooth, one_step_back, _OutputStore.store_*), "
    "simultaneous/_kalmans.py (_generate_period_system/_data) and fords/covariances.py (symmetrize); it is tied to the code by "
    "the tolerance correspondence only (no translator)",
    "the executable instance of the model runs in 2^-384 fixed-point arithmetic on Bignums integers (a few tiny cases on exact "
    "rationals); numpy.linalg.inv is matched by a Gauss-Jordan inverse",
    "the initial mean and MSE used by the filter are recorded from fords/initializers.initialize and checked inside Coq against "
    "(I-Ta) m = Ka and the Lyapunov equation; solve_discrete_lyapunov itself is a black box",
    "harness/kalman_common.py: model generator, extraction of the solution matrices, exact dyadic literals, the mapping of "
    "output names (log(x) / x) and the squaring of stds before comparison",
]
ASSUMPTIONS = [
    "theorems are over an arbitrary real field (no rounding); shock covariance matrices symmetric (they are diagonal in irispie); "
    "smooth_reproduces_data additionally needs the prediction MSE matrix F of every period to be invertible",
    "unit-root models: diffuse_method='fixed_unknown' (the default) with the unit roots identified by the data (the GLS "
    "system is solved by the inverse in the model, by lstsq in the code); the numerical model is that of ONE pass of the "
    "loop over the parameter variants - which solution, values, expansion matrices and data column each pass of each call of a "
    "session is handed is the subject of model/KalmanSession.v (state machine over the variants, black boxes abstract); the impact of anticipated "
    "shocks enters the model as an input that the harness derives from a public simulate() run on a fresh model object",
    "the branch test `t <= last_period_of_observations` of one_step_back is modelled by the equivalent local test "
    "`observations in this period or backward state present`",
]

MANIFEST = {
    "technique": "Coq proof (MathComp matrices over any real field) about a matrix model of the Kalman smoother written once over "
                 "a matrix interface; the same model text evaluated on rationals against Simultaneous.kalman_filter",
    "level_text": "Theorems (props/C08.v), for every state dimension, every number of periods, every missing-data pattern and "
                  "time-varying system: alpha_hat_t = a1_t + Q1_t T' r_{t+1}; the smoothed states are a simulation of the model "
                  "with the smoothed shocks (alpha_hat_t = T alpha_hat_{t-1} + K + P u_hat_t by induction over the run); the "
                  "measurement equations hold exactly on the observed rows for smoothed and updated estimates (given invertible "
                  "F); deviation mode on data minus steady state = level results minus steady state for every output incl. the "
                  "likelihood; output mapping through Ua/curr_xi_indexes is row selection and linear.  The model is tied to the "
                  "code by a tolerance correspondence through the public API (random models from source text, masks, stds).",
    "level_note": "Round 4: props C0x_session_* / C0x_call_variant_pointwise / C0x_reachable_solved_is_fresh are about the "
                  "model OBJECT (list of variants with stored solutions and memo lists) over every operation history; the numerical "
                  "black boxes are arbitrary functions there.  Trusted: Coq kernel + vm_compute, harness, Gauss-Jordan vs LAPACK inverse, recorded initial condition checked "
                  "against its defining equations.  Covered since round 2: unit-root models (GLS initial condition), anticipated shocks, call sequences on one model object.  Not covered: rank-deficient GLS systems, other diffuse methods, "
                  "differences below 1e-7 relative, float rounding (theorems are exact over a field).  Re-simulation through "
                  "Simultaneous.simulate is checked by the falsifier only (it is not modelled).",
}


def translate(ctx):
    trm.run()


def correspondence(ctx) -> CorrResult:
    n = int(os.environ.get("VERIF_KF_CASES", ctx.scale(250, 1200)))      # development knob
    res = kc.correspondence(ctx, n_cases=n, n_exact=ctx.scale(3, 12) if n >= 100 else 0,
                            max_periods=ctx.scale(8, 24), pid=ID,
                            contributions=False)      # per-period likelihood contributions belong to C03
    # the model object as a state machine (model/KalmanSession.v) against real call sequences
    ks.session_correspondence(ctx, int(os.environ.get("VERIF_KF_SESSIONS", ctx.scale(24, 300))),
                              max_periods=ctx.scale(8, 16), pid=ID, res=res)
    return res


def falsify(ctx, hints):
    fails: list[Failure] = []
    info = {"cases": 0, "from_disagreements": 0}
    seen = set()

    def run(case):
        for f in (ks.falsify_session_c08(case) if "ops" in case else kc.falsify_c08_case(case)):
            if f.key not in seen:
                seen.add(f.key)
                fails.append(f)
    # the disagreements of the correspondence first
    for d in hints.get("disagreements", [])[:20]:
        case = d.get("input")
        if isinstance(case, dict) and "model" in case:
            info["from_disagreements"] += 1
            try:
                run(case)
            except Exception as e:  # noqa
                ctx.log("falsifier on a disagreement raised", repr(e)[:200])
    n = int(os.environ.get("VERIF_KF_CASES", ctx.scale(300, 4000)))
    for _ in range(n):
        case = kc.gen_case(ctx.rng, max_periods=ctx.scale(8, 24))
        info["cases"] += 1
        try:
            run(case)
        except Exception as e:  # noqa   (a crash of the harness itself is logged, it is not a property violation)
            info["harness_errors"] = info.get("harness_errors", 0) + 1
            ctx.log("falsifier raised on a case:", f"{type(e).__name__}: {e}"[:200])
        if len(fails) > 10:
            break
    # sessions: call sequences (alter_num_variants / assign / solve / kalman_filter in both modes / simulate) on one
    # model object whose variants differ in transition AND measurement parameters
    ns = int(os.environ.get("VERIF_KF_SESSIONS", ctx.scale(60, 1200)))
    info["sessions"] = 0
    srng = ks.session_rng(ctx, "falsifier")      # own stream (derived from the seed): the older cases keep theirs
    for _ in range(ns):
        case = ks.gen_session(srng, max_periods=ctx.scale(8, 16))
        info["sessions"] += 1
        try:
            run(case)
        except Exception as e:  # noqa
            info["harness_errors"] = info.get("harness_errors", 0) + 1
            ctx.log("falsifier raised on a session:", f"{type(e).__name__}: {e}"[:200])
        if len(fails) > 10:
            break
    return fails, info


def replay(ctx, failure: dict):
    case = failure.get("input")
    if isinstance(case, dict) and "model" in case:
        for f in (ks.falsify_session_c08(case) if "ops" in case else kc.falsify_c08_case(case)):
            if f.key == failure["key"]:
                return f
    return None
