"""C10  A Series is a period-indexed map: reads, writes, alignment, trim, isolation."""
from __future__ import annotations

import copy
import math

import numpy as np

from vf import core
from vf.core import CorrResult, Disagreement, Failure, coq_float, coq_z, coq_list
from . import series_common as sc

ID = "C10"
PROPS = "props/C10.v"
GENERATED = []
CASE_DEPS = ["lib/CaseUtil.vo", "lib/FloatExt.vo", "model/SeriesOps.vo"]
ALLOWED_AXIOMS = set()
TRUSTED = [
    "model/Series.v + model/SeriesOps.v are hand-written models of series/main.py and its inlays; they are tied to the "
    "code only by the bit-exact history correspondence (no translator for this property)",
    "numpy reductions over <= 8 elements are sequential left-to-right (measured; relied on for sum/mean/prod/moving windows)",
]
ASSUMPTIONS = [
    "theorems are stated for every carrier whose missing value is recognised by is_miss (is_miss x = true -> x = miss)",
    "aliasing (functional forms never share memory with their input) is checked by the harness on the real objects; "
    "the pure Coq model has no aliasing by construction",
    "extrapolate (scipy lfilter) and round/log/exp element-wise functions are covered by the falsifier with a tolerance, "
    "not by the bit-exact model",
]
MANIFEST = {
    "technique": "Coq refinement proof: Series model behaves as a total map period->row (set/get/binop/shift/trim lemmas, "
                 "invariants by induction over operation histories); bit-exact PrimFloat correspondence of operation histories",
    "level_text": "Theorems (props/C10.v), for every carrier with lawful missing values and every history length: a write "
                  "changes exactly the addressed periods; reads return the stored row or missing; binary operators act period "
                  "by period on the encompassing span; shift moves values by exactly k; trimming never changes the map; the "
                  "well-formedness invariant (rectangular data, no start => no rows) and, after writes and operators, the "
                  "trim invariant (first and last row not all-missing, all-missing result = empty series) hold in every "
                  "reachable state (induction over histories of set/binop/shift/overlay/underlay/hstack/scalar ops). "
                  "The model is tied to the code by replaying random histories of 18 kinds of public operations over three "
                  "registers on the implementation and in Coq (vm_compute, IEEE doubles via PrimFloat) and comparing the "
                  "destination after every step and all registers at the end (this also exposes unintended mutation of "
                  "non-receivers).",
    "level_note": "Trusted: Coq kernel + vm_compute; the hand-written model; harness. Partial: Python object aliasing is "
                  "harness-checked, not a theorem; the values of the statistics across variants, of mov_sum/mov_avg/mov_prod and of "
                  "fill_missing(constant/previous/next) over the whole series or a contiguous range are proved pointwise on "
                  "the total map (proofs/SeriesWinProofs.v, proofs/SeriesFillProofs.v); for fill_missing(nearest/linear/"
                  "from_series), non-contiguous spans and alter_num_variants only well-formedness/trimming is proved, their "
                  "values are tied by the correspondence and the falsifier.",
}

NREG = 3
BIN = ["add", "sub", "mul", "truediv", "lt", "eq"]
MOV = ["mov_sum", "mov_avg", "mov_prod"]
MOV_K = ["MovSum", "MovAvg", "MovProd"]
STAT = ["sum", "mean", "prod", "max", "min", "nansum", "nanprod", "nanmax", "nanmin", "nanmean"]
STAT_K = ["StSum", "StMean", "StProd", "StMax", "StMin", "StNanSum", "StNanProd", "StNanMax", "StNanMin", "StNanMean"]
FILL = ["next", "previous", "nearest", "linear", "constant"]


# ------------------------------------------------------------------ generation

def _val(rng):
    return rng.randint(-24, 40) / 4.0


def _dates_near(rng, regs_obs, freq, base):
    starts = [o["start"] for o in regs_obs if o["start"] is not None]
    anchor = rng.choice(starts) if starts and rng.random() < 0.8 else base
    return anchor + rng.randint(-4, 8)


def gen_op(rng, obs, freq, base):
    """obs: current observed states of the registers (from the implementation run)."""
    d = rng.randrange(NREG); s = rng.randrange(NREG); a = rng.randrange(NREG); b = rng.randrange(NREG)
    r = rng.random()
    nvd = obs[d]["nv"]
    if r < 0.16:
        n = rng.randint(1, 5)
        t0 = _dates_near(rng, obs, freq, base)
        if rng.random() < 0.6:
            dates = list(range(t0, t0 + n))
        else:
            dates = rng.sample(range(t0 - 2, t0 + 7), n)
        q = rng.random()
        vids = None
        if q < 0.35:
            rows = [[_val(rng)]] * 0 or [[_val(rng)] for _ in dates][:1] * len(dates)   # scalar
            kind = "scalar"
        else:
            k = rng.choice([1, nvd]) if nvd > 1 else 1
            rows = [[(float("nan") if rng.random() < 0.2 else _val(rng)) for _ in range(k)] for _ in dates]
            kind = "rows"
            if nvd > 1 and rng.random() < 0.3:
                vids = sorted(rng.sample(range(nvd), rng.randint(1, nvd)))
                rows = [[(float("nan") if rng.random() < 0.2 else _val(rng)) for _ in range(rng.choice([1, len(vids)]))] for _ in dates]
                if len({len(x) for x in rows}) > 1:
                    rows = [x[:1] for x in rows]
        return {"op": "set", "dst": d, "dates": dates, "rows": rows, "kind": kind, "vids": vids}
    if r < 0.24:
        t0 = _dates_near(rng, obs, freq, base)
        n = rng.randint(0, 5)
        dates = list(range(t0, t0 + n)) if rng.random() < 0.6 else rng.sample(range(t0 - 2, t0 + 7), n)
        vids = None
        if obs[s]["nv"] > 1 and rng.random() < 0.3:
            vids = [rng.randrange(obs[s]["nv"]) for _ in range(rng.randint(1, 2))]
        return {"op": "get", "dst": d, "src": s, "dates": dates, "vids": vids}
    if r < 0.29:
        return {"op": "copy", "dst": d, "src": s}
    if r < 0.37:
        return {"op": "shift", "dst": d, "src": s, "k": rng.randint(-4, 4)}
    if r < 0.43:
        t0 = _dates_near(rng, obs, freq, base)
        a_ = None if rng.random() < 0.25 else t0
        b_ = None if rng.random() < 0.25 else t0 + rng.randint(-2, 6)
        return {"op": "clip", "dst": d, "a": a_, "b": b_}
    if r < 0.50:
        return {"op": "overlay", "dst": d, "src": s, "under": rng.random() < 0.5}
    if r < 0.55:
        return {"op": "overlayf", "dst": d, "a": a, "b": b, "under": rng.random() < 0.5}
    if r < 0.59:
        return {"op": "hstack", "dst": d, "a": a, "b": b}
    if r < 0.71:
        return {"op": "bin", "dst": d, "a": a, "b": b, "code": rng.randrange(4)}
    if r < 0.79:
        return {"op": "scalar", "dst": d, "src": s, "code": rng.randrange(4), "c": _val(rng), "cfirst": rng.random() < 0.4}
    if r < 0.82:
        return {"op": "neg", "dst": d, "src": s}
    if r < 0.84:
        return {"op": "abs", "dst": d}
    if r < 0.86:
        return {"op": "sqrt", "dst": d}
    if r < 0.90:
        return {"op": "mov", "dst": d, "src": s, "m": rng.randrange(3), "k": rng.randint(1, 4)}
    if r < 0.93:
        return {"op": "stat", "dst": d, "src": s, "k": rng.randrange(len(STAT))}
    if r < 0.97:
        span = None
        if rng.random() < 0.5:
            t0 = _dates_near(rng, obs, freq, base)
            span = list(range(t0, t0 + rng.randint(1, 7)))
        m = rng.randrange(len(FILL) + 1)
        if m == len(FILL):
            return {"op": "fillfrom", "dst": d, "src": s, "from": a, "span": span}
        return {"op": "fill", "dst": d, "src": s, "method": FILL[m], "c": _val(rng), "span": span}
    return {"op": "alternv", "dst": d, "n": rng.randint(1, 3)}


# ------------------------------------------------------------------ implementation

def _periods(freq, serials):
    return [sc.mk_period(freq, t) for t in serials]


def apply_impl(regs, op, freq):
    """Execute one op on the list of real Series objects (in place on the list)."""
    import irispie as ir
    k = op["op"]
    d = op.get("dst")
    if k == "set":
        dates = _periods(freq, op["dates"])
        if op["kind"] == "scalar":
            data = op["rows"][0][0]
        else:
            data = np.array(op["rows"], dtype=float)
        if op["vids"] is None:
            regs[d][dates] = data
        else:
            regs[d].set_data(dates, data, op["vids"])
    elif k == "get":
        dates = _periods(freq, op["dates"])
        regs[d] = regs[op["src"]](dates) if op["vids"] is None else regs[op["src"]](dates, op["vids"])
    elif k == "copy":
        regs[d] = regs[op["src"]].copy()
    elif k == "shift":
        if d == op["src"]:
            regs[d].shift(op["k"])
        else:
            regs[d] = regs[op["src"]][op["k"]]
    elif k == "clip":
        a = None if op["a"] is None else sc.mk_period(freq, op["a"])
        b = None if op["b"] is None else sc.mk_period(freq, op["b"])
        regs[d].clip(a, b)
    elif k == "overlay":
        (regs[d].underlay if op["under"] else regs[d].overlay)(regs[op["src"]])
    elif k == "overlayf":
        f = ir.underlay if op["under"] else ir.overlay
        regs[d] = f(regs[op["a"]], regs[op["b"]])
    elif k == "hstack":
        regs[d] = regs[op["a"]] & regs[op["b"]]
    elif k == "bin":
        import operator as _op
        regs[d] = getattr(_op, BIN[op["code"]])(regs[op["a"]], regs[op["b"]])
    elif k == "scalar":
        import operator as _op
        f = getattr(_op, BIN[op["code"]])
        regs[d] = f(op["c"], regs[op["src"]]) if op["cfirst"] else f(regs[op["src"]], op["c"])
    elif k == "neg":
        regs[d] = -regs[op["src"]]
    elif k == "abs":
        regs[d].abs()
    elif k == "sqrt":
        with np.errstate(all="ignore"):
            regs[d].sqrt()
    elif k == "mov":
        name = MOV[op["m"]]
        if d == op["src"]:
            getattr(regs[d], name)(-op["k"])
        else:
            regs[d] = getattr(ir, name)(regs[op["src"]], -op["k"])
    elif k == "stat":
        name = STAT[op["k"]]
        import warnings
        with warnings.catch_warnings(), np.errstate(all="ignore"):
            warnings.simplefilter("ignore")
            x = regs[op["src"]].copy()
            getattr(x, name)()
            regs[d] = x
    elif k == "fill":
        span = None if op["span"] is None else _periods(freq, op["span"])
        args = op["c"] if op["method"] == "constant" else None
        if d == op["src"]:
            regs[d].fill_missing(op["method"], args, span)
        else:
            regs[d] = ir.fill_missing(regs[op["src"]], op["method"], args, span)
    elif k == "fillfrom":
        span = None if op["span"] is None else _periods(freq, op["span"])
        if d == op["src"]:
            regs[d].fill_missing("from_series", regs[op["from"]], span)
        else:
            regs[d] = ir.fill_missing(regs[op["src"]], "from_series", regs[op["from"]], span)
    elif k == "alternv":
        regs[d].alter_num_variants(op["n"])
    else:
        raise KeyError(k)


def admissible(op, obs) -> bool:
    """Exclude calls whose behaviour the model does not define (numpy shape errors etc.)."""
    k = op["op"]
    if k == "set":
        return all(len(r) in (1, len(op["vids"]) if op["vids"] is not None else obs[op["dst"]]["nv"]) for r in op["rows"])
    if k == "fillfrom":
        return obs[op["from"]]["nv"] == 1
    if k == "bin":
        na, nb = obs[op["a"]]["nv"], obs[op["b"]]["nv"]
        return na == nb or na == 1 or nb == 1
    if k in ("overlay",):
        na, nb = obs[op["dst"]]["nv"], obs[op["src"]]["nv"]
        return na == nb or na == 1 or nb == 1
    if k == "overlayf":
        na, nb = obs[op["a"]]["nv"], obs[op["b"]]["nv"]
        return na == nb or na == 1 or nb == 1
    if k == "hstack":
        return obs[op["a"]]["nv"] + obs[op["b"]]["nv"] <= 4
    if k == "mov":
        return obs[op["src"]]["start"] is not None and len(obs[op["src"]]["rows"]) >= 1
    if k == "stat":
        return obs[op["src"]]["start"] is not None and len(obs[op["src"]]["rows"]) >= 1
    if k == "alternv":
        return obs[op["dst"]]["nv"] >= 1
    return True


def run_history(rng, nops: int) -> dict:
    freq = rng.choice([1, 2, 4, 12, 365, 0])
    base = {365: 737000, 0: 10}.get(freq, 2010 * max(freq, 1))
    init = []
    for _ in range(NREG):
        sp = sc.rand_series_spec(rng, freq=freq, maxlen=6, p_nan=0.15)
        if sp["start"] is not None:
            sp["start"] = base + rng.randint(-3, 6)
        init.append(sp)
    regs = [sc.mk_series(sp) for sp in init]
    obs = [sc.observe(x) for x in regs]
    ops, outs = [], []
    tries = 0
    while len(ops) < nops and tries < nops * 6:
        tries += 1
        op = gen_op(rng, obs, freq, base)
        if not admissible(op, obs):
            continue
        snapshot = [copy.deepcopy(x) for x in regs]
        try:
            apply_impl(regs, op, freq)
            new_obs = [sc.observe(x) for x in regs]
            if any(len(o["rows"]) > 40 for o in new_obs):
                regs = snapshot
                continue
            out = {"ok": new_obs[op["dst"]]}
            obs = new_obs
        except Exception as e:  # noqa
            regs = snapshot
            out = {"err": sc.err_code(e), "exc": f"{type(e).__name__}: {e}"[:160]}
        ops.append(op); outs.append(out)
    return {"freq": freq, "init": init, "ops": ops, "outs": outs, "final": [sc.observe(x) for x in regs]}


# ------------------------------------------------------------------ Coq rendering

def _optz(v):
    return "None" if v is None else f"(Some {coq_z(v)})"


def _optl(v, f):
    return "None" if v is None else "(Some " + coq_list([f(x) for x in v]) + ")"


def _nat(n):
    return f"{n}%nat"


def coq_op(op, freq) -> str:
    k = op["op"]; fr = coq_z(freq)
    zl = lambda l: coq_list([coq_z(t) for t in l])
    if k == "set":
        rows = coq_list([sc.coq_row(r) for r in op["rows"]])
        return f"OpSet FA {_nat(op['dst'])} {fr} {zl(op['dates'])} {rows} {_optl(op['vids'], _nat)}"
    if k == "get":
        return f"OpGet FA {_nat(op['dst'])} {_nat(op['src'])} {fr} {zl(op['dates'])} {_optl(op['vids'], _nat)}"
    if k == "copy":
        return f"OpCopy FA {_nat(op['dst'])} {_nat(op['src'])}"
    if k == "shift":
        return f"OpShift FA {_nat(op['dst'])} {_nat(op['src'])} {coq_z(op['k'])}"
    if k == "clip":
        return f"OpClip FA {_nat(op['dst'])} {_optz(op['a'])} {_optz(op['b'])}"
    if k == "overlay":
        return f"OpOverlay FA {_nat(op['dst'])} {_nat(op['src'])} {core.coq_bool(op['under'])}"
    if k == "overlayf":
        return f"OpOverlayF FA {_nat(op['dst'])} {_nat(op['a'])} {_nat(op['b'])} {core.coq_bool(op['under'])}"
    if k == "hstack":
        return f"OpHstack FA {_nat(op['dst'])} {_nat(op['a'])} {_nat(op['b'])}"
    if k == "bin":
        return f"OpBin FA {_nat(op['dst'])} {_nat(op['a'])} {_nat(op['b'])} {_nat(op['code'])}"
    if k == "scalar":
        return (f"OpScalar FA {_nat(op['dst'])} {_nat(op['src'])} {_nat(op['code'])} {coq_float(op['c'])} "
                f"{core.coq_bool(op['cfirst'])}")
    if k == "neg":
        return f"OpNeg FA {_nat(op['dst'])} {_nat(op['src'])}"
    if k == "abs":
        return f"OpAbs FA {_nat(op['dst'])}"
    if k == "sqrt":
        return f"OpSqrt FA {_nat(op['dst'])}"
    if k == "mov":
        return f"OpMov FA {_nat(op['dst'])} {_nat(op['src'])} {MOV_K[op['m']]} {_nat(op['k'])}"
    if k == "stat":
        return f"OpStat FA {_nat(op['dst'])} {_nat(op['src'])} {STAT_K[op['k']]}"
    if k == "fill":
        fk = {"next": "(FillNext FA)", "previous": "(FillPrev FA)", "nearest": "(FillNearest FA)",
              "linear": "(FillLinear FA)", "constant": f"(FillConst FA {coq_float(op['c'])})"}[op["method"]]
        return f"OpFill FA {_nat(op['dst'])} {_nat(op['src'])} {fr} {fk} {_optl(op['span'], coq_z)}"
    if k == "fillfrom":
        return f"OpFillFrom FA {_nat(op['dst'])} {_nat(op['src'])} {_nat(op['from'])} {fr} {_optl(op['span'], coq_z)}"
    if k == "alternv":
        return f"OpAlterNv FA {_nat(op['dst'])} {_nat(op['n'])}"
    raise KeyError(k)


HEADER = """From Coq Require Import ZArith List Bool PrimFloat.
From Verif Require Import lib.Arith lib.CaseUtil lib.FloatExt model.Series model.SeriesOps.
Import ListNotations.
Open Scope Z_scope.
Set Printing Width 1000000.
Set Printing Depth 1000000.
Definition tb : ftables := {| t_ln := []; t_exp := []; t_pow := [] |}.
Notation FA := (FArith tb).
"""


def coq_history(h) -> str:
    init = coq_list([sc.coq_series(o) for o in h["init"]])
    ops = coq_list([coq_op(o, h["freq"]) for o in h["ops"]], sep=";\n    ")
    outs = coq_list([sc.coq_res_series(o) for o in h["outs"]], sep=";\n    ")
    fin = coq_list([sc.coq_series(o) for o in h["final"]])
    return f"({init},\n   {ops},\n   {outs},\n   {fin})"


def shard_text(hs) -> str:
    return (HEADER + "Definition hs := [\n" + ";\n".join(coq_history(h) for h in hs) + "\n].\n"
            + "Eval vm_compute in (failing_histories (check_history tb) hs 0).\n")


def correspondence(ctx) -> CorrResult:
    rng = ctx.rng
    nh = ctx.scale(240, 8000)
    nops = 14
    per = 20
    hs = [run_history(rng, nops) for _ in range(nh)]
    res = CorrResult()
    res.evaluations = sum(len(h["ops"]) for h in hs)
    dist = {"ops": {}, "errors": {}, "freq": {}, "empty_results": 0, "histories": nh}
    sigs = set()
    for h in hs:
        dist["freq"][str(h["freq"])] = dist["freq"].get(str(h["freq"]), 0) + 1
        for op, out in zip(h["ops"], h["outs"]):
            dist["ops"][op["op"]] = dist["ops"].get(op["op"], 0) + 1
            if "err" in out:
                nm = out["exc"].split(":")[0]
                dist["errors"][nm] = dist["errors"].get(nm, 0) + 1
            elif out["ok"]["start"] is None:
                dist["empty_results"] += 1
            elif len(out["ok"]["rows"]) >= 2:
                sigs.add(repr((op, out["ok"]["start"], len(out["ok"]["rows"]), out["ok"]["rows"][0])))
    res.distinct_nontrivial = len(sigs)
    res.distribution = dist
    res.rule = ("random histories of 14 public operations (set/get/copy/shift/clip/overlay/underlay/functional overlay/hstack/"
                "binary and scalar operators/neg/abs/sqrt/moving windows/statistics/fill_missing/alter_num_variants) over three "
                "registers of one frequency (all six frequencies, 1-3 variants, missing values, empty series, non-overlapping "
                "spans); after every operation the destination register and at the end all registers are compared bit for bit; "
                "non-trivial = an operation whose result has at least two periods; distinct by (operation, result start, length, first row)")
    res.samples = [{"freq": hs[0]["freq"], "init": hs[0]["init"], "ops": hs[0]["ops"][:4], "outs": hs[0]["outs"][:4]}]
    shards = [hs[i:i + per] for i in range(0, nh, per)]
    results = core.run_cases(ctx, [shard_text(s) for s in shards])
    res.shards = len(shards)
    for k, (ok, out) in enumerate(results):
        if not ok:
            res.disagreements.append(Disagreement(f"cases shard {k} does not evaluate", None, out[-800:], None))
            continue
        bodies = core.parse_eval_lists(out)
        if len(bodies) != 1:
            res.disagreements.append(Disagreement(f"cases shard {k}: unparsable output", None, out[-600:], None))
            continue
        nums = core.parse_nat_list(bodies[0])
        for hi, oi in zip(nums[0::2], nums[1::2]):
            h = shards[k][hi]
            if oi < len(h["ops"]):
                where = f"history op {h['ops'][oi]['op']}"
                inp = {"freq": h["freq"], "init": h["init"], "ops": h["ops"][:oi + 1]}
                impl = h["outs"][oi]
            else:
                where = "final registers (a non-receiver was modified, or an earlier silent divergence)"
                inp = {"freq": h["freq"], "init": h["init"], "ops": h["ops"]}
                impl = h["final"]
            res.disagreements.append(Disagreement(where, inp, "model differs", impl))
    return res


# ------------------------------------------------------------------ falsifier

def _eq(a, b):
    a = np.asarray(a, dtype=float); b = np.asarray(b, dtype=float)
    return a.shape == b.shape and bool(np.all((a == b) | (np.isnan(a) & np.isnan(b))))


def _state(x):
    return (None if x.start is None else (int(x.start.frequency), int(x.start.serial)), np.array(x.data, dtype=float, copy=True))


def _same_state(s1, s2):
    return s1[0] == s2[0] and _eq(s1[1], s2[1])


def falsify(ctx, hints):
    import irispie as ir
    rng = ctx.rng
    fails = []
    info = {"map_checks": 0, "isolation_checks": 0, "trim_checks": 0, "empty_checks": 0}
    n = ctx.scale(120, 3000)

    def add(key, what, inp, obs=None, req=None, repro=""):
        fails.append(Failure(key, what, inp, obs, req, repro))

    def as_map(x):
        m = {}
        if x.start is not None:
            for i, row in enumerate(np.asarray(x.data, dtype=float)):
                for c, v in enumerate(row):
                    if v == v:
                        m[(x.start.serial + i, c)] = float(v)
        return m

    def trimmed(x):
        d = np.asarray(x.data, dtype=float)
        if x.start is None:
            return d.shape[0] == 0
        return d.shape[0] > 0 and not np.all(np.isnan(d[0])) and not np.all(np.isnan(d[-1]))

    for it in range(n):
        freq = rng.choice([1, 2, 4, 12, 365, 0])
        sa = sc.rand_series_spec(rng, freq=freq, maxlen=8, allow_empty=False)
        sb = sc.rand_series_spec(rng, freq=freq, nv=rng.choice([1, sa["nv"]]), maxlen=8, allow_empty=False)
        sb["start"] = sa["start"] + rng.randint(-12, 12)
        a, b = sc.mk_series(sa), sc.mk_series(sb)
        inp = {"a": sa, "b": sb}
        try:
            # writes change exactly the addressed cells; reads return last written or NaN
            x = a.copy(); before = as_map(x)
            t = sa["start"] + rng.randint(-5, 12); v = _val(rng)
            x[sc.mk_period(freq, t)] = v
            after = as_map(x); info["map_checks"] += 1
            want = dict(before)
            for c in range(sa["nv"]):
                want[(t, c)] = v
            if after != want:
                add("map:set", "a write changed other cells or missed the addressed ones", {**inp, "t": t, "v": v}, str(after), str(want))
            if not trimmed(x):
                add("trim:set", "leading/trailing all-missing period after a write", {**inp, "t": t})
            got = x.get_data(sc.mk_period(freq, t))
            if not _eq(got, np.full((1, sa["nv"]), v)):
                add("map:get", "a read does not return the last written value", {**inp, "t": t})
            far = x.get_data(sc.mk_period(freq, sa["start"] + 500))
            if not np.all(np.isnan(far)):
                add("map:get-outside", "a read outside the span is not NaN", inp)
            # reads and writes addressed by an UNSORTED list of periods, some outside the current span
            ts = rng.sample(range(sa["start"] - 4, sa["start"] + len(sa["rows"]) + 4), rng.randint(2, 5))
            per = [sc.mk_period(freq, u) for u in ts]
            m0 = as_map(a)
            got = a.get_data(per); info["map_checks"] += 1
            want_rd = np.array([[m0.get((u, c), float("nan")) for c in range(sa["nv"])] for u in ts])
            if not _eq(got, want_rd):
                add("map:get-unsorted", "a read at an unsorted list of periods does not return the stored values / NaN",
                    {**inp, "periods": ts}, got.tolist(), want_rd.tolist(), "a.get_data([...unsorted periods...])")
            y = a.copy(); newv = np.array([[_val(rng) for _ in range(sa["nv"])] for _ in ts])
            y[per] = newv; info["map_checks"] += 1
            want_w = dict(m0)
            for u, row in zip(ts, newv):
                for c in range(sa["nv"]):
                    want_w[(u, c)] = float(row[c])
            if as_map(y) != want_w:
                add("map:set-unsorted", "a write at an unsorted list of periods does not change exactly the addressed cells",
                    {**inp, "periods": ts, "values": newv.tolist()}, str(as_map(y)), str(want_w), "a[[...unsorted periods...]] = values")
            # binary operators act period by period after alignment
            for name, f in (("add", np.add), ("sub", np.subtract), ("mul", np.multiply), ("truediv", np.divide)):
                import operator as _op
                with np.errstate(all="ignore"):
                    c_ = getattr(_op, name)(a, b)
                info["map_checks"] += 1; info["trim_checks"] += 1
                lo = min(sa["start"], sb["start"]); hi = max(sa["start"] + len(sa["rows"]), sb["start"] + len(sb["rows"])) - 1
                span = [sc.mk_period(freq, u) for u in range(lo, hi + 1)]
                with np.errstate(all="ignore"):
                    want_arr = f(a.get_data(span), b.get_data(span))
                if not _eq(c_.get_data(span), want_arr):
                    add(f"binop:{name}", "binary operator is not period-by-period on aligned operands", inp)
                if not trimmed(c_):
                    add(f"trim:{name}", "result of an operator has an all-missing leading/trailing period or an empty result keeps a start", inp)
                m = as_map(c_)
                if m and (min(k[0] for k in m) < c_.start.serial or max(k[0] for k in m) > c_.end.serial):
                    add("span:covers", "the reported span does not cover a non-missing value", inp)
            # shift moves values by exactly k periods
            k = rng.randint(-5, 5)
            sh = a[k]; info["map_checks"] += 1
            if {(t_ + k, c): v_ for (t_, c), v_ in as_map(sh).items()} != as_map(a):
                add("shift:law", "x[k] does not hold x's value of period t+k at t", {**inp, "k": k})
            # functional forms and copy() never modify or alias their input; methods modify only the receiver
            funcs = [
                ("copy", lambda: a.copy()), ("shift", lambda: ir.shift(a, -1)), ("overlay", lambda: ir.overlay(a, b)),
                ("underlay", lambda: ir.underlay(a, b)), ("add", lambda: a + b), ("neg", lambda: -a),
                ("mov_sum", lambda: ir.mov_sum(a, -2)), ("fill_missing", lambda: ir.fill_missing(a, "previous")),
                ("diff", lambda: ir.diff(a)), ("clip", lambda: ir.clip(a, a.start + 1, None)) if hasattr(ir, "clip") else ("copy2", lambda: a.copy()),
                ("hstack", lambda: a & b), ("call", lambda: a(a.span)), ("index0", lambda: a[0]), ("index-1", lambda: a[-1]),
                ("extrapolate", lambda: ir.extrapolate(a, [0.5], [a.end + 1, a.end + 2])),
            ]
            for nm, fn in funcs:
                sa0, sb0 = _state(a), _state(b)
                with np.errstate(all="ignore"):
                    out = fn()
                info["isolation_checks"] += 1
                if not _same_state(_state(a), sa0) or not _same_state(_state(b), sb0):
                    add(f"isolation:{nm}:modifies-input", f"functional form {nm} modifies one of its inputs",
                        inp, None, None, f"irispie.{nm}(a, b)")
                if hasattr(out, "data") and out.data.size and (np.shares_memory(out.data, a.data) or np.shares_memory(out.data, b.data)):
                    add(f"isolation:{nm}:aliases-input", f"result of {nm} shares memory with an input", inp)
            for nm, fn in (("overlay", lambda r: r.overlay(b)), ("underlay", lambda r: r.underlay(b)),
                           ("fill_from_series", lambda r: r.fill_missing("from_series", b) if sb["nv"] == 1 and sa["nv"] == 1 else None)):
                r = a.copy(); sb0 = _state(b)
                fn(r); info["isolation_checks"] += 1
                if not _same_state(_state(b), sb0):
                    add(f"isolation:{nm}:method-modifies-argument", f"method {nm} modifies its argument, not only the receiver", inp,
                        list(b.data.shape), list(sb0[1].shape), f"a.{nm}(b)")
            # extrapolation follows the autoregression x[t] = c + sum_k rho_k x[t-k] (any order), also in logs
            p_ = rng.randint(1, 3)
            rho = [round(rng.uniform(-0.6, 0.6), 3) for _ in range(p_)]
            c_ = round(rng.uniform(-1, 1), 3)
            base_rows = [[abs(_val(rng)) + 0.5 for _ in range(sa["nv"])] for _ in range(p_ + rng.randint(0, 3))]
            sx = {"freq": freq, "start": sa["start"], "nv": sa["nv"], "rows": base_rows}
            x0 = sc.mk_series(sx)
            h = rng.randint(1, 5)
            for use_log in (False, True):
                span = [x0.end + i for i in range(1, h + 1)]
                xe = ir.extrapolate(x0, rho, span, intercept=c_, log=use_log)
                full = np.asarray(xe.get_data(ir.Span(x0.start, x0.end + h)), dtype=float)
                w = np.log(full) if use_log else full
                ok = True
                for i in range(len(base_rows), len(base_rows) + h):
                    want = c_ + sum(rho[k] * w[i - 1 - k] for k in range(p_))
                    if not np.all(np.abs(w[i] - want) <= 1e-9 * (1 + np.abs(want))):
                        ok = False
                info["map_checks"] += 1
                if not ok or not _eq(full[:len(base_rows)], np.array(base_rows)):
                    add(f"extrapolate:ar{p_}" + (":log" if use_log else ""),
                        "extrapolated values do not follow x[t] = c + sum_k rho_k x[t-k] from the observed initial values",
                        {"series": sx, "ar_coeffs": rho, "intercept": c_, "log": use_log, "periods_ahead": h}, full.tolist(), None,
                        "irispie.extrapolate(x, ar_coeffs, span, intercept=c, log=...)")
        except Exception as e:  # noqa
            add(f"raises:{type(e).__name__}", f"public operation raises {type(e).__name__}: {e}"[:200], inp)
        if len(fails) > 30:
            break
    # linear interpolation over in-sample gaps of two or more periods; moving windows longer than the series
    for it2 in range(ctx.scale(10, 200)):
        freq = rng.choice([1, 4, 12, 0])
        base = sc.rand_series_spec(rng, freq=freq, nv=1, maxlen=4, allow_empty=False, p_nan=0.0)
        n = rng.randint(5, 9)
        vals = [float(rng.randint(-8, 12)) for _ in range(n)]
        g0 = rng.randint(1, n - 4); glen = rng.randint(2, 3)
        rows = [[v] for v in vals]
        for j in range(g0, g0 + glen):
            rows[j] = [float("nan")]
        spec = {"freq": freq, "start": base["start"], "nv": 1, "rows": rows}
        try:
            x = sc.mk_series(spec)
            y = ir.fill_missing(x, "linear")
            got = np.asarray(y.get_data(ir.Span(x.start, x.end)), dtype=float)[:, 0]
            a, b = vals[g0 - 1], vals[g0 + glen]
            want = list(vals)
            for j in range(g0, g0 + glen):
                want[j] = a + (b - a) * (j - (g0 - 1)) / (glen + 1)
            info["map_checks"] += 1
            if not np.allclose(got, want, rtol=1e-12, atol=1e-12):
                add("fill:linear:gap", "fill_missing('linear') does not interpolate period by period inside a gap of several periods",
                    {"series": spec}, got.tolist(), want, "irispie.fill_missing(x, 'linear')")
            # a moving window longer than the series has no complete window: the result is the empty series
            short = sc.mk_series({"freq": freq, "start": base["start"], "nv": 1, "rows": [[1.0], [2.0], [3.0]]})
            for nm in ("mov_sum", "mov_avg", "mov_prod"):
                z = getattr(ir, nm)(short, -5)
                info["map_checks"] += 1
                if z.start is not None or np.asarray(z.data).shape[0] != 0:
                    add(f"moving:{nm}:short-series", f"{nm} with a window longer than the series does not give the empty series",
                        {"rows": [[1.0], [2.0], [3.0]], "window": -5}, np.asarray(z.data).tolist(), "empty series", f"irispie.{nm}(x, -5)")
        except Exception as e:  # noqa
            add(f"fill-moving:raises:{type(e).__name__}", f"fill_missing/moving window raises {type(e).__name__}: {e}"[:200], {"series": spec})
    # functional forms on an EMPTY input never return or modify the input object itself
    for nm, call in (("fill_missing", lambda e, y: ir.fill_missing(e, "constant", 1.0, [sc.mk_period(4, 8000)])),
                     ("overlay", lambda e, y: ir.overlay(e, y)), ("underlay", lambda e, y: ir.underlay(e, y)),
                     ("shift", lambda e, y: ir.shift(e, -1)), ("copy", lambda e, y: e.copy())):
        try:
            e = ir.Series(); y = sc.mk_series({"freq": 4, "start": 8000, "nv": 1, "rows": [[1.0], [2.0]]})
            out = call(e, y)
            info["isolation_checks"] += 1
            if out is e or e.start is not None or np.asarray(e.data).shape[0] != 0:
                add(f"isolation:{nm}:empty-input", f"functional form {nm} applied to an empty series returns or modifies its input",
                    {"input": "Series()"}, "input object returned/modified", "a new object; input still empty", f"irispie.{nm}(Series(), ...)")
        except Exception as ex:  # noqa
            add(f"empty:{nm}:functional:raises", f"{nm} on an empty series raises {type(ex).__name__}: {ex}"[:200], {"input": "Series()"})
    # empty series and non-overlapping operands
    for nv1 in (1, 2):
        e1, e2 = ir.Series(num_variants=nv1), ir.Series(num_variants=1)
        info["empty_checks"] += 1
        for nm, fn in (("add", lambda: e1 + e2), ("clip", lambda: e1.clip(sc.mk_period(4, 8000), None)),
                       ("overlay", lambda: e1.overlay(e2)), ("shift", lambda: e1.shift(-1)), ("neg", lambda: -e1),
                       ("scalar", lambda: e1 + 1), ("hstack", lambda: e1 & e2), ("diff", lambda: ir.diff(e1))):
            try:
                out = fn()
                if hasattr(out, "start") and (out.start is not None or out.data.shape[0] != 0):
                    add(f"empty:{nm}:not-empty", f"{nm} on empty series does not give the empty series", {"nv": nv1})
            except Exception as e:  # noqa
                add(f"empty:{nm}:raises", f"{nm} on empty series raises {type(e).__name__}: {e}"[:200], {"nv": nv1},
                    repr(e), "the empty series", f"Series() {nm}")
    seen, uniq = set(), []
    for f_ in fails:
        if f_.key not in seen:
            seen.add(f_.key); uniq.append(f_)
    return uniq, info


def replay(ctx, failure):
    fs, _ = falsify(ctx, {})
    for f in fs:
        if f.key == failure["key"]:
            return f
    return None
