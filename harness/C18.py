"""C18  Reduced-form VAR estimates are the least-squares solution, reproduce the data."""
from __future__ import annotations

import os
for _v in ("OMP_NUM_THREADS", "OPENBLAS_NUM_THREADS", "MKL_NUM_THREADS"):
    os.environ.setdefault(_v, "1")      # tiny matrices: BLAS threads only add contention

import contextlib
import itertools
import json
import math
import re

import numpy as np

from vf import core
from vf.core import CorrResult, Disagreement, Failure
from translator import redvar as tr
from . import series_common as sc

ID = "C18"
PROPS = "props/C18.v"
GENERATED = [tr.OUT]
CASE_DEPS = ["lib/MxC18.vo", "model/RedVar.vo"]


def translate(ctx):
    tr.run()

ALLOWED_AXIOMS: set = set()          # MathComp + lists + Bignums: the theorems are closed under the global context
TRUSTED = [
    "translator/redvar.py (fail-closed): ordinary_least_squares, symmetrize, the residual / covariance / degrees-of-freedom "
    "lines of _estimate_variant, the Dimensions properties and the priors' get_num_obs are regenerated into "
    "gen/RedVarGen.v on every run; the model is defined in terms of them",
    "numpy.linalg.solve is a contract (section hypothesis: the returned X satisfies M X = N when M is invertible; the "
    "executable instance uses exact Gauss-Jordan elimination over bigQ)",
    "scipy.linalg.solve_discrete_lyapunov and numpy.linalg.eigvals are contracts: the recorded Lyapunov solution is "
    "checked against the model's companion system in exact arithmetic on every case, the reported eigenvalues against "
    "the exact characteristic polynomial of the model's companion matrix",
    "what is reported about the spectrum: the reduction of the eigenvalue array to max_abs_eigenvalue and the stability test "
    "are regenerated (typed: numpy.abs / numpy.max on complex / real arrays) into gen_max_abs_eigenvalue / gen_is_stable, "
    "model/Spectral.v is defined in terms of them; the caching properties, _number_from_numpy and the RedVAR accessors must "
    "have the modelled text (fail closed); the executable instance uses squared moduli over bigQ (order embedding proved)",
    "Dataslate construction (databox -> array, fallback of missing residuals to 0, array -> databox), the lag stacking, the "
    "mask, the prior dummy arrays, the companion matrices and the simulation loop are hand-modelled and tied by the "
    "correspondence (bit-exact for stacking / mask / OLS inputs, 1e-7 tolerance against exact rationals otherwise)",
    "the list (option bigQ) instance of the matrix interface (lib/MxC18.v) is executed, not proved equal to the "
    "MathComp instance: both instantiate the same model text (model/RedVar.v)",
]
ASSUMPTIONS = [
    "theorems are exact over an arbitrary field (characteristic not 2 for the covariance); no rounding: the implementation "
    "is compared with the model evaluated in exact rational arithmetic within 1e-7*(1+|x|), masks / lag stacking / OLS "
    "inputs bit-exactly",
    "RedVAR order >= 1 and at least one endogenous variable; R R' invertible (full column rank) wherever the estimate is "
    "claimed to be the least-squares solution",
    "dof_correction subtracts num_exogenous + intercept (what the code does; regenerated), not the number of lagged "
    "regressors; the falsifier accepts either convention",
    "simulate(estimate) = data is claimed up to the first period with an incomplete column (missing residuals are "
    "replaced by 0 by the dataslate fallbacks, after which the paths differ by construction)",
]
MANIFEST = {
    "technique": "Coq/MathComp proof over an arbitrary field of one model text (matrix interface) whose formula fragments are "
                 "regenerated from the source, which is also executed on exact rationals and compared with RedVAR's public API",
    "level_text": "Theorems (props/C18.v) for every number of endogenous/exogenous variables, order, sample size, selection of "
                  "fitted columns, prior dummy observations, intercept on/off, dof correction on/off: the OLS estimate solves the "
                  "normal equations and its residuals are orthogonal to the regressors on the fitted (and dummy) columns; fitted + "
                  "residual = data on every column; noise-free data return the generating coefficients; the covariance is the "
                  "(corrected) second moment and is symmetric; the mask selects exactly the complete columns, in order, and row "
                  "i*n+v of the lag stack is lag i+1 of variable v; simulating any (A,B,c) with the residuals the model stores "
                  "reproduces the data (induction over periods on the companion recursion); (I - sum A_i) mean = c and the mean is "
                  "the rest point; the companion matrix acts as the stacked recursion and its eigenvectors are exactly the "
                  "geometric lag stacks; autocovariances are blocks of T^j Omega with Gamma_0 = A Omega A' + Sigma; the reported "
                  "maximum modulus is attained by an eigenvalue and bounds all of them (spectral radius, independent of the order "
                  "of the eigenvalues) and the stability verdict is 'stable' iff every eigenvalue has modulus < 1, for every list of "
                  "eigenvalues over any totally pre-ordered type of moduli.",
    "level_note": "Partial: numpy.linalg.solve, the Lyapunov solver and eigvals are contracts (hypotheses); rounding is outside "
                  "(tolerance tie); the dataslate plumbing, stacking loop and simulate_flat loop are tied by correspondence only. "
                  "Trusted: Coq kernel + vm_compute, Bignums, translator/redvar.py, harness. No axioms (all theorems closed).",
}

TOL = 1e-7
STAB_MARGIN = 1e-9          # the stability verdict is not compared when the spectral radius is this close to 1
FREQ_START = {1: (1950, 2050), 2: (3900, 4100), 4: (7800, 8200), 12: (23500, 24500), 365: (720000, 740000), 0: (-50, 500)}


# ====================================================================== specs

def _pool_value(rng):
    return rng.randint(-48, 48) / 8.0


def _gen_priors(rng, n) -> list:
    priors = []
    if rng.random() < 0.7:
        rho = rng.choice([0.0, 0.5, 1.0, "vec"])
        if rho == "vec":
            rho = [rng.choice([0.0, 0.25, 0.5, 1.0]) for _ in range(n)]
        pr = {"kind": "minnesota", "rho": rho, "kappa": rng.choice([0, 1, 2])}
        if rng.random() < 0.5:
            pr["mu"] = rng.choice([0.5, 1.0, 2.0, 1.5])
        else:
            pr["mu2"] = rng.choice([0.25, 1.0, 4.0, 9.0])
        priors.append(pr)
    if rng.random() < 0.5 or not priors:
        mean = rng.choice([0.0, 1.0, "vec"])
        if mean == "vec":
            mean = [rng.randint(-8, 8) / 4.0 for _ in range(n)]
        pr = {"kind": "mean", "mean": mean}
        if rng.random() < 0.5:
            pr["mu"] = rng.choice([0.5, 1.0, 2.0])
        else:
            pr["mu2"] = rng.choice([0.25, 1.0, 4.0])
        priors.append(pr)
    if len(priors) == 2 and rng.random() < 0.3:
        priors.reverse()
    return priors


def gen_spec(rng, nodata=False) -> dict:
    n = rng.choice([1, 2, 2, 3])
    m = rng.choice([0, 0, 1, 2])
    p = rng.choice([1, 1, 2, 2, 3])
    intercept = rng.random() < 0.6
    k = int(intercept)
    r = n * p + m + k
    nv = rng.choice([1, 1, 1, 2])
    freq = rng.choice([1, 2, 4, 4, 12, 365, 0])
    start = rng.randint(*FREQ_START[freq])
    nmiss = rng.choice([0, 0, 1, 2, 3]) if not nodata else 0
    N = r + rng.randint(3, 9) + nmiss * (p + 1)
    names = [f"y{i}" for i in range(n)] + [f"x{i}" for i in range(m)]
    data = {}
    for nm in names:
        cols = nv if rng.random() < 0.8 else 1
        data[nm] = [[_pool_value(rng) for _ in range(cols)] for _ in range(p + N)]
    for _ in range(nmiss):
        nm = rng.choice(names)
        t = rng.randrange(p + N)
        bad = rng.choice([None, None, None, "inf", "-inf"])
        col = rng.randrange(len(data[nm][0]))
        if rng.random() < 0.7:
            data[nm][t] = [bad] * len(data[nm][t])
        else:
            data[nm][t][col] = bad
    if not nodata and rng.random() < 0.15:             # a series that starts late / ends early
        nm = rng.choice(names)
        cut = rng.randint(1, 2)
        rows = data[nm]
        if rng.random() < 0.5:
            for t in range(cut):
                rows[t] = [None] * len(rows[t])
        else:
            for t in range(cut):
                rows[-1 - t] = [None] * len(rows[-1 - t])
    if nodata:
        nm = rng.choice(names)
        for t in range(0, p + N, p + 1):
            data[nm][t] = [None] * len(data[nm][t])
        for t in range(p + N):
            if rng.random() < 0.5:
                data[nm][t] = [None] * len(data[nm][t])
    priors = _gen_priors(rng, n) if (rng.random() < 0.45 and not nodata) else []
    spec = {
        "n": n, "m": m, "p": p, "intercept": intercept, "dof": rng.random() < 0.5,
        "omit_missing": rng.random() < 0.93 or nodata, "nv": nv, "freq": freq, "start": start, "N": N,
        "data": data, "priors": priors, "interpret_span": rng.choice(["short", "short", "long"]),
        "nv_in_ctor": rng.random() < 0.5,
    }
    # re-estimation into a working databox: earlier estimations (other order / intercept / prior / sample) have already
    # left res_* series in the target databox handed to the estimation under test
    if not nodata and rng.random() < 0.4:
        pre = []
        for _ in range(rng.choice([1, 1, 2])):
            pp = rng.choice([q_ for q_ in (1, 2, 3) if q_ != p] + [p])
            a = max(0, pp - p) + rng.choice([0, 0, 1, 3])
            pre.append({"p": pp, "intercept": rng.random() < 0.6, "dof": rng.random() < 0.5, "a": a,
                        "b": rng.choice([0, 0, 1, 2]), "priors": _gen_priors(rng, n) if rng.random() < 0.4 else []})
        spec["pre"] = pre
    elif not nodata and rng.random() < 0.15:
        spec["target_db"] = True          # a target databox without earlier residuals
    return spec


def _f(x):
    if x is None:
        return float("nan")
    if isinstance(x, str):
        return float(x)
    return float(x)


def build(spec):
    """Databox, span and model for a spec (public API only)."""
    import irispie as ir
    p, N = spec["p"], spec["N"]
    s0 = sc.mk_period(spec["freq"], spec["start"])
    db = ir.Databox()
    for nm, rows in spec["data"].items():
        arr = np.array([[_f(v) for v in r] for r in rows], dtype=float)
        db[nm] = ir.Series(start=s0 - p, values=arr)
    span = ir.Span(s0, s0 + N - 1)
    ynames = [f"y{i}" for i in range(spec["n"])]
    xnames = [f"x{i}" for i in range(spec["m"])]
    kw = {}
    if spec.get("nv_in_ctor") or spec["nv"] == 1:
        kw["num_variants"] = spec["nv"]
    model = ir.RedVAR(ynames, xnames, order=p, intercept=spec["intercept"], **kw)
    return db, span, model, ynames, xnames


def mk_priors(spec):
    import irispie as ir
    out = []
    for pr in spec["priors"]:
        kw = {"mu": pr["mu"]} if "mu" in pr else {"mu2": pr["mu2"]}
        if pr["kind"] == "minnesota":
            rho = np.array(pr["rho"], dtype=float) if isinstance(pr["rho"], list) else pr["rho"]
            out.append(ir.MinnesotaPriorObs(rho=rho, kappa=pr["kappa"], **kw))
        else:
            mean = np.array(pr["mean"], dtype=float) if isinstance(pr["mean"], list) else pr["mean"]
            out.append(ir.MeanPriorObs(mean=mean, **kw))
    if not out:
        return None
    return out[0] if len(out) == 1 else tuple(out)


def estimate_kwargs(spec):
    kw = {"omit_missing": spec["omit_missing"], "dof_correction": spec["dof"], "prior_obs": mk_priors(spec)}
    if spec["interpret_span"] != "short":
        kw["interpret_span"] = spec["interpret_span"]
    if not (spec.get("nv_in_ctor") or spec["nv"] == 1):
        kw["num_variants"] = spec["nv"]
    return kw


def uses_target(spec) -> bool:
    return bool(spec.get("pre") or spec.get("target_db"))


def prepare_target(spec, db, ynames, xnames):
    """The working databox handed to the estimation under test as target_db: a copy of the data into which the
    earlier estimations spec["pre"] (other order / intercept / prior / sample) have written their res_* series."""
    import irispie as ir
    if not uses_target(spec):
        return None
    work = db.copy()
    s0 = sc.mk_period(spec["freq"], spec["start"])
    for st in spec.get("pre", []):
        try:
            mdl = ir.RedVAR(ynames, xnames, order=st["p"], intercept=st["intercept"], num_variants=spec["nv"])
            sp = ir.Span(s0 + st["a"], s0 + spec["N"] - 1 - st["b"])
            with np.errstate(all="ignore"):
                work = mdl.estimate(db, sp, target_db=work, omit_missing=True, dof_correction=st["dof"],
                                    prior_obs=mk_priors(st))
        except Exception:  # noqa  (too few observations for the earlier specification: the target keeps what it has)
            pass
    return work


def warm_up(spec, model, span):
    """spec["warm"]: the SAME model object has been estimated before on other data (the observations of the endogenous
    variables shifted by a deterministic pattern) and its accessors have been read, so that whatever an estimation
    caches (eigenvalues, maximum modulus, companion matrix) is populated when the estimation under test starts."""
    if not spec.get("warm"):
        return
    data = {}
    for idx, (nm, rows) in enumerate(spec["data"].items()):
        if nm.startswith("y"):
            data[nm] = [[(v + ((7 * t + 3 * idx) % 5 - 2)) if isinstance(v, (int, float)) else v for v in r]
                        for t, r in enumerate(rows)]
        else:
            data[nm] = rows
    db2 = build(dict(spec, data=data))[0]
    kw = {"num_variants": spec["nv"]} if not (spec.get("nv_in_ctor") or spec["nv"] == 1) else {}
    try:
        with np.errstate(all="ignore"):
            model.estimate(db2, span, **kw)
            for get in (model.get_eigenvalues, model.get_max_abs_eigenvalue, model.get_stability, model.get_mean,
                        model.get_companion_matrices):
                get(unpack_singleton=False)
    except Exception:  # noqa  (the earlier estimation is not the one under test)
        pass


def estimate(spec):
    """The whole call sequence of a spec through the public API: (db, span, model, estimate output)."""
    db, span, model, ynames, xnames = build(spec)
    warm_up(spec, model, span)
    kw = estimate_kwargs(spec)
    target = prepare_target(spec, db, ynames, xnames)
    if target is not None:
        kw["target_db"] = target
    return db, span, model, model.estimate(db, span, **kw)


def repro_text(spec) -> str:
    return ("import json; from harness import C18; spec = json.load(open(REPLAY))['failure']['input']['spec']; "
            "db, span, model, out = C18.estimate(spec); sim = model.simulate(out, span)   "
            "# spec['pre'] = earlier estimations written into the target databox first; spec['warm'] = the model object was "
            "estimated on other data before (C18.warm_up)")


# ====================================================================== implementation run with recorders

@contextlib.contextmanager
def recorders(events: list):
    import scipy.linalg
    import irispie.red_vars._estimators as E
    import irispie.fords.least_squares as LS
    o_ed, o_ols, o_lyap = E._get_estimation_data, LS.ordinary_least_squares, scipy.linalg.solve_discrete_lyapunov

    def w_ed(*a, **k):
        r = o_ed(*a, **k)
        events.append(("ed", [np.array(x, dtype=float).copy() for x in r[:4]] + [np.array(r[4]).copy()]))
        return r

    def w_ols(lhs, rhs, *a, **k):
        events.append(("ols", (np.array(lhs, dtype=float).copy(), np.array(rhs, dtype=float).copy())))
        return o_ols(lhs, rhs, *a, **k)

    def w_lyap(a, q, *aa, **k):
        r = o_lyap(a, q, *aa, **k)
        events.append(("lyap", np.array(r, dtype=float).copy()))
        return r

    E._get_estimation_data, LS.ordinary_least_squares, scipy.linalg.solve_discrete_lyapunov = w_ed, w_ols, w_lyap
    try:
        yield
    finally:
        E._get_estimation_data, LS.ordinary_least_squares, scipy.linalg.solve_discrete_lyapunov = o_ed, o_ols, o_lyap


def _exc(stage, e):
    return {"stage": stage, "exc": type(e).__name__, "msg": str(e)[:200]}


def run_impl(spec) -> dict:
    """Everything observable of estimate / accessors / simulate, per variant."""
    import irispie as ir
    n, m, p, N, nv = spec["n"], spec["m"], spec["p"], spec["N"], spec["nv"]
    events: list = []
    try:
        db, span, model, ynames, xnames = build(spec)
    except Exception as e:  # noqa
        return {"error": _exc("build", e)}
    acc = acc_error = sim = sim_error = None
    warm_up(spec, model, span)
    kw = estimate_kwargs(spec)
    try:
        target = prepare_target(spec, db, ynames, xnames)
    except Exception as e:  # noqa
        return {"error": _exc("target", e)}
    if target is not None:
        kw["target_db"] = target
    with recorders(events):
        try:
            with np.errstate(all="ignore"):
                out = model.estimate(db, span, **kw)
        except Exception as e:  # noqa
            return {"error": _exc("estimate", e)}
        n_est = len(events)
        try:
            systems = model.get_system_matrices(unpack_singleton=False)
        except Exception as e:  # noqa
            return {"error": _exc("get_system_matrices", e)}
        try:
            with np.errstate(all="ignore"):
                # the verdict and the maximum are read BEFORE the eigenvalues: whatever they cache is then not refreshed
                # by a later accessor
                acc = {"stable": model.get_stability(unpack_singleton=False),
                       "maxabs": model.get_max_abs_eigenvalue(unpack_singleton=False),
                       "mean": model.get_mean(unpack_singleton=False),
                       "eig": model.get_eigenvalues(unpack_singleton=False),
                       "acov": model.get_acov(up_to_order=2, unpack_singleton=False),
                       "comp": model.get_companion_matrices(unpack_singleton=False)}
            for key_ in ("mean", "eig", "acov", "comp", "maxabs", "stable"):
                if len(acc[key_]) != nv:
                    raise RuntimeError(f"{len(acc[key_])} entries of {key_} for {nv} variants")
            acc["lyap"] = [ev[1] for ev in events[n_est:] if ev[0] == "lyap"]
            if len(acc["lyap"]) != nv:
                raise RuntimeError(f"{len(acc['lyap'])} Lyapunov solutions recorded for {nv} variants")
        except Exception as e:  # noqa
            acc, acc_error = None, _exc("accessors", e)
        try:
            with np.errstate(all="ignore"):
                sim = model.simulate(out, span)
        except Exception as e:  # noqa
            sim, sim_error = None, _exc("simulate", e)
    eds = [ev[1] for ev in events[:n_est] if ev[0] == "ed"]
    # the last OLS call before the next _get_estimation_data belongs to the variant
    ols_by_variant, cur = [], None
    for kind, payload in events[:n_est]:
        if kind == "ed":
            if cur is not None:
                ols_by_variant.append(cur)
            cur = []
        elif kind == "ols" and cur is not None:
            cur.append(payload)
    if cur is not None:
        ols_by_variant.append(cur)
    if not (len(systems) == len(eds) == len(ols_by_variant) == nv) or not all(ols_by_variant):
        return {"error": {"stage": "variants", "exc": "CountMismatch",
                          "msg": f"systems={len(systems)} ed={len(eds)} ols={len(ols_by_variant)} nv={nv}"}}
    long_span = ir.Span(span.start - p, span.end)
    s0 = span.start
    res = {"variants": [], "acc_error": acc_error, "sim_error": sim_error}
    try:
        for v in range(nv):
            S = systems[v]
            y0, y1, x, k, where = eds[v]
            L, R = ols_by_variant[v][-1]
            U = np.vstack([_variant_col(out[f"res_{nm}"].get_data(span), v) for nm in ynames])
            ov = {
                "y0": y0, "y1": y1, "x": x, "k": k, "where": [bool(b) for b in where],
                "fitted": [int(per - s0) for per in model._variants[v].fitted_periods],
                "L": L, "R": R,
                "A": np.array(S.A, dtype=float), "B": np.array(S.B, dtype=float).reshape(n, m),
                "c": None if S.c is None else np.array(S.c, dtype=float),
                "cov": np.array(S.cov_residuals, dtype=float), "U": U, "acc": None, "sim": None,
            }
            if acc is not None:
                ov["acc"] = {
                    "mean": np.array(acc["mean"][v], dtype=float), "eig": np.array(acc["eig"][v], dtype=complex),
                    "T": np.array(acc["comp"][v].T, dtype=float), "P": np.array(acc["comp"][v].P, dtype=float),
                    "K": np.array(acc["comp"][v].K, dtype=float), "Om": acc["lyap"][v],
                    "acov": [np.array(a, dtype=float) for a in acc["acov"][v]],
                    "maxabs": acc["maxabs"][v], "stable": acc["stable"][v],
                }
            if sim is not None:
                ov["sim"] = np.vstack([_variant_col(sim[nm].get_data(long_span), v) for nm in ynames])
            res["variants"].append(ov)
    except Exception as e:  # noqa
        return {"error": _exc("observe", e)}
    return res


def coefficients_finite(ov) -> bool:
    return bool(np.all(np.isfinite(ov["A"])) and np.all(np.isfinite(ov["B"])) and np.all(np.isfinite(ov["cov"]))
                and (ov["c"] is None or np.all(np.isfinite(ov["c"]))))


def _variant_col(arr, v):
    arr = np.asarray(arr, dtype=float)
    if arr.ndim == 1:
        return arr
    return arr[:, v] if arr.shape[1] > 1 else arr[:, 0]


# ====================================================================== Coq rendering

def coq_v(x) -> str:
    if x is None:
        return "nan"
    x = float(x)
    if x != x or math.isinf(x):
        return "nan"
    if x == 0:
        return "(fl 0 0)"
    mant, e = math.frexp(x)
    mi = int(mant * (1 << 53))
    e -= 53
    while mi % 2 == 0:
        mi //= 2
        e += 1
    ms = f"({mi})" if mi < 0 else str(mi)
    es = f"({e})" if e < 0 else str(e)
    return f"(fl {ms} {es})"


def coq_vec(row) -> str:
    return "[" + ";".join(coq_v(v) for v in row) + "]"


def coq_mx(a, rows=None) -> str:
    a = np.asarray(a, dtype=float)
    if a.ndim == 1:
        a = a.reshape(-1, 1)
    if a.size == 0:
        nrows = a.shape[0] if rows is None else rows
        return "[" + ";".join("[]" for _ in range(nrows)) + "]"
    return "[" + ";\n    ".join(coq_vec(r) for r in a.tolist()) + "]"


def coq_bools(bs) -> str:
    return "[" + ";".join("true" if b else "false" for b in bs) + "]"


def coq_nats(ns) -> str:
    return "[" + ";".join(f"{int(i)}%nat" for i in ns) + "]"


def coq_priors(spec) -> str:
    n = spec["n"]
    out = []
    for pr in spec["priors"]:
        mu = pr["mu"] if "mu" in pr else math.sqrt(pr["mu2"])
        if pr["kind"] == "minnesota":
            rho = pr["rho"] if isinstance(pr["rho"], list) else [pr["rho"]] * n
            out.append(f"Minnesota {coq_vec(rho)} {coq_v(mu)} {pr['kappa']}%nat")
        else:
            mean = pr["mean"] if isinstance(pr["mean"], list) else [pr["mean"]] * n
            out.append(f"MeanPrior {coq_vec(mean)} {coq_v(mu)}")
    return "[" + "; ".join(out) + "]"


def variant_rows(spec, names, v):
    rows = []
    for nm in names:
        d = spec["data"][nm]
        rows.append([_f(r[v] if len(r) > 1 else r[0]) for r in d])
    return rows


def has_inf(spec) -> bool:
    return any(isinstance(v, str) for rows in spec["data"].values() for r in rows for v in r)


def coq_check(spec, v, out_v) -> str:
    n, m, p = spec["n"], spec["m"], spec["p"]
    k = int(spec["intercept"])
    ys = variant_rows(spec, [f"y{i}" for i in range(n)], v)
    xs = variant_rows(spec, [f"x{i}" for i in range(m)], v)
    ys_c = "[" + ";\n    ".join(coq_vec(r) for r in ys) + "]"
    xs_c = "[" + ";\n    ".join(coq_vec(r) for r in xs) + "]"
    if out_v is None:
        exp = "None"
    else:
        o = out_v
        c = np.zeros((n, 0)) if o["c"] is None else o["c"].reshape(n, 1)
        par = lambda f: f if f.startswith("[") or f == "None" else f"({f})"
        if o["acc"] is None:
            acc = "None"
        else:
            a = o["acc"]
            poly = np.real(np.poly(a["eig"])) if len(a["eig"]) else np.array([1.0])
            eigs = "[" + "; ".join(f"({coq_v(z.real)}, {coq_v(z.imag)})" for z in a["eig"].tolist()) + "]"
            maxabs = a["maxabs"]
            if not isinstance(maxabs, (int, float)) or isinstance(maxabs, bool):
                maxabs = None                                  # rendered as nan: never close to the model's value
            if not isinstance(a["stable"], (bool, np.bool_)):
                stable = "(Some false)" if maxabs is not None and maxabs < 1 else "(Some true)"   # not a verdict: flagged
            elif maxabs is not None and abs(maxabs - 1.0) < STAB_MARGIN:
                stable = "None"
            else:
                stable = f"(Some {'true' if a['stable'] else 'false'})"
            afields = [coq_mx(a["mean"], n), coq_vec(poly.tolist()), coq_mx(a["T"]), coq_mx(a["P"]), coq_mx(a["K"]),
                       coq_mx(a["Om"]), "[" + ";\n    ".join(coq_mx(g) for g in a["acov"]) + "]", eigs, coq_v(maxabs), stable]
            acc = "Some (mkAcc\n    " + "\n    ".join(par(f) for f in afields) + ")"
        sim = "None" if (o["sim"] is None or has_inf(spec)) else f"Some {coq_mx(o['sim'], n)}"
        fields = [
            coq_mx(o["y0"], n), coq_mx(o["y1"], n * p), coq_mx(o["x"], m), coq_mx(o["k"], k),
            coq_bools(o["where"]), coq_nats(o["fitted"]),
            coq_mx(o["L"], n), coq_mx(o["R"], n * p + m + k),
            coq_mx(o["A"], n), coq_mx(o["B"], n), coq_mx(c, n), coq_mx(o["U"], n), coq_mx(o["cov"], n),
            acc, sim,
        ]
        exp = "(Some (mkExpect\n   " + "\n   ".join(par(f) for f in fields) + "))"
    return (f"check tol {n}%nat {p - 1}%nat {m}%nat {k}%nat {'true' if spec['omit_missing'] else 'false'} "
            f"{'true' if spec['dof'] else 'false'} {coq_priors(spec)}\n   {ys_c}\n   {xs_c}\n   {exp}")


HEADER = """From Coq Require Import ZArith List Bool.
From Bignums Require Import BigQ.
From Verif Require Import lib.MxC18 model.RedVar.
Import ListNotations.
Open Scope Z_scope.
Set Printing Width 1000000.
Set Printing Depth 1000000.
Definition tol : bigQ := BigQ.Qq (BigZ.of_Z 1) (BigN.of_N 10000000).
"""

CODES = {1: "lag stacking", 2: "complete-column mask", 3: "fitted periods", 4: "OLS inputs", 5: "A", 6: "B", 7: "c",
         8: "residuals", 9: "covariance", 10: "mean", 11: "eigenvalues", 12: "companion matrices",
         13: "Lyapunov solution", 14: "autocovariances", 15: "simulation", 16: "max abs eigenvalue",
         17: "stability verdict", 90: "model: no data, impl: estimate",
         91: "model: estimate, impl: no data"}


def shard_text(items) -> str:
    lines = [HEADER]
    for i, (spec, v, out_v) in enumerate(items):
        lines.append(f"Definition c{i} : list nat :=\n  {coq_check(spec, v, out_v)}.")
    lines.append("Eval vm_compute in (failing_codes 0 [" + "; ".join(f"c{i}" for i in range(len(items))) + "]).")
    return "\n".join(lines) + "\n"


# ====================================================================== independent numpy re-statement (used by the
# falsifier and to confirm tolerance disagreements on the property residual itself)

def np_stack(spec, v):
    """Lag stacking and complete-column mask written independently of the implementation."""
    n, m, p, N = spec["n"], spec["m"], spec["p"], spec["N"]
    Y = np.array(variant_rows(spec, [f"y{i}" for i in range(n)], v), dtype=float).reshape(n, p + N)
    X = np.array(variant_rows(spec, [f"x{i}" for i in range(m)], v), dtype=float).reshape(m, p + N)
    y0 = Y[:, p:]
    y1 = np.vstack([Y[:, p - i:p - i + N] for i in range(1, p + 1)])
    x = X[:, p:]
    k = np.ones((int(spec["intercept"]), N))
    R = np.vstack([y1, x, k])
    if spec["omit_missing"]:
        w = np.all(np.isfinite(np.vstack([y0, R])), axis=0)
    else:
        w = np.ones(N, dtype=bool)
    return Y, X, y0, y1, x, k, R, w


def np_dummies(spec):
    """Dummy observations through the public methods of the prior objects."""
    from irispie.red_vars._dimensions import Dimensions
    pri = mk_priors(spec)
    n, m, p = spec["n"], spec["m"], spec["p"]
    r = n * p + m + int(spec["intercept"])
    if pri is None:
        return np.zeros((n, 0)), np.zeros((r, 0))
    dims = Dimensions(num_endogenous=n, order=p, has_intercept=spec["intercept"], num_exogenous=m)
    pri = pri if isinstance(pri, tuple) else (pri,)
    lhs = np.hstack([np.asarray(q.generate_lhs(dims), dtype=float).reshape(n, -1) for q in pri])
    rhs = np.hstack([np.asarray(q.generate_rhs(dims), dtype=float).reshape(r, -1) for q in pri])
    return lhs, rhs


def _rel(a, b=None):
    """max |a| relative to 1 + max |b|"""
    a = np.asarray(a, dtype=float)
    if a.size == 0:
        return 0.0
    sc_ = 1.0 if b is None else 1.0 + float(np.nanmax(np.abs(b))) if np.asarray(b).size else 1.0
    if not np.all(np.isfinite(a)):
        return float("inf")
    return float(np.max(np.abs(a))) / sc_


def _raise_key(spec, e) -> str:
    tags = []
    if e["stage"] == "estimate" and not spec["intercept"]:
        tags.append("intercept=False")
    if e["stage"] == "simulate":
        if spec["m"]:
            tags.append("exogenous")
        if spec["p"] >= 2:
            tags.append("order>=2")
    return f"{e['stage']}:raises:{e['exc']}" + (":" + ",".join(tags) if tags else "")


def property_checks(spec, res, first_only=False) -> list[Failure]:
    """The property C18 stated on the implementation's outputs (numpy only)."""
    n, m, p, N = spec["n"], spec["m"], spec["p"], spec["N"]
    k = int(spec["intercept"])
    fails: list[Failure] = []
    shape = f"n={n},m={m},order={p},intercept={spec['intercept']},dof={spec['dof']},priors={len(spec['priors'])}"

    tag = ":target_db" if uses_target(spec) else ""
    if spec.get("warm"):
        shape += ",model object estimated before on other data"
    if spec.get("pre"):
        shape += f",target_db after {len(spec['pre'])} earlier estimation(s) of order " + "/".join(str(st["p"]) for st in spec["pre"])

    def fail(key, what, observed=None, required=None, v=0, tagged=True):
        fails.append(Failure(key + (tag if tagged else ""), f"{what} [{shape}, variant {v}]", {"spec": spec, "variant": v}, observed, required,
                             repro_text(spec)))

    if "error" in res:
        e = res["error"]
        if e["exc"] == "ValueError" and "No data available" in e["msg"]:
            return fails
        if e["exc"] == "LinAlgError":
            return fails          # singular normal equations: outside the property (full column rank is assumed)
        fail(_raise_key(spec, e), f"RedVAR.{e['stage']} raises {e['exc']}: {e['msg']}", f"{e['exc']}: {e['msg']}", "a result")
        return fails
    Ld, Rd = np_dummies(spec)
    all_finite = True
    for v, o in enumerate(res["variants"]):
        Y, X, y0, y1, x, kk, R, w = np_stack(spec, v)
        A, B, cov, U = o["A"], o["B"], o["cov"], o["U"]
        c = np.zeros(n) if o["c"] is None else o["c"]
        nfit = int(w.sum())
        # mask: fitted periods are exactly the complete columns
        want = [int(i) for i in np.flatnonzero(w)]
        if o["fitted"] != want:
            all_finite = False
            fail("mask", "fitted periods are not exactly the periods with complete data", o["fitted"], want, v)
            continue
        Rw_all = np.hstack([R[:, w], Rd])
        if Rw_all.shape[1] < Rw_all.shape[0] or not np.all(np.isfinite(Rw_all)) \
                or not np.linalg.cond(Rw_all @ Rw_all.T) < 1e12:
            all_finite = False
            continue          # fewer observations than regressors / rank deficient: outside the property (full rank assumed)
        if not coefficients_finite(o):
            all_finite = False
            if spec["omit_missing"] and nfit - (m + k if spec["dof"] else 0) > 0:
                fail("estimate:nonfinite", "non-finite estimates from complete fitted columns", None, None, v)
            continue
        beta = np.hstack([A, B.reshape(n, m), c.reshape(n, 1)[:, :k]])
        # fit + residual = data on every fitted observation
        fit = beta @ R[:, w] + U[:, w]
        if _rel(fit - y0[:, w], y0[:, w]) > 1e-9:
            fail("fit_plus_residual", "fitted equation + stored residual does not reproduce the fitted observations",
                 _rel(fit - y0[:, w], y0[:, w]), "<= 1e-9", v)
        # normal equations / orthogonality on the fitted (+ dummy) columns
        Lw = np.hstack([y0[:, w], Ld])
        Rw = np.hstack([R[:, w], Rd])
        Uw = Lw - beta @ Rw
        scale = 1.0 + np.max(np.abs(Rw)) * (np.max(np.abs(Lw)) + np.max(np.abs(beta)) * np.max(np.abs(Rw))) * Rw.shape[1]
        ne = float(np.max(np.abs(Uw @ Rw.T))) / scale if Rw.size else 0.0
        cond = np.linalg.cond(Rw @ Rw.T) if Rw.size else 1.0
        if ne > 1e-9 and cond < 1e10:
            fail("normal_equations", "residuals are not orthogonal to the regressors on the fitted columns",
                 ne, "<= 1e-9 (relative)", v)
        # covariance = (optionally dof-corrected) second moment of the residuals on the fitted columns
        uw = U[:, w]
        accepted = [0] if not spec["dof"] else [m + k, n * p + m + k]
        ok = False
        for d in accepted:
            if nfit - d > 0 and _rel(cov - uw @ uw.T / (nfit - d), cov) <= 1e-9:
                ok = True
        if not ok and all(nfit - d > 0 for d in accepted):
            fail("cov", "residual covariance is not the (dof-corrected) second moment of the residuals", cov.tolist(),
                 (uw @ uw.T / (nfit - accepted[0])).tolist(), v)
        # companion form: mean, eigenvalues, autocovariances
        np_ = n * p
        T = np.vstack([A, np.eye(np_ - n, np_)])
        ref = np.sort_complex(np.linalg.eigvals(T))
        rho = np.max(np.abs(ref)) if np_ else 0.0
        if o["acc"] is not None:
            a = o["acc"]
            Asum = sum(A[:, i * n:(i + 1) * n] for i in range(p))
            if _rel((np.eye(n) - Asum) @ a["mean"] - c, c) > 1e-8 and np.linalg.cond(np.eye(n) - Asum) < 1e8:
                fail("mean", "(I - sum A_i) mean != c", a["mean"].tolist(), None, v)
            ev = np.sort_complex(np.array(a["eig"], dtype=complex))
            if len(ev) != np_ or np.max(np.abs(np.poly(ev) - np.poly(ref))) > 1e-7 * (1 + np.max(np.abs(np.poly(ref)))):
                fail("eigenvalues", "reported eigenvalues are not those of the companion matrix", [str(z) for z in ev],
                     [str(z) for z in ref], v)
            # the reported maximum modulus is the spectral radius of the companion matrix, the verdict is rho < 1
            mx_ = a.get("maxabs")
            if not isinstance(mx_, (int, float)) or isinstance(mx_, bool) or not abs(mx_ - rho) <= 1e-9 * (1 + rho):
                fail("max_abs_eigenvalue", "reported maximum modulus of the eigenvalues is not the spectral radius of the "
                     "companion matrix", repr(mx_), float(rho), v, tagged=False)
            if abs(rho - 1.0) >= 1e-7 and (not isinstance(a.get("stable"), (bool, np.bool_))
                                           or bool(a["stable"]) != bool(rho < 1)):
                fail("stability", f"reported stability contradicts the companion matrix (spectral radius {rho:.9g})",
                     repr(a.get("stable")), bool(rho < 1), v, tagged=False)
            if rho < 0.98:
                Sg = np.zeros((np_, np_)); Sg[:n, :n] = cov
                Om = np.linalg.solve(np.eye(np_ * np_) - np.kron(T, T), Sg.reshape(-1)).reshape(np_, np_)
                cur = Om
                for j, G in enumerate(a["acov"]):
                    if _rel(G - cur[:n, :n], cur) > 1e-7:
                        fail("acov", f"autocovariance of order {j} is not that of the companion form", G.tolist(),
                             cur[:n, :n].tolist(), v)
                        break
                    cur = T @ cur
        # simulate(estimate) = data on the estimation span, up to the first incomplete column
        if o["sim"] is not None:
            sim = o["sim"]
            first_bad = N if np.all(w) else int(np.flatnonzero(~w)[0])
            init_ok = np.all(np.isfinite(Y[:, :p]))
            if init_ok and first_bad > 0:
                growth = max(1.0, rho) ** first_bad
                err = _rel(sim[:, p:p + first_bad] - y0[:, :first_bad], y0[:, :first_bad])
                if not err <= 1e-9 * growth * 1e2:
                    key = f"roundtrip:order{'>=2' if p >= 2 else '=1'}:{'exogenous' if m else 'plain'}"
                    fail(key, "simulating the estimated VAR over the estimation span with the estimated residuals does "
                              "not return the data", err, "<= 1e-7", v)
        if first_only and fails:
            break
    # accessors / simulate must not raise on finite estimates
    for e in (res.get("acc_error"), res.get("sim_error")):
        if e is not None and all_finite and e["exc"] != "LinAlgError":
            fail(_raise_key(spec, e), f"RedVAR {e['stage']} raise {e['exc']}: {e['msg']}", f"{e['exc']}: {e['msg']}",
                 "a result")
    return fails


# ====================================================================== correspondence

def _tolerance_confirmed(spec, res, codes) -> bool:
    """A tolerance disagreement is reported only if it is not explained by conditioning (property residual fine
    and the normal equations ill-conditioned)."""
    if not set(codes) <= {5, 6, 7, 8, 9, 10, 11, 12, 13, 14, 15, 16}:
        return True
    if property_checks(spec, res):
        return True
    Ld, Rd = np_dummies(spec)
    worst = 1.0
    for v in range(len(res["variants"])):
        *_, R, w = np_stack(spec, v)
        Rw = np.hstack([R[:, w], Rd])
        worst = max(worst, np.linalg.cond(Rw @ Rw.T))
    return worst < 1e7


def correspondence(ctx) -> CorrResult:
    rng = ctx.rng
    n_specs = ctx.scale(110, 2600)
    specs = [gen_spec(rng, nodata=(i % 29 == 28)) for i in range(n_specs)]
    res = CorrResult()
    dist = {"n": {}, "m": {}, "order": {}, "intercept": {}, "dof": {}, "priors": {}, "variants": {}, "freq": {},
            "missing_columns": 0, "no_data": 0, "omit_missing_false": 0, "impl_errors": {}}
    items = []
    outs_by_id = {}
    for spec in specs:
        out = run_impl(spec)
        outs_by_id[id(spec)] = out
        for key, val in (("n", spec["n"]), ("m", spec["m"]), ("order", spec["p"]), ("intercept", spec["intercept"]),
                         ("dof", spec["dof"]), ("priors", len(spec["priors"])), ("variants", spec["nv"]),
                         ("freq", spec["freq"])):
            dist[key][str(val)] = dist[key].get(str(val), 0) + 1
        if not spec["omit_missing"]:
            dist["omit_missing_false"] += 1
        if spec.get("pre"):
            dist["target_db_with_earlier_residuals"] = dist.get("target_db_with_earlier_residuals", 0) + 1
        elif spec.get("target_db"):
            dist["target_db_plain"] = dist.get("target_db_plain", 0) + 1
        if "error" in out:
            e = out["error"]
            if e["exc"] == "ValueError" and "No data available" in e["msg"]:
                dist["no_data"] += 1
                items.append((spec, 0, None))
                continue
            dist["impl_errors"][f"{e['stage']}:{e['exc']}"] = dist["impl_errors"].get(f"{e['stage']}:{e['exc']}", 0) + 1
            if e["exc"] == "LinAlgError":
                continue
            res.disagreements.append(Disagreement(
                f"{e['stage']} raises {e['exc']} (model: defined)", {"spec": spec}, "a result", f"{e['exc']}: {e['msg']}"))
            continue
        finite = all(coefficients_finite(ov) for ov in out["variants"])
        for e in (out["acc_error"], out["sim_error"]):
            if e is not None:
                dist["impl_errors"][f"{e['stage']}:{e['exc']}"] = dist["impl_errors"].get(f"{e['stage']}:{e['exc']}", 0) + 1
                if finite and e["exc"] != "LinAlgError":
                    res.disagreements.append(Disagreement(
                        f"{e['stage']} raises {e['exc']} (model: defined)", {"spec": spec}, "a result",
                        f"{e['exc']}: {e['msg']}"))
        for v, ov in enumerate(out["variants"]):
            if not all(ov["where"]):
                dist["missing_columns"] += 1
            if not all(np.all(np.isfinite(ov[key])) for key in ("L", "R")) and not spec["omit_missing"]:
                dist["nan_in_normal_equations"] = dist.get("nan_in_normal_equations", 0) + 1
                continue         # omit_missing=False with NaN inside the normal equations: numpy returns unspecified garbage
            if not coefficients_finite(ov):
                ov = dict(ov, acc=None, sim=None)
            items.append((spec, v, ov))
    res.evaluations = len(items)
    res.distinct_nontrivial = len({json.dumps([s, v], sort_keys=True, default=str) for s, v, o in items if o is not None})
    res.distribution = dist
    res.rule = ("one generated data set (1-3 endogenous, 0-2 exogenous variables, 6 frequencies, dyadic values, missing / "
                "infinite observations, late starts, 1-2 variants) and one option set (order 1-3, intercept, dof_correction, "
                "omit_missing, Minnesota / mean prior observations, interpret_span; in 40% of the sets the estimation writes into a "
                "target databox that already holds the residuals of 1-2 earlier estimations with another order / intercept / "
                "prior / sample); evaluation = one variant driven through "
                "RedVAR(...).estimate, get_system_matrices/get_mean/get_eigenvalues/get_acov/get_companion_matrices, "
                "get_max_abs_eigenvalue/get_stability, simulate; 17 compared components each (16: the model's spectral radius of "
                "the reported eigenvalues, as exact (re, im) pairs, vs the reported maximum modulus; 17: the stability verdict); non-trivial = the estimate succeeded; distinct = distinct spec text")
    res.samples = [{"spec": {k_: v_ for k_, v_ in s.items() if k_ != "data"}, "variant": v,
                    "impl": None if o is None else {"A": o["A"].tolist(), "fitted": o["fitted"]}}
                   for s, v, o in items[:3]]
    # few, balanced shards: loading Bignums costs seconds per coqc process
    nshards = max(1, min(len(items), max(core.NCPU, -(-len(items) // 24))))
    weight = lambda it: 1 + (it[0]["n"] * it[0]["p"]) ** 4 // 40 + it[0]["N"] // 4
    shards = [[] for _ in range(nshards)]
    loads = [0] * nshards
    for it in sorted(items, key=weight, reverse=True):
        j = loads.index(min(loads))
        shards[j].append(it)
        loads[j] += weight(it)
    shards = [sh for sh in shards if sh]
    texts = [shard_text(sh) for sh in shards]
    results = core.run_cases(ctx, texts, timeout=2400)
    res.shards = len(texts)
    unconfirmed = 0
    for kx, (ok, out) in enumerate(results):
        if not ok:
            res.disagreements.append(Disagreement(f"cases shard {kx} does not evaluate", None, out[-800:], None))
            continue
        bodies = core.parse_eval_lists(out)
        if len(bodies) != 1:
            res.disagreements.append(Disagreement(f"cases shard {kx}: unparsable output", None, out[-600:], None))
            continue
        bad: dict = {}
        for i, code in re.findall(r"\((\d+)(?:%nat)?,\s*(\d+)(?:%nat)?\)", bodies[0]):
            bad.setdefault(int(i), []).append(int(code))
        for i, codes in bad.items():
            spec, v, ov = shards[kx][i]
            full = outs_by_id[id(spec)]
            if ov is not None and not _tolerance_confirmed(spec, full, codes):
                unconfirmed += 1
                continue
            res.disagreements.append(Disagreement(
                "model differs in: " + ", ".join(CODES.get(c, str(c)) for c in codes), {"spec": spec, "variant": v},
                "exact rational model", {"codes": codes}))
    if unconfirmed:
        res.notes.append(f"{unconfirmed} tolerance disagreement(s) on ill-conditioned normal equations not confirmed by the "
                         "property residual; not reported")
    return res


# ====================================================================== falsifier

def gen_noise_free(rng) -> tuple[dict, np.ndarray]:
    """Data generated exactly (dyadic coefficients, integer inputs, short span: no rounding) by a VAR."""
    n = rng.choice([1, 2, 2, 3])
    m = rng.choice([1, 1, 2])
    p = rng.choice([1, 2, 2, 3])
    intercept = rng.random() < 0.6
    k = int(intercept)
    r = n * p + m + k
    N = r + rng.randint(2, 5)
    A = np.array([[rng.randint(-2, 2) / 4.0 for _ in range(n * p)] for _ in range(n)])
    B = np.array([[rng.randint(-4, 4) / 2.0 for _ in range(m)] for _ in range(n)])
    c = np.array([rng.randint(-4, 4) / 2.0 if intercept else 0.0 for _ in range(n)])
    X = np.array([[float(rng.randint(-6, 6)) for _ in range(p + N)] for _ in range(m)])
    Y = np.zeros((n, p + N))
    Y[:, :p] = [[float(rng.randint(-6, 6)) for _ in range(p)] for _ in range(n)]
    for t in range(p, p + N):
        lags = np.concatenate([Y[:, t - i] for i in range(1, p + 1)])
        Y[:, t] = A @ lags + B @ X[:, t] + c
    data = {f"y{i}": [[float(v)] for v in Y[i]] for i in range(n)}
    data.update({f"x{i}": [[float(v)] for v in X[i]] for i in range(m)})
    freq = rng.choice([1, 4, 12, 0])
    spec = {"n": n, "m": m, "p": p, "intercept": intercept, "dof": rng.random() < 0.5, "omit_missing": True, "nv": 1,
            "freq": freq, "start": rng.randint(*FREQ_START[freq]), "N": N, "data": data, "priors": [],
            "interpret_span": "short", "nv_in_ctor": True}
    beta = np.hstack([A, B, c.reshape(n, 1)[:, :k]])
    return spec, beta


def noise_free_check(spec, beta) -> list[Failure]:
    res = run_impl(spec)
    if "error" in res:
        if res["error"]["exc"] == "LinAlgError":
            return []
        return property_checks(spec, res)
    n, m = spec["n"], spec["m"]
    k = int(spec["intercept"])
    o = res["variants"][0]
    *_, R, w = np_stack(spec, 0)
    cond = np.linalg.cond(R[:, w] @ R[:, w].T)
    if not cond < 1e8:
        return []
    c = np.zeros((n, 0)) if o["c"] is None else o["c"].reshape(n, 1)
    got = np.hstack([o["A"], o["B"].reshape(n, m), c])
    out = []
    if got.shape != beta.shape or not np.max(np.abs(got - beta)) <= 1e-15 * cond * 1e2 + 1e-9:
        out.append(Failure("noise_free", "noise-free data generated by a VAR do not return that VAR",
                           {"spec": spec, "variant": 0, "beta": beta.tolist()}, got.tolist(), beta.tolist(), repro_text(spec)))
    if np.max(np.abs(o["cov"])) > 1e-12 * cond:
        out.append(Failure("noise_free:cov", "noise-free data give a non-zero residual covariance",
                           {"spec": spec, "variant": 0, "beta": beta.tolist()}, o["cov"].tolist(), 0.0, repro_text(spec)))
    return out


def _pick_roots(rng, count, allow_complex=True):
    """`count` roots (closed under conjugation) with a designated dominant one: (roots, rho, kind).  The dominant root is
    a negative real number, a complex pair or a positive real number, inside (rho <= 0.95) or outside (rho >= 1.05) the
    unit circle; the other roots have a smaller modulus and, where possible, a LARGER real part than the dominant one."""
    kinds = ["negative", "negative", "positive"] + (["complex", "complex"] if allow_complex and count >= 2 else [])
    kind = rng.choice(kinds)
    rho = rng.choice([0.5, 0.625, 0.75, 0.875, 0.9375, 1.0625, 1.125, 1.25])
    if kind == "negative":
        roots = [complex(-rho, 0.0)]
    elif kind == "positive":
        roots = [complex(rho, 0.0)]
    else:
        re_ = rng.choice([-0.5, -0.25, 0.0, 0.125, 0.25]) * rho
        im_ = math.sqrt(rho * rho - re_ * re_)
        roots = [complex(re_, im_), complex(re_, -im_)]
    while len(roots) < count:
        r_ = rng.choice([0.25, 0.375, 0.5, 0.625, 0.75]) * rho
        if count - len(roots) >= 2 and allow_complex and rng.random() < 0.3:
            ang = rng.choice([0.25, 0.5, 0.75]) * math.pi
            roots += [complex(r_ * math.cos(ang), r_ * math.sin(ang)), complex(r_ * math.cos(ang), -r_ * math.sin(ang))]
        else:
            roots.append(complex(r_ if rng.random() < 0.8 else -r_, 0.0))
    return roots, rho, kind


def gen_from_roots(rng, noise_free=None) -> tuple[dict, np.ndarray, dict]:
    """A VAR(p) in n variables constructed from chosen companion eigenvalues (an oscillating VAR: the root of largest
    modulus is negative or a complex pair, or the usual positive one), mixed by an integer matrix of determinant 1,
    and data generated by it: noise-free (then the estimate must be that VAR) or with noise."""
    n = rng.choice([1, 2, 2, 3])
    p = rng.choice([1, 2, 2, 3])
    m = rng.choice([0, 1, 1, 2])
    intercept = rng.random() < 0.6
    noise_free = (rng.random() < 0.5) if noise_free is None else noise_free
    if noise_free and m == 0:
        m = 1                                   # exogenous excitation keeps the noise-free regressors of full rank
    k = int(intercept)
    np_ = n * p
    if p == 1:
        # y = S z, z_t = D z_{t-1}: D block diagonal with 1x1 blocks (real roots) and 2x2 rotation blocks (complex pairs)
        roots, rho, kind = _pick_roots(rng, n, allow_complex=n >= 2)
        D = np.zeros((n, n)); i = 0; used = []
        rr = list(roots)
        while rr:
            z = rr.pop(0)
            if z.imag != 0.0:
                rr.remove(z.conjugate())
                D[i:i + 2, i:i + 2] = [[z.real, -abs(z.imag)], [abs(z.imag), z.real]]; i += 2
            else:
                D[i, i] = z.real; i += 1
        blocks = [D]
    else:
        # n scalar AR(p) processes, the first one carries the dominant root; lag polynomial from the roots
        roots, rho, kind = [], None, None
        cols = []
        for v in range(n):
            if v == 0:
                rv, rho, kind = _pick_roots(rng, p)
            else:
                rv, rho_v, _ = _pick_roots(rng, p)
                rv = [z * (0.75 * rho / rho_v) for z in rv]            # strictly smaller moduli than the dominant root
            roots += rv
            cols.append(-np.real(np.poly(rv))[1:])                      # a_1 .. a_p
        blocks = [np.diag([cols[v][i] for v in range(n)]) for i in range(p)]
    S = np.eye(n)
    for _ in range(rng.choice([0, 1, 2]) if n > 1 else 0):               # integer shears: determinant 1, integer inverse
        i, j = rng.sample(range(n), 2)
        E = np.eye(n); E[i, j] = rng.choice([-1.0, 1.0])
        S = S @ E
    Sinv = np.linalg.inv(S)
    A = np.hstack([S @ Bk @ Sinv for Bk in blocks])
    r = np_ + m + k
    N = r + rng.randint(3, 7) if noise_free else r + rng.randint(6, 14)
    B = np.array([[rng.randint(-4, 4) / 2.0 for _ in range(m)] for _ in range(n)]).reshape(n, m)
    c = np.array([rng.randint(-4, 4) / 2.0 if intercept else 0.0 for _ in range(n)])
    X = np.array([[float(rng.randint(-6, 6)) for _ in range(p + N)] for _ in range(m)]).reshape(m, p + N)
    Y = np.zeros((n, p + N))
    Y[:, :p] = [[float(rng.randint(-6, 6)) for _ in range(p)] for _ in range(n)]
    for t in range(p, p + N):
        lags = np.concatenate([Y[:, t - i] for i in range(1, p + 1)])
        Y[:, t] = A @ lags + B @ X[:, t] + c
        if not noise_free:
            Y[:, t] += [rng.randint(-64, 64) / 64.0 for _ in range(n)]
    data = {f"y{i}": [[float(v)] for v in Y[i]] for i in range(n)}
    data.update({f"x{i}": [[float(v)] for v in X[i]] for i in range(m)})
    freq = rng.choice([1, 4, 12, 0])
    spec = {"n": n, "m": m, "p": p, "intercept": intercept, "dof": rng.random() < 0.5, "omit_missing": True, "nv": 1,
            "freq": freq, "start": rng.randint(*FREQ_START[freq]), "N": N, "data": data, "priors": [],
            "interpret_span": "short", "nv_in_ctor": True, "warm": rng.random() < 0.4}
    beta = np.hstack([A, B, c.reshape(n, 1)[:, :k]])
    meta = {"roots": [[z.real, z.imag] for z in roots], "rho": rho, "dominant": kind, "noise_free": bool(noise_free)}
    return spec, beta, meta


def roots_check(spec, beta, meta) -> list[Failure]:
    """The property on a VAR built from chosen roots: everything property_checks states (in particular the reported
    eigenvalues / maximum modulus / stability against the companion matrix of the estimate) and, on noise-free data,
    that the VAR returned - hence its spectral radius and its stability verdict - is the generating one."""
    res = run_impl(spec)
    out = property_checks(spec, res)
    if "error" in res or not meta["noise_free"]:
        return out
    n, m = spec["n"], spec["m"]
    o = res["variants"][0]
    *_, R, w = np_stack(spec, 0)
    cond = np.linalg.cond(R[:, w] @ R[:, w].T)
    if not cond < 1e8 or not coefficients_finite(o):
        return out
    inp = {"spec": spec, "variant": 0, "beta": beta.tolist(), "meta": meta}
    c = np.zeros((n, 0)) if o["c"] is None else o["c"].reshape(n, 1)
    got = np.hstack([o["A"], o["B"].reshape(n, m), c])
    scale_ = 1.0 + float(np.max(np.abs(beta)))
    if got.shape != beta.shape or not np.max(np.abs(got - beta)) <= (1e-15 * cond * 1e2 + 1e-9) * scale_:
        out.append(Failure("noise_free", "noise-free data generated by a VAR do not return that VAR", inp, got.tolist(),
                           beta.tolist(), repro_text(spec)))
        return out
    if o["acc"] is not None:
        rho = meta["rho"]
        mx_ = o["acc"].get("maxabs")
        if not isinstance(mx_, (int, float)) or not abs(mx_ - rho) <= 1e-4 * (1 + rho):
            out.append(Failure("noise_free:max_abs_eigenvalue",
                               f"noise-free data generated by a VAR with spectral radius {rho} (dominant root: {meta['dominant']}) "
                               "return another maximum modulus of the eigenvalues", inp, repr(mx_), rho, repro_text(spec)))
        if bool(o["acc"].get("stable")) != bool(rho < 1):
            out.append(Failure("noise_free:stability",
                               f"noise-free data generated by a VAR with spectral radius {rho} (dominant root: {meta['dominant']}) "
                               "return the wrong stability verdict", inp, repr(o["acc"].get("stable")), bool(rho < 1),
                               repro_text(spec)))
    return out


def falsify(ctx, hints):
    rng = ctx.rng
    fails: list[Failure] = []
    info = {"specs": 0, "variants_checked": 0, "noise_free": 0, "from_disagreements": 0}
    # start from the disagreements of the correspondence
    for d in (hints or {}).get("disagreements", [])[:20]:
        inp = d.get("input") if isinstance(d, dict) else None
        if isinstance(inp, dict) and "spec" in inp:
            info["from_disagreements"] += 1
            fails += property_checks(inp["spec"], run_impl(inp["spec"]))
    n = ctx.scale(120, 2600)
    for it in range(n):
        spec = gen_spec(rng, nodata=False)
        res = run_impl(spec)
        info["specs"] += 1
        info["variants_checked"] += len(res.get("variants", []))
        fails += property_checks(spec, res)
        if len(fails) > 60:
            break
    for it in range(ctx.scale(60, 1200)):
        spec, beta = gen_noise_free(rng)
        info["noise_free"] += 1
        fails += noise_free_check(spec, beta)
        if len(fails) > 80:
            break
    info["from_roots"] = 0
    info["dominant_root"] = {}
    for it in range(ctx.scale(80, 1500)):
        spec, beta, meta = gen_from_roots(rng)
        info["from_roots"] += 1
        tag = f"{meta['dominant']}:{'outside' if meta['rho'] > 1 else 'inside'}:{'noise-free' if meta['noise_free'] else 'noisy'}"
        info["dominant_root"][tag] = info["dominant_root"].get(tag, 0) + 1
        fails += roots_check(spec, beta, meta)
        if len(fails) > 100:
            break
    seen, uniq = set(), []
    for f_ in fails:
        if f_.key not in seen:
            seen.add(f_.key)
            uniq.append(f_)
    # the smallest failing input of each kind first
    info["failure_keys"] = sorted(seen)
    return uniq, info


def replay(ctx, failure: dict):
    inp = failure.get("input") or {}
    spec = inp.get("spec")
    if spec is None:
        return None
    if "meta" in inp:
        fs = roots_check(spec, np.array(inp["beta"], dtype=float), inp["meta"])
    elif failure["key"].startswith("noise_free"):
        fs = noise_free_check(spec, np.array(inp["beta"], dtype=float))
    else:
        fs = property_checks(spec, run_impl(spec))
    for f_ in fs:
        if f_.key == failure["key"]:
            return f_
    return None
