"""C06  Nonlinear simulations satisfy the equations; match first order when linear."""
from __future__ import annotations

import contextlib
import io
import math
import re as _re

import numpy as np

from vf import core
from vf.core import CorrResult, Disagreement, Failure, coq_float, coq_z, coq_list, coq_bool
from translator import frames as tr
from translator import simreport as tr2

ID = "C06"
PROPS = "props/C06.v"
GENERATED = [tr.OUT, tr2.OUT]
CASE_DEPS = ["model/Frames.vo", "model/Stacked.vo", "lib/StackedCase.vo", "model/SimReport.vo", "lib/SimReportCase.vo"]
ALLOWED_AXIOMS = {
    "sig_forall_dec", "sig_not_dec", "functional_extensionality_dep",
    "ClassicalDedekindReals.sig_forall_dec", "ClassicalDedekindReals.sig_not_dec",
    "FunctionalExtensionality.functional_extensionality_dep",
    "classic", "Classical_Prop.classic",
}
TRUSTED = [
    "translator/frames.py (Frame.resolve_columns of frames.py -> gen/FramesGen.v)",
    "translator/simreport.py (statement shapes of Inlay.simulate's loops and failure report, of the four streams of "
    "wrongdoings.py, of the fallbacks/overwrites blocks of _slatable_for_simulate_or_kalman_filter and of "
    "Variant.from_databox_variant -> gen/SimReportGen.v)",
    "the damped Newton solver (neqs) is an oracle: the frame data it leaves behind and its exit status are recorded "
    "by wrapping stacked_time.simulators.simulate_frame from the harness; the model takes them as an argument",
    "algorithmic differentiation (C02), the first-order solution matrices (C01) and numpy/scipy sparse algebra are "
    "contracts: only the index bookkeeping around them is modelled and compared exactly",
    "the independent Python evaluator of the generated model equations inside harness/C06.py (falsifier)",
]
ASSUMPTIONS = [
    "simulation spans are contiguous increasing ranges of one frequency; periods are modelled as integer serials "
    "(Period - Period = difference of serials is C09's theorem)",
    "theorems about residuals are over Coq's real numbers (no rounding); the float data are used for the "
    "correspondence only",
    "linear_agrees takes the first-order path as a hypothesis (it satisfies every equation with leads read from its "
    "own continuation: C01) and 'the stacked Jacobian is non-singular' as injectivity of the linear part",
    "models with a flat (stationary) steady state; parameter variants are simulated and checked one by one, each on its "
    "own data (the frame loop of a variant is the modelled unit)",
    "'simulate reports success' is read as: with when_fails in {critical, error, warning} simulate() returns normally and "
    "a frame is not listed in an IrisPieWarning 'Simulation failed to complete'; with when_fails='silent' the exit "
    "statuses of return_info are the report.  The per-frame exit status (Newton) is an oracle of the report model",
    "the equations in force are the model's (its own parameter values) unless parameters_from_data=True is passed; "
    "names of parameters, shocks and stds are disjoint (one group per name) in the row theorem",
]

MANIFEST = {
    "technique": "Coq proof over an executable model of frames / wrt_spots / stacking / terminal condition / write-back "
                 "(model/Frames.v, model/Stacked.v); exact correspondence of all index bookkeeping recorded from "
                 "Simultaneous.simulate; tolerance comparison of paths with the first-order simulator",
    "level_text": "Theorems (props/C06.v), for every span length, number of frames, equations and quantities: the frames "
                  "built from any break-point vector tile the base span in order and each starts at a break point; "
                  "period-by-period frames are the single-period frames; the set of unknown cells equals "
                  "endogenous x columns minus exogenized plus endogenized, is strictly sorted, and has as many elements "
                  "as there are stacked equations iff #exogenized = #endogenized; the stacking map is a bijection and the "
                  "max-norm test holds iff every transition equation in every simulated column is within tolerance with "
                  "leads beyond the last column read through the terminal operator in force; writing a guess and writing a "
                  "frame back leave every cell outside the unknown cells / outside the frame slice (and every exogenized "
                  "cell) unchanged; for affine equations and an affine terminal operator the first-order path is a zero of "
                  "the stacked system and the only one when the linear part is injective. For any number of variants and "
                  "frames and any per-frame exit statuses, simulate() with when_fails in {critical, error, warning} returns "
                  "normally without a warning iff every frame of every variant reports success (statement shapes of the "
                  "loops of Inlay.simulate and of the streams of wrongdoings.py regenerated from the source); the dataslate "
                  "row of a parameter / shock / std name is the model's value whatever the databox holds when the group's "
                  "*_from_data flag is off, and the databox's values with the model's value in the gaps when it is on "
                  "(blocks of _slatable_for_simulate_or_kalman_filter, flag wiring of simulate(), order of fallbacks and "
                  "overwrites regenerated from the source). The Newton iteration, AD "
                  "Jacobian values and first-order matrices are contracts.",
    "level_note": "partial: Newton convergence, Jacobian values (C02) and the first-order solution (C01) are contracts; the "
                  "model is tied to the code by exact correspondence of frames, unknown cells, index maps, pruning and "
                  "write-back recorded from Simultaneous.simulate, and by a tolerance comparison of paths. Trusted: Coq "
                  "kernel + vm_compute, translator/frames.py, harness, Reals axioms.",
}


def translate(ctx):
    tr.run()
    tr2.run()


# =====================================================================================
# 1. generated models: own AST, rendered to irispie source and evaluated independently
# =====================================================================================
#
# spec = {
#   "n": number of transition variables x0..x{n-1},
#   "log": [bool]*n            log-variables (positive steady state),
#   "exo": bool                one exogenous variable w
#   "meas": bool               one measurement variable ox0 = x0 + eo
#   "linear_flag": bool        passed to from_string(linear=...)
#   "eqs": [ {"form": "lin"|"log", "c": const, "rho": ar coefficient (parameter rho{i}),
#             "terms": [ {"a": coef, "f": [(j, shift), ...]} ]   product of factors (1 factor = linear term)
#             "sq": [(b, j, shift)]  b * xj{shift}^2
#             "shock": bool, "w": coefficient on w or 0.0 } ]
# }

def _coef(rng, lo, hi):
    return round(rng.uniform(lo, hi) * rng.choice([-1, 1]), 2)


def gen_model(rng, kind: str) -> dict:
    """kind in {"linear", "nonlinear", "backward_linear", "backward_nonlinear"}"""
    backward = kind.startswith("backward")
    linear = kind.endswith("linear") and not kind.endswith("nonlinear")
    n = rng.choice([1, 2, 2, 3, 3, 4])
    log = [False] * n
    if not linear and rng.random() < 0.5:
        log = [rng.random() < 0.5 for _ in range(n)]
    exo = rng.random() < 0.5
    meas = rng.random() < 0.4
    eqs = []
    for i in range(n):
        form = "log" if log[i] else "lin"
        rho = round(rng.uniform(0.1, 0.7), 2)
        c = round(rng.uniform(0.5, 2.0), 2)
        terms = []
        budget = 0.9 - rho
        nt = rng.randint(0, 3)
        for _ in range(nt):
            j = rng.randrange(n)
            if backward:
                s = rng.choice([0, -1, -1, -2])
            else:
                s = rng.choice([0, -1, -2, 1, 1, 2])
            if j == i and s in (0, -1):
                s = 1 if not backward else -2
            a = round(rng.uniform(0.03, max(0.04, budget / (nt + 1))) * rng.choice([-1, 1]), 2)
            if a == 0.0:
                continue
            budget -= abs(a)
            terms.append({"a": a, "f": [(j, s)]})
        sq = []
        if not linear:
            r = rng.random()
            if r < 0.5:
                j = rng.randrange(n)
                s = rng.choice([-1, 0] if backward else [-1, 0, 1])
                if j == i and s == 0:
                    s = -1
                sq.append((round(rng.uniform(0.01, 0.06), 3) * rng.choice([-1, 1]), j, s))
            if r > 0.3 and form == "lin":
                j, k = rng.randrange(n), rng.randrange(n)
                s1 = rng.choice([-1, 0] if backward else [-1, 0, 1])
                s2 = -1
                if j == i and s1 == 0:
                    s1 = -1
                terms.append({"a": round(rng.uniform(0.01, 0.05), 3) * rng.choice([-1, 1]), "f": [(j, s1), (k, s2)]})
        has_shock = rng.random() < 0.85 or i == 0
        # the exogenous variable may enter with a lag or a lead DEEPER than any lag/lead of an endogenous variable
        # (the pre-sample / post-sample columns of the data must then come from it)
        ws = 0
        if exo and rng.random() < 0.5:
            ws = rng.choice([-1, -2, -3, -3, -4] if (backward or rng.random() < 0.6) else [1, 2, 3, 3])
        # a lagged shock (nonlinear models only: the first-order simulator does not time lagged shocks)
        sl = None
        if has_shock and not linear and rng.random() < 0.2:
            sl = (round(rng.uniform(0.2, 0.6), 2), rng.choice([1, 2, 3, 4]))
        eqs.append({"form": form, "c": c, "rho": rho, "terms": terms, "sq": sq,
                    "shock": has_shock,
                    "w": (round(rng.uniform(0.1, 0.5), 2) if exo and (i == 0 or rng.random() < 0.4) else 0.0),
                    "ws": ws, "sl": sl})
    # parameter variants: the autoregressive coefficients differ across variants
    nv = rng.choice([1, 1, 1, 2, 2, 3])
    rho_v = [[e["rho"] for e in eqs]]
    for _ in range(1, nv):
        rho_v.append([round(min(0.75, max(0.05, e["rho"] + rng.uniform(-0.1, 0.1))), 2) for e in eqs])
    return {"n": n, "log": log, "exo": exo, "meas": meas, "linear": linear, "backward": backward,
            "linear_flag": bool(linear and rng.random() < 0.5), "eqs": eqs, "nv": nv, "rho_v": rho_v}


def _ref(spec, j, s, logarg=False):
    nm = f"x{j}"
    sh = "" if s == 0 else "{%+d}" % s
    if spec["log"][j]:
        return f"log({nm}{sh})"
    return nm + sh


def model_source(spec) -> str:
    n = spec["n"]
    L = ["!transition-variables", "    " + ", ".join(f"x{i}" for i in range(n))]
    if any(spec["log"]):
        L += ["!log-variables", "    " + ", ".join(f"x{i}" for i in range(n) if spec["log"][i])]
    sh = [f"e{i}" for i in range(n) if spec["eqs"][i]["shock"]]
    L += ["!transition-shocks", "    " + ", ".join(sh)]
    L += ["!parameters", "    " + ", ".join(f"rho{i}" for i in range(n))]
    if spec["exo"]:
        L += ["!exogenous-variables", "    w"]
    L += ["!transition-equations"]
    for i, e in enumerate(spec["eqs"]):
        if e["form"] == "log":
            rhs = [f"(1-rho{i})*{math.log(e['c'])!r}", f"rho{i}*log(x{i}{{-1}})"]
            lhs = f"log(x{i})"
        else:
            rhs = [f"{e['c']!r}", f"rho{i}*x{i}{{-1}}"]
            lhs = f"x{i}"
        for t in e["terms"]:
            rhs.append(f"({t['a']!r})*" + "*".join(_ref(spec, j, s) for j, s in t["f"]))
        for b, j, s in e["sq"]:
            rhs.append(f"({b!r})*{_ref(spec, j, s)}^2")
        if e["shock"]:
            rhs.append(f"e{i}")
            if e.get("sl"):
                rhs.append(f"({e['sl'][0]!r})*e{i}{{-{e['sl'][1]}}}")
        if e["w"]:
            rhs.append(f"({e['w']!r})*w" + ("" if not e.get("ws") else "{%+d}" % e["ws"]))
        L.append(f"    {lhs} = " + " + ".join(rhs) + ";")
    if spec["meas"]:
        L += ["!measurement-variables", "    ox0", "!measurement-shocks", "    eo0", "!measurement-equations",
              "    ox0 = x0 + eo0;"]
    return "\n".join(L) + "\n"


def eval_residual(spec, i, get, t) -> float:
    """Residual lhs - rhs of transition equation i at date t; get(name, t) returns the value of a databox name at t.
    The shock entering the equation is the sum of the unanticipated and the anticipated value."""
    e = spec["eqs"][i]

    def v(j, s):
        x = get(f"x{j}", t + s)
        return math.log(x) if spec["log"][j] else x
    rho = get(f"rho{i}", t)
    if e["form"] == "log":
        lhs = math.log(get(f"x{i}", t))
        rhs = (1 - rho) * math.log(e["c"]) + rho * math.log(get(f"x{i}", t - 1))
    else:
        lhs = get(f"x{i}", t)
        rhs = e["c"] + rho * get(f"x{i}", t - 1)
    for tm in e["terms"]:
        p = tm["a"]
        for j, s in tm["f"]:
            p *= v(j, s)
        rhs += p
    for b, j, s in e["sq"]:
        rhs += b * v(j, s) ** 2
    if e["shock"]:
        rhs += get(f"e{i}", t) + get(f"ant_e{i}", t)
        if e.get("sl"):
            a, L = e["sl"]
            rhs += a * (get(f"e{i}", t - L) + get(f"ant_e{i}", t - L))
    if e["w"]:
        rhs += e["w"] * get("w", t + (e.get("ws") or 0))
    return lhs - rhs


def model_shifts(spec, endogenous_only=False):
    """(deepest lag, deepest lead) over the equations, computed from the generated AST, never from the model object"""
    lo, hi = -1, 0
    for e in spec["eqs"]:
        for tm in e["terms"]:
            for _, s in tm["f"]:
                lo, hi = min(lo, s), max(hi, s)
        for _, _, s in e["sq"]:
            lo, hi = min(lo, s), max(hi, s)
        if not endogenous_only:
            if e["w"] and e.get("ws"):
                lo, hi = min(lo, e["ws"]), max(hi, e["ws"])
            if e["shock"] and e.get("sl"):
                lo = min(lo, -e["sl"][1])
    return lo, hi


_MODEL_CACHE: dict = {}


def build_model(spec):
    """Simultaneous.from_string + steady + solve; returns None when irispie cannot solve the model."""
    import irispie as ir
    key = repr(spec)
    if key in _MODEL_CACHE:
        return _MODEL_CACHE[key]
    m = None
    try:
        with contextlib.redirect_stdout(io.StringIO()):
            m = ir.Simultaneous.from_string(model_source(spec), linear=spec["linear_flag"])
            m.assign(**{f"rho{i}": e["rho"] for i, e in enumerate(spec["eqs"])})
            if spec["exo"]:
                m.assign(w=0.0)
            for i in range(spec["n"]):
                if spec["log"][i]:
                    m.assign(**{f"x{i}": 1.0})
            nv = spec.get("nv", 1)
            if nv > 1:
                m.alter_num_variants(nv)
                m.assign(**{f"rho{i}": [spec["rho_v"][v][i] for v in range(nv)] for i in range(spec["n"])})
            m.steady()
            chk = m.check_steady(when_fails="silent") if hasattr(m, "check_steady") else True
            m.solve()
        lv = m.get_steady_levels()
        ch = m.get_steady_changes()
        for i in range(spec["n"]):
            for v in range(spec.get("nv", 1)):
                x = float(np.ravel(lv[f"x{i}"])[v])
                c = float(np.ravel(ch[f"x{i}"])[v])
                flat = abs(c - 1) < 1e-9 if spec["log"][i] else abs(c) < 1e-9
                if not math.isfinite(x) or abs(x) > 20 or (spec["log"][i] and x <= 0.05) or not flat:
                    m = None          # only models with a moderate, flat steady state are used
                    break
            if m is None:
                break
    except Exception:  # noqa  -- a model irispie cannot solve is not a case
        m = None
    _MODEL_CACHE[key] = m
    return m


# =====================================================================================
# 2. one simulation case
# =====================================================================================
#
# case = {"spec": ..., "start": serial of the first base period (quarterly), "nper": T,
#         "method": "stacked_time"|"period_by_period", "terminal": ..., "initial_guess": ...,
#         "values": [ {name: {offset: value}} per parameter variant ]   overrides of the steady databox, offsets relative to start
#         "plan": [ (register, offset, name) ... ],   "step_tol": None | float }

def gen_case(rng, spec, tier_long=False) -> dict:
    lo, hi = model_shifts(spec)
    elo, ehi = model_shifts(spec, endogenous_only=True)
    T = rng.randint(1, 12 if tier_long else 9)
    method = "stacked_time"
    if spec["backward"] or rng.random() < 0.12:
        method = rng.choice(["period_by_period", "period_by_period", "stacked_time"])
    if method == "period_by_period":
        T = min(T, 7)
    terminal = rng.choice(["first_order", "first_order", "data"])
    if ehi <= 0 < hi:
        # the only lead sits on the exogenous variable: the first-order Terminator of the current code raises
        # (zip(*()) in Terminator.__init__: no terminal unknowns) before anything is simulated -- not a case
        terminal = "data"
    ig = rng.choice(["first_order", "data"])
    n = spec["n"]
    nv = spec.get("nv", 1)
    shocks = [f"e{i}" for i in range(n) if spec["eqs"][i]["shock"]]
    w_varies = spec["exo"] and rng.random() < (0.5 if spec["linear"] else 0.9)

    def draw_values() -> dict:
        """Overrides of the steady databox for ONE variant (every variant gets its own shock dates and paths)."""
        values: dict = {}

        def put(name, off, val):
            values.setdefault(name, {})[off] = val
        # unanticipated shocks (-> frames), anticipated shocks
        for _ in range(rng.choice([0, 1, 1, 2, 3])):
            put(rng.choice(shocks), rng.randrange(T), round(rng.uniform(0.05, 0.5) * rng.choice([-1, 1]), 3))
        for _ in range(rng.choice([0, 0, 1, 2])):
            put("ant_" + rng.choice(shocks), rng.randrange(T), round(rng.uniform(0.05, 0.5) * rng.choice([-1, 1]), 3))
        if rng.random() < 0.15 and T > 1:            # an explicit zero or NaN shock value is not a break point
            put(rng.choice(shocks), rng.randrange(1, T), rng.choice([0.0, float("nan"), -0.0]))
        # pre-sample shocks matter when a shock enters with a lag
        for i in range(n):
            e = spec["eqs"][i]
            if e["shock"] and e.get("sl"):
                for off in range(-e["sl"][1], 0):
                    if rng.random() < 0.7:
                        put(f"e{i}", off, round(rng.uniform(-0.3, 0.3), 3))
        if w_varies:
            # time-varying exogenous path over the whole window the equations can read (pre-sample, span, post-sample)
            for off in range(lo, T + hi):
                if rng.random() < 0.8:
                    put("w", off, round(rng.uniform(-0.3, 0.3), 3))
        # initial conditions off the steady state (multiplicative for log variables)
        for i in range(n):
            for off in range(elo, 0):
                if rng.random() < 0.6:
                    put(f"x{i}", off, ("rel", round(rng.uniform(-0.2, 0.2), 3)))
        # data after the end of the span (read by terminal="data")
        if rng.random() < 0.4:
            for i in range(n):
                for off in range(T, T + ehi):
                    put(f"x{i}", off, ("rel", round(rng.uniform(-0.1, 0.1), 3)))
        return values

    vvalues = [draw_values() for _ in range(nv)]
    plan = []
    if rng.random() < 0.3:
        # exactly identified swaps: exogenize x_i at t, endogenize the shock of equation i (at t, or earlier when anticipated)
        cand = [i for i in range(n) if spec["eqs"][i]["shock"] and not spec["eqs"][i].get("sl")]
        for _ in range(rng.choice([1, 1, 2]) if cand else 0):
            i = rng.choice(cand)
            k = f"e{i}"
            off = rng.randrange(T)
            if any(p[2] in (f"x{i}", k, "ant_" + k) for p in plan):
                continue
            if method == "period_by_period" or rng.random() < 0.5:
                plan.append(("exogenized_unanticipated", off, f"x{i}"))
                plan.append(("endogenized_unanticipated", off, k))
            else:
                off2 = off if rng.random() < 0.5 else rng.randrange(0, off + 1)
                plan.append(("exogenized_anticipated", off, f"x{i}"))
                plan.append(("endogenized_anticipated", off2, "ant_" + k))
            for values in vvalues:
                values.setdefault(f"x{i}", {})[off] = ("rel", round(rng.uniform(-0.05, 0.05), 3))
        # an anticipated swap must live inside one frame (in every variant): no break point in (off2, off]
        for reg, off, name in list(plan):
            if reg != "exogenized_anticipated":
                continue
            off2 = [p[1] for p in plan if p[0] == "endogenized_anticipated" and p[2] == "ant_e" + name[1:]][0]
            for values in vvalues:
                for sh in shocks:
                    for o in list(values.get(sh, {})):
                        if off2 < o <= off:
                            del values[sh][o]
            plan = [p for p in plan if not (p[0].endswith("_unanticipated") and off2 < p[1] <= off)]
        # unanticipated swaps come in pairs; drop orphans left by the filter above
        ex = {(p[1], p[2][1:]) for p in plan if p[0] == "exogenized_unanticipated"}
        en = {(p[1], p[2][1:]) for p in plan if p[0] == "endogenized_unanticipated"}
        plan = [p for p in plan if not p[0].endswith("_unanticipated") or ((p[1], p[2][1:]) in ex & en)]
    step_tol = rng.choice([None, 1e10, 1e10, 1e10])
    # non-default output options of simulate, and input series with fewer variants than the model (broadcast)
    opts = {"remove_terminal": rng.random() < 0.3, "remove_initial": rng.random() < 0.8,
            "prepend_input": rng.random() < 0.8, "collapse_equal_variants": nv > 1 and rng.random() < 0.4}
    # --- how a failure is reported, and a solver that is made to fail in some frames (tiny iteration limit together
    #     with a large shock early in the span: strong nonlinearity at the start, near-steady dynamics at the end)
    when_fails = rng.choice(["silent", "silent", "critical", "critical", "error", "error", "warning", "warning"])
    max_iter = None
    if rng.random() < (0.45 if not spec["linear"] else 0.1):
        max_iter = rng.choice([1, 1, 1, 2, 2, 3, 4])
        if not plan and rng.random() < 0.85:
            for values in vvalues:
                sh = rng.choice(shocks)
                values.setdefault(sh, {})[0] = round(rng.uniform(0.4, 1.2) * rng.choice([-1, 1]), 3)
                if T > 2 and rng.random() < 0.6:          # a small late shock: one more (easy) frame for stacked_time
                    values.setdefault(rng.choice(shocks), {})[rng.randrange(T // 2 + 1, T)] = \
                        round(rng.uniform(1e-4, 1e-3), 5)
    # --- the input databox carries entries named like parameters whose values are NOT the model's (a databox made
    #     for another parametrisation), and the *_from_data flags of simulate
    stale = None
    if rng.random() < 0.4:
        stale = {"form": rng.choice(["value", "value", "series"]), "rho": []}
        for v in range(nv):
            row = []
            for i in range(n):
                r0 = spec["rho_v"][v][i] if spec.get("rho_v") else spec["eqs"][i]["rho"]
                row.append(None if rng.random() < 0.3 else
                           round(min(0.85, max(0.02, r0 + rng.choice([-1, 1]) * rng.uniform(0.08, 0.3))), 3))
            stale["rho"].append(row)
        if nv > 1:      # a list-valued entry needs a value in every variant
            for i in range(n):
                if any(stale["rho"][v][i] is None for v in range(nv)) and any(stale["rho"][v][i] is not None for v in range(nv)):
                    for v in range(nv):
                        if stale["rho"][v][i] is None:
                            stale["rho"][v][i] = spec["rho_v"][v][i]
    flags = {}
    if rng.random() < 0.3:
        flags["stds_from_data"] = rng.random() < 0.5
    if rng.random() < 0.2:
        flags["parameters_from_data"] = False
    elif stale is not None and rng.random() < 0.2:
        flags["parameters_from_data"] = True
    return {"spec": spec, "start": 8000 + rng.randint(0, 40), "nper": T, "method": method, "terminal": terminal,
            "initial_guess": ig, "values": vvalues, "plan": plan, "step_tol": step_tol, "opts": opts,
            "when_fails": when_fails, "max_iter": max_iter, "stale": stale, "flags": flags}


def _qq(serial):
    import irispie as ir
    from irispie import dates as d
    return d.PERIOD_CLASS_FROM_FREQUENCY_RESOLUTION[d.Frequency(4)](serial)


def make_input(case, m):
    """Databox.steady over the window the equations can read (computed from the generated AST, not from the model's own
    max_lag / max_lead) plus the per-variant overrides of the case; returns (databox, span, plan)."""
    import irispie as ir
    spec = case["spec"]
    s0 = case["start"]
    T = case["nper"]
    nv = spec.get("nv", 1)
    lo, hi = model_shifts(spec)
    span = ir.Span(_qq(s0), _qq(s0 + T - 1))
    db = ir.Databox.steady(m, ir.Span(_qq(s0 + lo), _qq(s0 + T - 1 + hi)), deviation=False)
    cells: dict = {}
    for v, values in enumerate(case["values"]):
        for name, cs in values.items():
            for off, val in cs.items():
                cells.setdefault((name, int(off)), {})[v] = val
    for (name, off), per_variant in cells.items():
        per = _qq(s0 + off)
        row = [float(x) for x in np.ravel(db[name].get_data(per))]
        if len(row) < nv:
            row = row + [row[-1]] * (nv - len(row))
        for v, val in per_variant.items():
            if isinstance(val, (tuple, list)):
                base = row[v]
                i = int(name[1:])
                val = base * (1 + val[1]) if (spec["log"][i] or abs(base) > 0.3) else base + val[1]
            row[v] = float("nan") if val == "nan" else float(val)
        db[name][per] = row if nv > 1 else row[0]
    stale = case.get("stale")
    if stale:
        full = ir.Span(_qq(s0 + lo - 1), _qq(s0 + T - 1 + hi + 1))
        for i in range(spec["n"]):
            vals = [stale["rho"][v][i] for v in range(nv)]
            if all(x is None for x in vals):
                continue
            vals = [float(x) for x in vals]
            if stale.get("form") == "series":
                db[f"rho{i}"] = ir.Series(start=full.start, values=np.tile(np.array([vals], dtype=float), (len(full), 1)))
            else:
                db[f"rho{i}"] = vals if nv > 1 else vals[0]
    if nv > 1 and case.get("opts", {}).get("collapse_equal_variants"):
        # a series whose variants are all equal is passed with a single variant (the last variant is repeated)
        for name in list(db.keys()):
            x = db[name]
            if hasattr(x, "data") and hasattr(x, "start") and x.data.shape[1] > 1:
                d = x.data
                same = all(np.array_equal(d[:, 0], d[:, k], equal_nan=True) for k in range(1, d.shape[1]))
                if same and x.start is not None:
                    db[name] = ir.Series(start=x.start, values=d[:, :1].copy())
    plan = None
    if case["plan"]:
        plan = ir.PlanSimulate(m, span) if hasattr(ir, "PlanSimulate") else ir.SimulationPlan(m, span)
        for reg, off, name in case["plan"]:
            getattr(plan, {"exogenized_unanticipated": "exogenize_unanticipated",
                           "endogenized_unanticipated": "endogenize_unanticipated",
                           "exogenized_anticipated": "exogenize_anticipated",
                           "endogenized_anticipated": "endogenize_anticipated"}[reg])(_qq(s0 + off), name)
    return db, span, plan


# =====================================================================================
# 3. running the implementation with recorders (black boxes are wrapped from outside)
# =====================================================================================

class _Patch:
    def __init__(self):
        self.saved = []

    def set(self, obj, name, new):
        self.saved.append((obj, name, getattr(obj, name)))
        setattr(obj, name, new)

    def restore(self):
        for obj, name, old in reversed(self.saved):
            setattr(obj, name, old)
        self.saved = []


def run_sim(case, m=None) -> dict:
    """Run Simultaneous.simulate on the case; returns a JSON-able record of what the implementation built."""
    import irispie as ir
    from irispie.stacked_time import simulators as st_sim
    from irispie.stacked_time import _evaluators as st_eval
    from irispie.stacked_time import _jacobians as st_jac
    from irispie.period_by_period import simulators as pbp_sim
    from irispie import frames as fr_mod

    spec = case["spec"]
    if m is None:
        m = build_model(spec)
    if m is None:
        return {"skip": "model cannot be solved"}
    db, span, plan = make_input(case, m)
    rec: dict = {"variants": {}}
    P = _Patch()
    cur: dict = {}
    state = {"vid": 0}
    from irispie.simultaneous import _simulate as sim_mod
    orig_header = sim_mod._create_simulation_header

    rec["headers"] = {}          # header text -> (variant, index of the frame among the variant's frames)
    rec["statuses"] = {}         # variant -> [is_success of every frame that was run]
    rec["nframes"] = {}          # variant -> number of frames created

    def create_simulation_header(vid, frame):
        state["vid"] = int(vid)          # the variant the frame loop is working on
        h = orig_header(vid, frame)
        rec["headers"][h] = (int(vid), len(rec["statuses"].get(int(vid), [])))
        return h

    def wrap_create_frames(mod):
        orig = mod.create_frames

        def create_frames(model_v, dataslate_v, plan_, **kw):
            frames = orig(model_v, dataslate_v, plan_, **kw)
            frames = tuple(frames)
            rec["nframes"][len(rec["nframes"])] = len(frames)
            return frames
        P.set(mod, "create_frames", create_frames)

    def wrap_simulate_frame(mod):
        orig = mod.simulate_frame

        def simulate_frame(model_v, frame_ds, **kw):
            cur.clear()
            f = kw["frame"]
            cur["frame_obs"] = (int(f.start.serial), int(f.end.serial), int(f.simulation_end.serial), int(f.first),
                                int(f.last), int(f.simulation_last), int(f.num_simulation_columns),
                                (f.slice.start, f.slice.stop), (f.simulation_slice.start, f.simulation_slice.stop),
                                (f.zero_unanticipated_slice.start, f.zero_unanticipated_slice.stop), type(f).__name__)
            cur["periods"] = [int(p.serial) for p in frame_ds.periods]
            cur["base_columns"] = [int(c) for c in frame_ds.base_columns]
            cur["base_periods"] = [int(p.serial) for p in frame_ds.base_periods]
            cur["names"] = list(frame_ds.names)
            cur["pruned"] = frame_ds.get_data_variant(0).copy()
            cur["input_data_array"] = kw["input_data_array"].copy()
            cur["qid_to_logly"] = dict(model_v.create_qid_to_logly())
            cur["max_lead"] = int(model_v.max_lead)
            state["depth"] = state.get("depth", 0) + 1
            try:
                status = orig(model_v, frame_ds, **kw)
            finally:
                state["depth"] -= 1
            cur["after"] = frame_ds.get_data_variant(0).copy()
            cur["status"] = status
            if state["depth"] == 0:        # (period_by_period.simulate_frame delegates to stacked_time.simulate_frame)
                rec["statuses"].setdefault(state["vid"], []).append(bool(status.is_success))
            return status
        P.set(mod, "simulate_frame", simulate_frame)

    orig_spots = st_sim._get_wrt_spots

    def get_wrt_spots(**kw):
        out = orig_spots(**kw)
        cur["endogenous_qids"] = [int(q) for q in kw["endogenous_qids"]]
        cur["columns_to_run"] = [int(c) for c in kw["columns_to_run"]]
        cur["name_to_qid"] = dict(kw["name_to_qid"])
        cur["wrt_spots"] = [(int(a), int(b)) for a, b in out[0]]
        cur["exogenized_spots"] = None if out[1] is None else sorted((int(a), int(b)) for a, b in out[1])
        return out

    orig_newton = st_sim._nq.damped_newton

    orig_pop = st_jac.Jacobian._populate_map

    def populate_map(self, eids, eid_to_wrt_tokens, tokens_in_columns_on_lhs, eid_to_rhs_offset, **kw):
        orig_pop(self, eids, eid_to_wrt_tokens, tokens_in_columns_on_lhs, eid_to_rhs_offset, **kw)
        cur["jac"] = {
            "eids": [int(e) for e in eids],
            "wrt_tokens": [[(int(a), int(b)) for a, b in eid_to_wrt_tokens[e]] for e in eids],
            "lhs_tokens": [(int(a), int(b)) for a, b in tokens_in_columns_on_lhs],
            "columns": [int(c) for c in self._columns_to_eval],
            "map": [tuple(int(x) for x in t) for t in zip(self._map.lhs[0], self._map.lhs[1], self._map.rhs[0],
                                                           self._map.rhs[1])],
            "shape": [int(self._shape[0]), int(self._shape[1])],
        }

    orig_um = st_eval._create_update_map

    def create_update_map(wrt_spots):
        um = orig_um(wrt_spots)
        cur["update_map"] = [(int(a), int(b)) for a, b in zip(um.lhs[0], um.lhs[1])]
        return um

    OrigEquator = st_eval.Equator

    class RecEquator(OrigEquator):
        __slots__ = ()

        def eval(self, data_array, columns=None):
            out = super().eval(data_array, columns)
            cur["last_eq"] = [np.array(np.broadcast_to(np.asarray(a, dtype=float), np.shape(self._columns)),
                                       dtype=float).copy() for a in out]
            return out

    OrigTerm = st_sim.Terminator

    class RecTerminator(OrigTerm):
        def __init__(self, simulatable_v, columns_simulated, wrt_equations):
            super().__init__(simulatable_v, columns_simulated, wrt_equations)
            vec = simulatable_v._get_dynamic_solution_vectors()
            toks = [i for i in ir.equations.generate_all_tokens_from_equations(wrt_equations)]
            cur["term"] = {
                "columns_simulated": [int(c) for c in columns_simulated],
                "max_lead": int(simulatable_v.max_lead),
                "curr_xi_qids": [int(q) for q in self._curr_xi_qids],
                "transition_vector": [(int(a), int(b)) for a, b in vec.transition_variables],
                "equation_tokens": sorted({(int(a), int(b)) for a, b in toks}),
                "terminal_columns": [int(c) for c in self._terminal_columns],
                "terminal_wrt_spots": [(int(a), int(b)) for a, b in self.terminal_wrt_spots],
                "terminal_column_index": [int(i) for i in self._terminal_column_index],
                "terminit_spots": [(int(a), int(b)) for a, b in self._terminit_spots],
                "first_terminal": int(self._first_terminal),
            }

        def create_terminal_jacobian_map(self, wrt_spots):
            super().create_terminal_jacobian_map(wrt_spots)
            cur["term"]["tjm"] = ([int(i) for i in self.terminal_jacobian_map.lhs[1]],
                                  [int(i) for i in self.terminal_jacobian_map.rhs[1]])

    def newton(**kw):
        ev_f = kw["eval_func"]
        final, status = orig_newton(**kw)
        data = kw["args"][0]
        cur["final_guess"] = np.array(final, dtype=float).copy()
        try:
            cur["final_func"] = np.array(ev_f(final, data), dtype=float).copy()
            cur["per_equation"] = [a.copy() for a in cur.get("last_eq", [])]
        except Exception as e:  # noqa
            cur["final_func"] = None
            cur["per_equation"] = None
        cur["solver_settings"] = {k: kw.get(k) for k in ("func_tolerance", "step_tolerance", "norm_order")}
        return final, status

    orig_wb_split = fr_mod.SplitFrame.write_frame_data_to_main_dataslate

    def wb_split(self, main_ds, frame_ds, uq):
        before = main_ds.get_data_variant(0).copy()
        orig_wb_split(self, main_ds, frame_ds, uq)
        r = dict(cur)
        r["main_before"] = before
        r["main_after"] = main_ds.get_data_variant(0).copy()
        r["uqids"] = [int(q) for q in uq]
        rec["variants"].setdefault(state["vid"], []).append(r)
        cur.clear()

    DS = sim_mod.Dataslate
    ds_orig = DS.__dict__["from_databox_for_slatable"]

    def from_databox_for_slatable(klass, slatable, databox, base_span, *a, **kw2):
        ds = ds_orig.__func__(klass, slatable, databox, base_span, *a, **kw2)
        try:
            rec["slate"] = {"names": list(ds.names), "periods": [int(p.serial) for p in ds.periods],
                            "data": [ds.get_data_variant(v).copy() for v in range(ds.num_variants)]}
        except Exception as e:  # noqa
            rec["slate"] = {"error": f"{type(e).__name__}: {e}"}
        return ds

    import warnings as _w
    wf = case.get("when_fails") or "silent"
    try:
        DS.from_databox_for_slatable = classmethod(from_databox_for_slatable)
        P.set(sim_mod, "_create_simulation_header", create_simulation_header)
        wrap_simulate_frame(st_sim)
        wrap_simulate_frame(pbp_sim)
        wrap_create_frames(st_sim)
        if pbp_sim.create_frames is not st_sim.create_frames:
            wrap_create_frames(pbp_sim)
        P.set(st_sim, "_get_wrt_spots", get_wrt_spots)
        P.set(st_jac.Jacobian, "_populate_map", populate_map)
        P.set(st_eval, "_create_update_map", create_update_map)
        P.set(st_sim, "Terminator", RecTerminator)
        P.set(st_eval, "Equator", RecEquator)
        P.set(st_sim._nq, "damped_newton", newton)
        P.set(fr_mod.SplitFrame, "write_frame_data_to_main_dataslate", wb_split)
        kw = {}
        ss = {}
        if case["step_tol"] is not None:
            ss["step_tolerance"] = case["step_tol"]
        if case.get("max_iter") is not None:
            ss["max_iterations"] = int(case["max_iter"])
        if ss:
            kw["solver_settings"] = ss
        if case["method"] == "stacked_time":
            kw["terminal"] = case["terminal"]
        if wf != "critical" or case.get("when_fails_explicit"):
            kw["when_fails"] = wf          # "critical" is the default of simulate(): left to the default
        for fl, val in (case.get("flags") or {}).items():
            kw[fl] = bool(val)
        rec["when_fails"] = wf
        rec["in_db"] = db
        rec["span"] = span
        rec["model"] = m

        def reported(text):
            """(variant, frame) of every frame listed in a failure report, in the order of the listing"""
            got = []
            for line in str(text).splitlines():
                for h, vf in rec["headers"].items():
                    if h + ":" in line:
                        got.append(vf)
            return got
        try:
            with _w.catch_warnings(record=True) as caught:
                _w.simplefilter("always")
                with contextlib.redirect_stdout(io.StringIO()):
                    o = case.get("opts") or {}
                    out, info = m.simulate(db, span, method=case["method"], plan=plan, return_info=True,
                                           remove_terminal=bool(o.get("remove_terminal", False)),
                                           remove_initial=bool(o.get("remove_initial", True)),
                                           prepend_input=bool(o.get("prepend_input", True)),
                                           unpack_singleton=False,
                                           initial_guess=case["initial_guess"], **kw)
            warned = [str(x.message) for x in caught if type(x.message).__name__ == "IrisPieWarning"
                      and "Simulation failed to complete" in str(x.message)]
            rec["outcome"] = ("warned", reported(warned[0])) if warned else ("returned", [])
        except Exception as e:  # noqa
            import traceback
            nm = type(e).__name__
            if nm in ("IrisPieCritical", "IrisPieError") and "Simulation failed to complete" in str(e) and rec["headers"]:
                # simulate() REPORTED a failure: nothing is returned
                rec["outcome"] = ("critical" if nm == "IrisPieCritical" else "error", reported(e))
                rec["raised"] = True
                return rec
            return {"error": f"{type(e).__name__}: {e}"[:300], "tb": traceback.format_exc()[-1500:], "rec": rec}
    finally:
        P.restore()
        DS.from_databox_for_slatable = ds_orig
    rec["out"] = out
    rec["info"] = info
    rec["plan"] = plan
    return rec


# =====================================================================================
# 4. the property stated on the public API (used by the falsifier and by the tolerance part of the tie)
# =====================================================================================

RES_TOL = 1e-8          # residual of an equation on the returned path (the solver works to 1e-12 on its own residual)
FO_TOL = 1e-7           # agreement with the first-order simulator on linear models


def _val(series, serial) -> float:
    """Value of a one-variant Series at the quarterly period with this serial (NaN outside its span)."""
    try:
        st = int(series.start.serial)
    except Exception:  # noqa  -- empty series
        return float("nan")
    data = series.data
    k = serial - st
    if k < 0 or k >= data.shape[0]:
        return float("nan")
    return float(data[k, 0])


class _SerView:
    """One variant of a (possibly multi-variant) Series, seen as a one-variant series by _val."""

    def __init__(self, series, v):
        self._s = series
        self._v = v

    @property
    def start(self):
        return self._s.start

    @property
    def end(self):
        return self._s.end

    @property
    def data(self):
        d = self._s.data
        v = self._v if d.shape[1] > self._v else d.shape[1] - 1
        return d[:, v:v + 1]


class _DbView:
    """One variant of a databox."""

    def __init__(self, db, v):
        self._db = db
        self._v = v

    def keys(self):
        return self._db.keys()

    def __getitem__(self, name):
        x = self._db[name]
        return _SerView(x, self._v) if hasattr(x, "data") and hasattr(x, "start") else x


def _same(a: float, b: float) -> bool:
    return (a != a and b != b) or a == b


def fo_continuation(m, spec, get, end, hi, lo):
    """First-order continuation (levels) of a path beyond `end`: Simultaneous.simulate(method='first_order') with
    zero shocks, started from the path itself.  Returns {name: {serial: value}} for serials end+1..end+hi."""
    import irispie as ir
    db = ir.Databox()
    n = spec["n"]
    span0 = ir.Span(_qq(end + lo), _qq(end))
    for i in range(n):
        vals = np.array([get(f"x{i}", t) for t in range(end + lo, end + 1)], dtype=float).reshape(-1, 1)
        db[f"x{i}"] = ir.Series(start=_qq(end + lo), values=vals)
    cont = ir.Span(_qq(end + 1), _qq(end + hi))
    zer = np.zeros((hi, 1))
    for i in range(n):
        if spec["eqs"][i]["shock"]:
            db[f"e{i}"] = ir.Series(start=_qq(end + 1), values=zer.copy())
            db[f"ant_e{i}"] = ir.Series(start=_qq(end + 1), values=zer.copy())
    if spec["exo"]:
        # the terminal condition is the first-order solution, which knows nothing about exogenous paths: w = steady
        db["w"] = ir.Series(start=_qq(end + lo), values=np.zeros((hi - lo + 1, 1)))
    with contextlib.redirect_stdout(io.StringIO()):
        out = m.simulate(db, cont, method="first_order", deviation=False)
    return {f"x{i}": {t: _val(out[f"x{i}"], t) for t in range(end + 1, end + hi + 1)} for i in range(n)}


def check_property(case, rec) -> tuple[list[Failure], dict]:
    """The property on one call of simulate: every parameter variant is checked on its own data."""
    fails: list[Failure] = []
    stats = {"frames_success": 0, "frames_failed": 0, "residuals": 0, "fo_compared": 0, "max_residual": 0.0,
             "max_fo_diff": 0.0, "reported_failures": 0, "unreported_checked": 0}
    if rec.get("raised"):
        # simulate() reported a failure (IrisPieCritical / IrisPieError): the property says nothing about this call
        stats["reported_failures"] = 1
        return fails, stats
    nv = case["spec"].get("nv", 1)
    infos = rec["info"] if isinstance(rec["info"], list) else [rec["info"]]
    if len(infos) != nv:
        fails.append(Failure("variants:count", f"simulate returned info for {len(infos)} variants, the model has {nv}",
                             {"model": model_source(case["spec"])}, len(infos), nv))
        return fails, stats
    for v in range(nv):
        fs, st = _check_variant(case, rec, v, infos[v])
        fails += fs
        for k, x in st.items():
            stats[k] = max(stats[k], x) if k.startswith("max") else stats[k] + x
    return fails, stats


def _first_order_run(case, rec):
    """First-order simulation (all variants) of the inputs with the shocks as returned; cached in the record."""
    if "_fo" not in rec:
        spec = case["spec"]
        db2 = rec["in_db"].copy()
        out = rec["out"]
        for i in range(spec["n"]):               # shocks as returned (endogenized shocks carry their solved values)
            if spec["eqs"][i]["shock"]:
                db2[f"e{i}"] = out[f"e{i}"].copy()
                db2[f"ant_e{i}"] = out[f"ant_e{i}"].copy()
        try:
            with contextlib.redirect_stdout(io.StringIO()):
                rec["_fo"] = rec["model"].simulate(db2, rec["span"], method="first_order", deviation=False)
        except Exception as e:  # noqa
            rec["_fo"] = e
    return rec["_fo"]


def _check_variant(case, rec, v, info) -> tuple[list[Failure], dict]:
    """The property on one variant: residuals of every transition equation in every simulated period of every
    frame that reports success; returned databox assembled from the frames; cells outside the span unchanged;
    measurement variables consistent with their inputs; agreement with first order on linear models."""
    spec = case["spec"]
    n = spec["n"]
    nv = spec.get("nv", 1)
    fails: list[Failure] = []
    stats = {"frames_success": 0, "frames_failed": 0, "residuals": 0, "fo_compared": 0, "max_residual": 0.0,
             "max_fo_diff": 0.0, "reported_failures": 0, "unreported_checked": 0}
    out, db = _DbView(rec["out"], v), _DbView(rec["in_db"], v)
    m = rec["model"].get_variant(v) if nv > 1 else rec["model"]
    s0, T = case["start"], case["nper"]
    e0 = s0 + T - 1
    lo, _hi_all = model_shifts(spec)
    _elo, hi = model_shifts(spec, endogenous_only=True)
    frames = info["frames"]
    statuses = info["exit_status"]
    fdbs = info["frame_databoxes"]
    shape = f"{case['method']}:{case['terminal'] if case['method'] == 'stacked_time' else 'data'}:" \
            f"{'plan' if case['plan'] else 'noplan'}"
    inp = {"model": model_source(spec), "variant": v, "case": {k: x for k, x in case.items() if k != "spec"}}
    rho_v = spec.get("rho_v") or [[e["rho"] for e in spec["eqs"]]]
    # the equations in force are the MODEL's (parameters_from_data=False, the default): whatever the databox carries
    # under the name of a parameter; with parameters_from_data=True the databox's value where it has one
    params = {f"rho{i}": rho_v[v][i] for i in range(n)}
    stale = case.get("stale")
    flags = case.get("flags") or {}
    if stale and flags.get("parameters_from_data"):
        for i in range(n):
            x = stale["rho"][v][i]
            if x is not None and x == x:
                params[f"rho{i}"] = float(x)
    # which frames simulate() reported as failed: with when_fails in {critical, error, warning} the frames listed in
    # the exception / warning (an exception never gets here); with "silent" the exit statuses of return_info
    wf = rec.get("when_fails") or "silent"
    listed = {f for (vv, f) in (rec.get("outcome") or ("returned", []))[1] if vv == v}
    endogenized = {(reg.endswith("unanticipated"), name, off) for reg, off, name in case["plan"]
                   if reg.startswith("endogenized")}
    exogenized = {(name, off) for reg, off, name in case["plan"] if reg.startswith("exogenized")}
    terminal = case["terminal"] if case["method"] == "stacked_time" else "data"
    all_ok = True
    for k, (fr, st, fdb) in enumerate(zip(frames, statuses, fdbs)):
        fs, fe, fse = int(fr.start.serial), int(fr.end.serial), int(fr.simulation_end.serial)
        if not st.is_success:
            stats["frames_failed"] += 1
            all_ok = False
            if wf == "silent" or k in listed:
                continue                      # reported as failed
            stats["unreported_checked"] += 1  # simulate() reported success for this frame: the property applies
        else:
            stats["frames_success"] += 1

        def get_in_frame(name, t, fdb=fdb):
            if name in params:
                return params[name]
            if s0 <= t <= e0:
                return _val(fdb[name], t)
            return _val(db[name], t)
        cont = None
        if terminal == "first_order" and hi > 0:
            try:
                cont = fo_continuation(m, spec, get_in_frame, e0, hi, lo)
            except Exception as e:  # noqa
                fails.append(Failure(f"harness:continuation:{shape}", f"first-order continuation raised {type(e).__name__}: {e}",
                                     inp))
                continue

        def get(name, t, cont=cont, g=get_in_frame):
            if t > e0 and cont is not None and name in cont:
                return cont[name][t]
            return g(name, t)
        # shocks in force inside the frame: on the frame's own periods the unanticipated shocks are THE INPUT shocks of
        # this variant (a later non-zero input shock must have started a frame of its own), beyond them they are zero
        for i in range(n):
            if not spec["eqs"][i]["shock"]:
                continue
            for t in range(fs, fse + 1):
                u = get_in_frame(f"e{i}", t)
                if (True, f"e{i}", t - s0) in endogenized and t == fs:
                    continue
                want = _val(db[f"e{i}"], t) if t <= fe else 0.0
                want = 0.0 if want != want else want        # missing shock values fall back to zero
                if not _same(u, want) and not (u == 0 and want == 0):
                    fails.append(Failure(f"pruning:{shape}", "unanticipated shock in force inside a frame is not (the input "
                                         "shock on the frame's own periods, zero afterwards)",
                                         dict(inp, frame=k, name=f"e{i}", offset=t - s0), u, want))
        # residuals
        worst = (0.0, None)
        for t in range(fs, fse + 1):
            big = 1.0
            for j in range(n):
                for s_ in range(lo, hi + 1):
                    x = get(f"x{j}", t + s_)
                    if x == x:
                        big = max(big, abs(x))
            for i in range(n):
                try:
                    r = eval_residual(spec, i, get, t)
                except (ValueError, OverflowError):
                    r = float("nan")
                stats["residuals"] += 1
                a = abs(r) / (big * big) if r == r else float("inf")
                if a > worst[0]:
                    worst = (a, (i, t))
        stats["max_residual"] = max(stats["max_residual"], worst[0] if worst[0] != float("inf") else 1e300)
        if worst[0] > RES_TOL and not st.is_success:
            i, t = worst[1]
            fails.append(Failure(f"unreported-failure:{shape}", f"simulate(when_fails={wf!r}) returned without reporting a "
                                 f"failure of frame {k} (exit status: {st}), but transition equation {i} has residual "
                                 f"{worst[0]:.3g} at period offset {t - s0}",
                                 dict(inp, frame=k, equation=i, offset=t - s0, exit_status=str(st),
                                      reported=sorted(listed)), worst[0], f"<= {RES_TOL}",
                                 "Simultaneous.simulate(db, span, method=..., when_fails=..., solver_settings=...)"))
        elif worst[0] > RES_TOL:
            i, t = worst[1]
            fails.append(Failure(f"residual:{shape}", f"frame {k} reports success but transition equation {i} has residual "
                                 f"{worst[0]:.3g} at period offset {t - s0}", dict(inp, frame=k, equation=i, offset=t - s0),
                                 worst[0], f"<= {RES_TOL}",
                                 "Simultaneous.simulate(db, span, method=..., terminal=..., return_info=True)"))
        # the returned databox carries the frame's own columns
        for name in fdb.keys():
            is_un = name.startswith("e") and not name.startswith("eo")
            for t in range(fs, fe + 1):
                if is_un and t != fs:
                    continue
                a, b = _val(out[name], t), _val(fdb[name], t)
                if not _same(a, b):
                    fails.append(Failure(f"writeback:{shape}", "returned databox differs from the frame that owns the period",
                                         dict(inp, frame=k, name=name, offset=t - s0), a, b))
                    break
    # cells outside the simulated span are unchanged; exogenized cells keep their input value
    for name in out.keys():
        if name not in db.keys() or not hasattr(db[name], "data"):
            continue
        ser = out[name]
        try:
            a0, a1 = int(ser.start.serial), int(ser.end.serial)
        except Exception:  # noqa
            continue
        b0, b1 = int(db[name].start.serial), int(db[name].end.serial)
        is_log = name.startswith("x") and name[1:].isdigit() and spec["log"][int(name[1:])]
        for t in list(range(a0, s0)) + list(range(e0 + 1, a1 + 1)):
            a, b = _val(ser, t), _val(db[name], t)
            # (log-variables pass through exp(log(.)) when the initial guess is simulated: equal up to rounding)
            if not _same(a, b) and not (is_log and abs(a - b) <= 1e-13 * abs(b)):
                fails.append(Failure(f"outside-span:{shape}", "a cell outside the simulated span changed",
                                     dict(inp, name=name, offset=t - s0), _val(ser, t), _val(db[name], t)))
                break
    if all_ok:
        for name, off in exogenized:
            a, b = _val(out[name], s0 + off), _val(db[name], s0 + off)
            if abs(a - b) > 1e-9 * (1 + abs(b)):
                fails.append(Failure(f"exogenized:{shape}", "an exogenized cell does not keep its input value",
                                     dict(inp, name=name, offset=off), a, b))
    # measurement variables: unchanged, or consistent with the measurement equation
    if spec["meas"] and "ox0" in out.keys():
        for t in range(s0, e0 + 1):
            a, b = _val(out["ox0"], t), _val(db["ox0"], t)
            c = _val(out["x0"], t) + _val(out["eo0"], t) if "eo0" in out.keys() else float("nan")
            if not (_same(a, b) or abs(a - c) <= 1e-9 * (1 + abs(c))):
                fails.append(Failure(f"measurement:{shape}", "measurement variable is neither its input nor consistent with "
                                     "the simulated transition variables", dict(inp, offset=t - s0), a, [b, c]))
                break
    # linear models: the result coincides with the first-order simulation of the same inputs
    values_v = case["values"][v]
    has_nan = any((isinstance(x, float) and x != x) or x == "nan" for cells in values_v.values() for x in cells.values())
    # (the first-order simulator keeps exogenous variables at their steady values, so time-varying exogenous paths
    #  are not "the same inputs" for it; with a plan and several frames the endogenized anticipated shocks are
    #  re-solved in every frame, so the returned shocks are not one consistent set of inputs for a single first-order run)
    fo_applicable = spec["linear"] and all_ok and not has_nan and not flags.get("parameters_from_data") \
        and "w" not in values_v and (
        terminal == "first_order" or hi <= 0) and (not case["plan"] or len(frames) == 1)
    if fo_applicable:
        fo = _first_order_run(case, rec)
        if isinstance(fo, Exception):
            fails.append(Failure(f"harness:first-order:{shape}", f"first-order simulation raised {type(fo).__name__}: {fo}", inp))
        else:
            fo = _DbView(fo, v)
            stats["fo_compared"] += 1
            worst = (0.0, None)
            for i in range(n):
                for t in range(s0, e0 + 1):
                    a, b = _val(out[f"x{i}"], t), _val(fo[f"x{i}"], t)
                    d = abs(a - b) / (1 + abs(b)) if (a == a and b == b) else float("inf")
                    if d > worst[0]:
                        worst = (d, (i, t, a, b))
            stats["max_fo_diff"] = max(stats["max_fo_diff"], min(worst[0], 1e300))
            if worst[0] > FO_TOL:
                i, t, a, b = worst[1]
                fails.append(Failure(f"first-order:{shape}", f"linear model, variant {v}: x{i} at offset {t - s0} differs "
                                     "from the first-order simulation of the same inputs", dict(inp, name=f"x{i}", offset=t - s0),
                                     a, b, "simulate(..., method='stacked_time') vs simulate(..., method='first_order')"))
    return fails, stats


# =====================================================================================
# 5. Coq rendering of one recorded simulation (lib/StackedCase.v: sim_case)
# =====================================================================================

HEADER = """From Coq Require Import ZArith List Bool PrimFloat.
From Verif Require Import model.Frames model.Stacked lib.StackedCase.
Import ListNotations.
Open Scope Z_scope.
Set Printing Width 1000000.
Set Printing Depth 1000000.
"""


def _spot(s) -> str:
    return f"({coq_z(s[0])}, {coq_z(s[1])})"


def _spots(l) -> str:
    return coq_list([_spot(s) for s in l])


def _zs(l) -> str:
    return coq_list([coq_z(int(x)) for x in l])


def _oz(x) -> str:
    return "None" if x is None else f"(Some {coq_z(int(x))})"


class _Defs:
    """Arrays are emitted as many short definitions (long list literals are slow to parse)."""

    def __init__(self, prefix):
        self.prefix = prefix
        self.lines = []
        self.k = 0

    def row(self, vals) -> str:
        nm = f"{self.prefix}_r{self.k}"
        self.k += 1
        self.lines.append(f"Definition {nm} : list float := {coq_list([coq_float(float(v)) for v in vals])}.")
        return nm

    def arr(self, a) -> str:
        a = np.asarray(a, dtype=float)
        names = [self.row(a[i, :]) for i in range(a.shape[0])]
        nm = f"{self.prefix}_a{self.k}"
        self.k += 1
        self.lines.append(f"Definition {nm} : arr := {coq_list(names)}.")
        return nm

    def define(self, typ, body) -> str:
        nm = f"{self.prefix}_d{self.k}"
        self.k += 1
        self.lines.append(f"Definition {nm} : {typ} := {body}.")
        return nm


def _bits_differ(a, b):
    a = np.ascontiguousarray(a, dtype=np.float64)
    b = np.ascontiguousarray(b, dtype=np.float64)
    return (a.view(np.int64) != b.view(np.int64)) & ~(np.isnan(a) & np.isnan(b))


def _diff(base, new) -> str:
    """Cells of `new` that differ bit-wise from `base`, as a Coq list ((q, c), value)."""
    idx = np.argwhere(_bits_differ(base, new))
    return coq_list([f"(({coq_z(int(q))}, {coq_z(int(c))}), {coq_float(float(new[q, c]))})" for q, c in idx])


def _registers(case, names, nbase):
    regs = {r: {} for r in ("exogenized_anticipated", "endogenized_anticipated", "exogenized_unanticipated",
                            "endogenized_unanticipated")}
    for reg, off, name in case["plan"]:
        regs[reg].setdefault(name, [False] * nbase)[off] = True
    out = {}
    for r, rows in regs.items():
        out[r] = coq_list([f"({coq_z(names.index(nm))}, {coq_list([coq_bool(b) for b in flags])})"
                           for nm, flags in rows.items()])
    return out


def coq_sim(case, rec, v, prefix) -> tuple[str, str]:
    """Variant v of one recorded call of simulate.  Returns (definitions text, name of the sim_case)."""
    D = _Defs(prefix)
    frs = rec["variants"][v]
    cr = frs[0]                      # names / periods / base columns as seen by simulate_frame
    names = cr["names"]
    spec = case["spec"]
    nbase = len(cr["base_periods"])
    uq = frs[0]["uqids"]
    data0 = frs[0]["input_data_array"]     # the variant's data when the frames are created
    ucut = "None"
    if uq and cr["base_columns"]:
        ucut = f"(Some {D.arr(data0[uq, :][:, cr['base_columns']])})"
    pcut = "None"
    plan_txt = "None"
    if case["plan"]:
        rows = []
        for q in uq:
            flags = [False] * nbase
            for reg, off, name in case["plan"]:
                if reg == "endogenized_unanticipated" and name == names[q]:
                    flags[off] = True
            rows.append(coq_list([coq_bool(b) for b in flags]))
        pcut = f"(Some {coq_list(rows)})"
        R = _registers(case, names, nbase)
        plan_txt = (f"(Some (mkPlan {R['exogenized_anticipated']} {R['endogenized_anticipated']} "
                    f"{R['exogenized_unanticipated']} {R['endogenized_unanticipated']}))")
    fobs = []
    for (st, en, se, fi, la, sl, ns, sli, ssl, zsl, _tp) in [fr["frame_obs"] for fr in frs]:
        fobs.append(f"(mkFrameObs {coq_z(st)} {coq_z(en)} {coq_z(se)} {coq_z(fi)} {coq_z(la)} {coq_z(sl)} {coq_z(ns)} "
                    f"({coq_z(sli[0])}, {_oz(sli[1])}) ({coq_z(ssl[0])}, {_oz(ssl[1])}) ({coq_z(zsl[0])}, {_oz(zsl[1])}))")
    endogenous = [names.index(f"x{i}") for i in range(spec["n"])]
    lo_, hi_ = model_shifts(spec)            # deepest lag / lead of ANY quantity, from the generated AST
    term = "None"
    t0 = frs[0].get("term")
    if t0 is not None:
        logly = sorted(q for q, sflag in frs[0]["qid_to_logly"].items() if sflag)
        term = f"(Some ({_zs(t0['curr_xi_qids'])}, {coq_z(t0['max_lead'])}, {_zs(logly)}))"
    setup = D.define("sim_setup", f"mkSetup {coq_z(cr['periods'][0])} {coq_z(cr['base_columns'][0])} {_zs(uq)} "
                                  f"{_zs(endogenous)} {plan_txt} {term}")
    frecs = []
    for fr in frs:
        t = fr.get("term")
        if t is None:
            tobs = "None"
        else:
            tj = coq_list([f"({coq_z(a)}, {coq_z(b)})" for a, b in zip(*t["tjm"])])
            tobs = (f"(Some (mkTermObs {_spots(t['transition_vector'])} {_spots(t['equation_tokens'])} "
                    f"{_zs(t['terminal_columns'])} {_spots(t['terminal_wrt_spots'])} {_zs(t['terminal_column_index'])} "
                    f"{_spots(t['terminit_spots'])} {coq_z(t['first_terminal'])} {tj}))")
        j = fr["jac"]
        per_eq = fr.get("per_equation")
        ff = fr.get("final_func")
        if per_eq is None or ff is None:
            per_eq, ff = [], []
        pe = D.define("arr", coq_list([D.row(a) for a in per_eq]))
        stk = D.row(ff)
        jm = coq_list([f"({coq_z(a)}, {coq_z(b)}, {coq_z(c)}, {coq_z(d)})" for a, b, c, d in j["map"]])
        jm = D.define("list (Z * Z * Z * Z)", jm)
        wt = D.define("list (list spot)", coq_list([_spots(tk) for tk in j["wrt_tokens"]]))
        ex = "None" if fr["exogenized_spots"] is None else f"(Some {_spots(fr['exogenized_spots'])})"
        dp = D.define("diff", _diff(fr["main_before"], fr["pruned"]))
        da = D.define("diff", _diff(fr["pruned"], fr["after"]))
        frecs.append(D.define("frame_rec",
                              f"mkFrameRec {dp} {da} {_zs(fr['columns_to_run'])} {_spots(fr['wrt_spots'])} {ex} "
                              f"{_spots(fr['update_map'])} {wt} {_spots(j['lhs_tokens'])} {jm} "
                              f"({coq_z(j['shape'][0])}, {coq_z(j['shape'][1])}) {tobs} {pe} {stk}"))
    nm = D.define("sim_case",
                  f"mkSimCase {coq_bool(case['method'] == 'period_by_period')} {_zs(cr['base_periods'])} "
                  f"{_zs(cr['base_columns'])} ({coq_z(lo_)}, {coq_z(hi_)}) {_zs(cr['periods'])} "
                  f"{ucut} {pcut} {coq_list(fobs)} {setup} "
                  f"{D.arr(frs[0]['main_before'])} {D.define('diff', _diff(frs[0]['main_before'], frs[0]['input_data_array']))} "
                  f"{coq_list(frecs)} {D.define('diff', _diff(frs[0]['main_before'], frs[-1]['main_after']))}")
    return "\n".join(D.lines), nm


def shard_text(items) -> str:
    """items: [(case, rec, variant)]"""
    parts = [HEADER]
    nms = []
    for k, (case, rec, v) in enumerate(items):
        txt, nm = coq_sim(case, rec, v, f"s{k}")
        parts.append(txt)
        nms.append(nm)
    parts.append(f"Definition cases : list sim_case := {coq_list(nms)}.")
    parts.append("Eval vm_compute in (failing_sims cases 0).")
    return "\n".join(parts) + "\n"


# =====================================================================================
# 5b. Coq rendering of the failure report and of the parameter / shock / std rows of the dataslate
#     (lib/SimReportCase.v: rep_case, slat_case)
# =====================================================================================

HEADER2 = """From Coq Require Import List Bool PrimFloat.
From Verif Require Import lib.SimProg model.SimReport lib.SimReportCase.
Import ListNotations.
Set Printing Width 1000000.
Set Printing Depth 1000000.
"""

_WF = {"critical": "WCritical", "error": "WError", "warning": "WWarning", "silent": "WSilent"}


def _nat_pairs(l) -> str:
    return coq_list([f"({int(a)}, {int(b)})" for a, b in l])


def coq_report(case, rec) -> str:
    """One call of simulate(): when_fails, frames per variant, recorded statuses, what the caller saw."""
    nv = case["spec"].get("nv", 1)
    nfs = [int(rec["nframes"].get(v, 1)) for v in range(nv)]       # (variants never reached are never consulted)
    sts = []
    for v in range(nv):
        row = list(rec["statuses"].get(v, []))[:nfs[v]]
        row += [True] * (nfs[v] - len(row))                        # frames never run are never consulted
        sts.append(coq_list([coq_bool(b) for b in row]))
    kind, listed = rec["outcome"]
    obs = {"returned": "OReturned", "warned": f"(OWarned {_nat_pairs(listed)})",
           "error": f"(OError {_nat_pairs(listed)})", "critical": f"(OCritical {_nat_pairs(listed)})"}[kind]
    return f"(mkRep {_WF[rec['when_fails']]} {coq_list([str(x) for x in nfs])} {coq_list(sts)} {obs})"


def _raw_row(db, name, v, serials) -> list[float]:
    """What the input databox holds under `name` for variant v on the periods of the dataslate (NaN = nothing)."""
    nanrow = [float("nan")] * len(serials)
    if name not in db.keys():
        return nanrow
    x = db[name]
    if hasattr(x, "data") and hasattr(x, "start"):
        try:
            st = int(x.start.serial)
        except Exception:  # noqa -- empty series
            return nanrow
        d = x.data
        col = min(v, d.shape[1] - 1)
        return [float(d[t - st, col]) if 0 <= t - st < d.shape[0] else float("nan") for t in serials]
    if isinstance(x, (list, tuple)):
        if not x:
            return nanrow
        return [float(x[min(v, len(x) - 1)])] * len(serials)
    return [float(x)] * len(serials)


def slat_entries(case, rec, v):
    """(name, group, model value, raw row, dataslate row) for every parameter / shock / std name of the dataslate."""
    spec = case["spec"]
    sl = rec["slate"]
    m = rec["model"]
    stds = m.get_stds(unpack_singleton=False)
    rho_v = spec.get("rho_v") or [[e["rho"] for e in spec["eqs"]]]
    out = []
    for q, name in enumerate(sl["names"]):
        if name.startswith("rho") and name[3:].isdigit():
            g, val = "GParameters", float(rho_v[v][int(name[3:])])
        elif name in stds.keys():
            sv = stds[name]
            g, val = "GStds", float(sv[min(v, len(sv) - 1)] if isinstance(sv, (list, tuple)) else sv)
        elif _re.fullmatch(r"(ant_)?e\d+|eo\d+", name):
            g, val = "GShocks", 0.0
        else:
            continue
        out.append((name, g, val, _raw_row(rec["in_db"], name, v, sl["periods"]), [float(x) for x in sl["data"][v][q, :]]))
    return out


def sim_flags(case) -> tuple[bool, bool, bool]:
    fl = case.get("flags") or {}
    return (bool(fl.get("parameters_from_data", False)), bool(fl.get("shocks_from_data", True)),
            bool(fl.get("stds_from_data", True)))


def coq_slat(case, rec, v) -> str:
    fl = sim_flags(case)
    ents = [f"(mkEnt {g} {coq_float(val)} {coq_list([coq_float(x) for x in raw])} {coq_list([coq_float(x) for x in obs])})"
            for _, g, val, raw, obs in slat_entries(case, rec, v)]
    return f"(mkSlat ({coq_bool(fl[0])}, {coq_bool(fl[1])}, {coq_bool(fl[2])}) {coq_list(ents)})"


def shard_text2(reps, slats) -> str:
    parts = [HEADER2]
    for k, r in enumerate(reps):
        parts.append(f"Definition rep{k} : rep_case := {r}.")
    for k, r in enumerate(slats):
        parts.append(f"Definition slat{k} : slat_case := {r}.")
    parts.append(f"Definition reps : list rep_case := {coq_list([f'rep{k}' for k in range(len(reps))])}.")
    parts.append(f"Definition slats : list slat_case := {coq_list([f'slat{k}' for k in range(len(slats))])}.")
    parts.append("Eval vm_compute in (failing_idx rep_ok reps 0).")
    parts.append("Eval vm_compute in (failing_idx slat_ok slats 0).")
    return "\n".join(parts) + "\n"


CHECK_NAMES = {4: "dataslate periods (pre-sample / post-sample columns for the deepest lag / lead of any quantity)",
               1: "base_columns", 2: "frames (break points, periods, columns, slices)", 3: "final main array (write-back)",
               10: "columns_to_run", 11: "wrt_spots", 12: "exogenized_spots", 13: "update map", 14: "jacobian lhs tokens",
               15: "jacobian map", 16: "jacobian shape", 17: "stacked residual order", 18: "frame data after simulate_frame (cells outside the unknown / terminal cells changed)",
               30: "pruned frame data",
               19: "number of frames", 20: "terminal columns", 21: "terminal wrt spots", 22: "terminal column index",
               23: "terminit spots", 24: "first terminal", 25: "terminal jacobian map", 29: "terminator presence"}


# =====================================================================================
# 6. correspondence: model evaluated in Coq vs what Simultaneous.simulate built (exact), paths vs first order (tol)
# =====================================================================================

KINDS = ["linear", "linear", "nonlinear", "nonlinear", "backward_linear", "backward_nonlinear"]


def _jsonable_case(case) -> dict:
    import json
    return json.loads(json.dumps(case, default=lambda o: None if (isinstance(o, float) and o != o) else str(o))
                      .replace("NaN", '"nan"'))


def _restore_case(c) -> dict:
    """Inverse of the JSON round trip of a case (offset keys back to int, "nan" back to NaN)."""
    c = dict(c)
    vvals = []
    for values in c["values"]:
        vals = {}
        for name, cells in values.items():
            vals[name] = {}
            for off, v in cells.items():
                if v == "nan":
                    v = float("nan")
                vals[name][int(off)] = tuple(v) if isinstance(v, list) else v
        vvals.append(vals)
    c["values"] = vvals
    c["plan"] = [tuple(p) for p in c["plan"]]
    sp = c["spec"]
    for e in sp["eqs"]:
        for t in e["terms"]:
            t["f"] = [tuple(x) for x in t["f"]]
        e["sq"] = [tuple(x) for x in e["sq"]]
        if e.get("sl"):
            e["sl"] = tuple(e["sl"])
    return c


def gen_batch(rng, n_models, per_model):
    """Yields (case, model) for models irispie can solve."""
    made = 0
    tries = 0
    while made < n_models and tries < 5 * n_models + 20:
        tries += 1
        spec = gen_model(rng, rng.choice(KINDS))
        m = build_model(spec)
        if m is None:
            _MODEL_CACHE.pop(repr(spec), None)
            continue
        made += 1
        for _ in range(per_model):
            yield gen_case(rng, spec), m
        _MODEL_CACHE.pop(repr(spec), None)


def correspondence(ctx) -> CorrResult:
    import re
    import time as _t
    rng = ctx.rng
    res = CorrResult()
    n_models = ctx.scale(45, 1500)
    per_model = ctx.scale(5, 6)
    per_shard = 8
    dist = {"method": {}, "terminal": {}, "initial_guess": {}, "kind": {}, "frames": {}, "plan": 0, "log_variables": 0,
            "status": {}, "variants": {}, "deepest_shift_on_exogenous_or_shock": 0, "simulate_raised": 0, "first_order_compared": 0, "residual_checks": 0,
            "max_residual": 0.0, "max_first_order_diff": 0.0}
    keyset = set()
    tol_fail = []
    texts, shard_cases, pending = [], [], []
    n_items = 0
    reps, slats, rep_cases, slat_cases = [], [], [], []       # the kinds "report" and "slatable"
    dist.update({"when_fails": {}, "outcome": {}, "max_iterations_set": 0, "stale_parameter_entries": 0,
                 "flags": {}, "report_cases": 0, "report_with_failed_frame": 0, "slatable_cases": 0,
                 "slatable_rows": 0, "slatable_rows_data_differs_from_model": 0})

    def flush():
        if pending:
            texts.append(shard_text(pending))
            shard_cases.append([dict(_jsonable_case(c), variant=v) for c, _, v in pending])
            pending.clear()

    for case, m in gen_batch(rng, n_models, per_model):
        rec = run_sim(case, m)
        if "error" in rec or "skip" in rec:
            dist["simulate_raised"] += 1
            continue
        spec = case["spec"]
        # --- kind "report": when_fails x recorded per-frame statuses -> what the caller of simulate() saw
        jc = _jsonable_case(case)
        if rec.get("outcome") and rec.get("nframes"):
            reps.append(coq_report(case, rec))
            rep_cases.append(jc)
            dist["report_cases"] += 1
            dist["report_with_failed_frame"] += any(not b for r in rec["statuses"].values() for b in r)
            for k_, v_ in (("when_fails", rec["when_fails"]), ("outcome", rec["outcome"][0])):
                dist[k_][v_] = dist[k_].get(v_, 0) + 1
            dist["max_iterations_set"] += case.get("max_iter") is not None
        # --- kind "slatable": flags x databox entries named like parameters / shocks / stds -> rows of the dataslate
        if isinstance(rec.get("slate"), dict) and "data" in rec["slate"]:
            dist["stale_parameter_entries"] += bool(case.get("stale"))
            fk = repr(sim_flags(case))
            dist["flags"][fk] = dist["flags"].get(fk, 0) + 1
            for v in range(len(rec["slate"]["data"])):
                ents = slat_entries(case, rec, v)
                dist["slatable_rows"] += len(ents)
                dist["slatable_rows_data_differs_from_model"] += sum(
                    1 for _, _, val, raw, _ in ents if any(x == x and x != val for x in raw))
                slats.append(coq_slat(case, rec, v))
                slat_cases.append(dict(jc, variant=v))
                dist["slatable_cases"] += 1
        if rec.get("raised") or not rec.get("variants"):
            if rec.get("raised"):
                dist["reported_failure_raised"] = dist.get("reported_failure_raised", 0) + 1
            else:
                dist["simulate_raised"] += 1
            continue
        variants = sorted(rec["variants"])
        n_items += len(variants)
        nframes = max(len(rec["variants"][v]) for v in variants)
        dist["variants"][str(spec.get("nv", 1))] = dist["variants"].get(str(spec.get("nv", 1)), 0) + 1
        lo_, hi_ = model_shifts(spec)
        elo_, ehi_ = model_shifts(spec, endogenous_only=True)
        dist["deepest_shift_on_exogenous_or_shock"] += (lo_ < elo_ or hi_ > ehi_)
        kind = ("backward_" if spec["backward"] else "") + ("linear" if spec["linear"] else "nonlinear")
        for k, v in (("method", case["method"]), ("terminal", case["terminal"]), ("initial_guess", case["initial_guess"]),
                     ("kind", kind), ("frames", str(nframes))):
            dist[k][v] = dist[k].get(v, 0) + 1
        dist["plan"] += bool(case["plan"])
        dist["log_variables"] += any(spec["log"])
        for info_v in rec["info"]:
            for st in info_v["exit_status"]:
                dist["status"][str(st)] = dist["status"].get(str(st), 0) + 1
        if nframes >= 2 or case["plan"]:
            keyset.add(repr(_jsonable_case(case)))
        if len(res.samples) < 3:
            res.samples.append({"model": model_source(spec),
                                "case": {k: v for k, v in _jsonable_case(case).items() if k != "spec"},
                                "frames": [[list(fr["frame_obs"][:6]) for fr in rec["variants"][v]] for v in variants],
                                "wrt_spots_first_frame": rec["variants"][variants[0]][0]["wrt_spots"][:12],
                                "status": [[str(s) for s in i["exit_status"]] for i in rec["info"]]})
        # tolerance part of the tie: the property residuals and the first-order path
        fails, st = check_property(case, rec)
        dist["first_order_compared"] += st["fo_compared"]
        dist["residual_checks"] += st["residuals"]
        dist["max_residual"] = max(dist["max_residual"], st["max_residual"])
        dist["max_first_order_diff"] = max(dist["max_first_order_diff"], st["max_fo_diff"])
        for f in fails:
            if len(tol_fail) < 50:
                tol_fail.append((_jsonable_case(case), f))
        for v in variants:
            pending.append((case, rec, v))
        if len(pending) >= per_shard:
            flush()
    flush()
    res.evaluations = n_items
    res.distinct_nontrivial = len(keyset)
    res.distribution = dist
    res.rule = ("one generated model (1-4 transition variables, lags/leads up to 2, linear / quadratic / log-variable "
                "equations, optional exogenous and measurement variable) built with Simultaneous.from_string + steady + solve, "
                "one input databox (steady + unanticipated and anticipated shocks at random dates, exogenous path, perturbed "
                "initial and terminal data, optional exactly identified plan) and one call of Simultaneous.simulate "
                "(stacked_time / period_by_period, terminal and initial_guess in {first_order, data}); everything the call "
                "builds (frames, wrt_spots, index maps, terminator indices, stacked residual, frame arrays, final array) is "
                "compared with the model evaluated in Coq; non-trivial = at least two frames or a plan; distinct = distinct case")
    t_sim = _t.time() - ctx.t0
    t_a = _t.time()
    # shards of the kinds "report" / "slatable" (small): appended after the simulation shards
    n_sim_shards = len(texts)
    per2 = 60
    extra = []
    for a in range(0, max(len(reps), len(slats)), per2):
        extra.append((a, shard_text2(reps[a:a + per2], slats[a:a + per2])))
    results = core.run_cases(ctx, texts + [t for _, t in extra], timeout=1500)
    ctx.log(f"correspondence: {n_items} simulations recorded by {t_sim:.0f}s after start; "
            f"{len(texts)}+{len(extra)} Coq shards ({sum(len(t) for t in texts) // 1000} kB) evaluated in {_t.time() - t_a:.0f}s; "
            f"{len(reps)} report cases, {len(slats)} slatable cases")
    res.evaluations += len(reps) + len(slats)
    res.shards = len(texts) + len(extra)
    for (a, _), (ok, out) in zip(extra, results[n_sim_shards:]):
        if not ok:
            res.disagreements.append(Disagreement(f"report/slatable cases shard at {a} does not evaluate", None, out[-800:], None))
            continue
        bodies = core.parse_eval_lists(out)
        if len(bodies) != 2:
            res.disagreements.append(Disagreement(f"report/slatable cases shard at {a}: unparsable output", None, out[-600:], None))
            continue
        for i in core.parse_nat_list(bodies[0]):
            c = rep_cases[a + i]
            res.disagreements.append(Disagreement(f"report: when_fails={c.get('when_fails')} {c['method']}", c,
                                                  "what simulate() reported (exception / warning / normal return and the "
                                                  "frames listed) differs from the model on the recorded per-frame "
                                                  "exit statuses", None))
        for i in core.parse_nat_list(bodies[1]):
            c = slat_cases[a + i]
            res.disagreements.append(Disagreement(f"slatable: flags={c.get('flags')} stale={bool(c.get('stale'))}", c,
                                                  f"variant {c.get('variant')}: a parameter / shock / std row of the dataslate "
                                                  "differs from the model (overwrite wins over data, data wins over fallback)",
                                                  None))
    results = results[:n_sim_shards]
    for k, (ok, out) in enumerate(results):
        sh = shard_cases[k]
        if not ok:
            res.disagreements.append(Disagreement(f"cases shard {k} does not evaluate", None, out[-800:], None))
            continue
        bodies = core.parse_eval_lists(out)
        if len(bodies) != 1:
            res.disagreements.append(Disagreement(f"cases shard {k}: unparsable output", None, out[-600:], None))
            continue
        body = bodies[0]
        if body in ("[]", "nil"):
            continue
        found = 0
        for mm in re.finditer(r"\((\d+)%nat, \[(.*?)\]\)(?=; \(\d+%nat, \[|\]$)", body):
            i = int(mm.group(1))
            checks = re.findall(r"\((\d+)%nat, (\d+)%nat\)", mm.group(2))
            case = sh[i]
            what = "; ".join(f"frame {a}: {CHECK_NAMES.get(int(b), b)}" if int(a) != 999 else CHECK_NAMES.get(int(b), b)
                             for a, b in checks[:6])
            res.disagreements.append(Disagreement(f"{case['method']}: {what}", case,
                                                  f"variant {case.get('variant')}: model differs on: " + what, None))
            found += 1
        if not found:
            res.disagreements.append(Disagreement(f"cases shard {k}: unparsed failures", None, body[:600], None))
    for case, f in tol_fail[:20]:
        res.disagreements.append(Disagreement(f"property check: {f.key}", case, f.what,
                                              {"observed": f.observed, "required": f.required}))
    res.notes.append(f"solver statuses over all frames: {dist['status']}")
    return res


# =====================================================================================
# 7. falsifier
# =====================================================================================

def _with_case(f: Failure, case) -> Failure:
    inp = dict(f.input) if isinstance(f.input, dict) else {"input": f.input}
    inp["case_full"] = _jsonable_case(case)
    f.input = inp
    if not f.repro:
        f.repro = ("from harness import C06 as H; c = H._restore_case(failure['input']['case_full']); "
                   "r = H.run_sim(c); print(H.check_property(c, r))")
    return f


def falsify(ctx, hints):
    rng = ctx.rng
    fails: list[Failure] = []
    info = {"simulations": 0, "frames_success": 0, "frames_failed": 0, "residuals": 0, "fo_compared": 0,
            "max_residual": 0.0, "max_fo_diff": 0.0, "simulate_raised": 0, "from_hints": 0}

    def one(case, m=None):
        rec = run_sim(case, m)
        if "error" in rec or "skip" in rec or not rec.get("variants"):
            info["simulate_raised"] += 1
            return
        info["simulations"] += 1
        fs, st = check_property(case, rec)
        for k in ("frames_success", "frames_failed", "residuals", "fo_compared"):
            info[k] += st[k]
        info["max_residual"] = max(info["max_residual"], st["max_residual"])
        info["max_fo_diff"] = max(info["max_fo_diff"], st["max_fo_diff"])
        for f in fs:
            fails.append(_with_case(f, case))

    # start from the disagreements themselves
    for d in hints.get("disagreements", [])[:20]:
        c = d.get("input")
        if isinstance(c, dict) and "spec" in c:
            try:
                one(_restore_case(c))
                info["from_hints"] += 1
            except Exception:  # noqa
                pass
    n_models = ctx.scale(15, 300)
    if hints.get("broken"):
        n_models *= 2
    for case, m in gen_batch(rng, n_models, 5):
        one(case, m)
        if len(fails) > 30:
            break
    seen, uniq = set(), []
    for f in fails:
        if f.key not in seen:
            seen.add(f.key)
            uniq.append(f)
    ctx.log(f"falsifier: {info['simulations']} simulations, {info['frames_success']} frames report success, "
            f"{info['residuals']} residuals (max {info['max_residual']:.2g}), {info['fo_compared']} first-order comparisons "
            f"(max diff {info['max_fo_diff']:.2g})")
    return uniq, info


def replay(ctx, failure: dict):
    c = failure.get("input", {}).get("case_full")
    if not c:
        return None
    case = _restore_case(c)
    rec = run_sim(case)
    if "error" in rec or "skip" in rec:
        return None
    fs, _ = check_property(case, rec)
    for f in fs:
        if f.key == failure["key"]:
            return _with_case(f, case)
    return None
