"""C14  Trend filters return the optimum of their problem; trend plus gap is the data."""
from __future__ import annotations

import math
from fractions import Fraction

import numpy as np

from vf import core
from vf.core import CorrResult, Disagreement, Failure, coq_z, coq_list
from translator import hp as tr
from . import series_common as sc

ID = "C14"
PROPS = "props/C14.v"
GENERATED = [tr.OUT]
CASE_DEPS = ["lib/CaseUtil.vo", "lib/MxC14.vo", "model/HP.vo", "model/L1.vo"]
ALLOWED_AXIOMS: set = set()          # the development is axiom-free (MathComp over an arbitrary realFieldType)
TRUSTED = [
    "translator/hp.py (stencils of K and D, constraint-row coefficients, default smoothing table, the QP data of lonf "
    "-> gen/HPGen.v)",
    "numpy.linalg.solve is an oracle: the theorems assume its contract M x = b; the executable model solves the same "
    "system exactly (fraction-free elimination on integers inside Coq) and re-checks M x = b exactly",
    "daqp is an oracle: its output nu is recorded by wrapping irispie.series._ell_one._qp.solve from the harness "
    "and checked by the proved checker kkt_ok (exact rational evaluation, stated slack)",
    "numpy.log / numpy.exp are black boxes: log=True is compared in log space (numpy.log of the data recorded as a "
    "table, numpy.log applied to the implementation's output by the harness)",
    "conversion of doubles to exact dyadic rationals (mantissa, exponent) by the harness",
]
ASSUMPTIONS = [
    "theorems are exact over an arbitrary real field (MathComp realFieldType); rounding is outside: the code is tied "
    "by tolerance 1e-7*(1+|x|) against the exact rational solution of the same normal equations",
    "generated inputs keep the bordered matrix well conditioned (cond <= 1e8), at least two observations per variant, "
    "constraints with full row rank",
    "lonf is exercised on fully observed spans inside the data (the code has no treatment of missing observations; "
    "see the findings in the report)",
]
MANIFEST = {
    "technique": "Coq/MathComp proof over any real field of the model of series/_hp.py and series/_ell_one.py written "
                 "once over an abstract matrix interface; the same text evaluated exactly on bigQ inside Coq against "
                 "the public API (tolerance tie); stencils/coefficients regenerated from the source",
    "level_text": "Theorems (props/C14.v, 21, all closed under the global context), for every length, observation "
                  "pattern, constraint set and smoothing parameter, over any real field: a solution of the bordered normal "
                  "equations the model builds meets the level/change constraints exactly and minimises the Hodrick-Prescott "
                  "objective (written out: squared deviations on observed periods + lambda * squared second differences) "
                  "among all feasible trends, with J(t')-J(t) = (t'-t)'(E+lambda K'K)(t'-t) >= 0; it is the unique "
                  "minimiser when the bordered matrix is invertible, which is proved whenever lambda>0, two periods are "
                  "observed and the constraint rows are independent (then the solve contract is satisfiable); trend+gap = "
                  "data on observed rows and the gap is missing exactly where the data are; an affine series, also with "
                  "gaps and with constraints on the line, is returned unchanged; log=True is the filter of the logarithms, "
                  "exponentiated, and trend*gap = data; a requested span inside the filter span only selects rows, and a "
                  "span reaching beyond the data on the right leaves the trend unchanged and extrapolates it linearly. "
                  "lonf: trend+gap = data; the KKT conditions of the box QP handed to daqp are equivalent to the "
                  "subgradient optimality certificate of the l1 trend filter at trend = y - D'nu and make it the unique "
                  "global minimiser (orders 1 and 2 written out); the checker kkt_ok run on daqp's recorded answer is "
                  "proved sound (bounded suboptimality).",
    "level_note": "partial: numpy.linalg.solve and daqp are oracles (contract assumed in the theorems, checked per "
                  "case by exact evaluation inside Coq); rounding is outside (tolerance tie 1e-7*(1+|x|) against the exact "
                  "rational solution); numpy log/exp are black boxes; extension of the span on the LEFT is checked by the "
                  "falsifier only; the Series plumbing around both filters is tied by correspondence through the public "
                  "API, the algebra by proof. Open findings: lonf drops all variants but the first (fixes/C14_1.patch); "
                  "lonf returns nothing when the span contains a missing observation (fixes/C14_2.md).",
}

TOL = 1e-7
FREQ_CHOICES = [1, 2, 4, 12, 365, 0]


def translate(ctx):
    tr.run()


# ------------------------------------------------------------------ literals

def dyadic(x: float) -> tuple[int, int]:
    """x = m * 2**e exactly, m odd (or 0)."""
    if x == 0:
        return 0, 0
    m, e = math.frexp(x)
    m = int(m * (1 << 53))
    e -= 53
    while m % 2 == 0:
        m //= 2
        e += 1
    return m, e


def coq_q(x: float) -> str:
    m, e = dyadic(float(x))
    return f"(qdyadic {coq_z(m)} {coq_z(e)})"


def coq_oq(x) -> str:
    return "None" if (x is None or x != x) else f"(Some {coq_q(x)})"


def coq_oq_list(xs) -> str:
    return coq_list([coq_oq(v) for v in xs])


def frac(x: float) -> Fraction:
    return Fraction(float(x))


# ------------------------------------------------------------------ HP: generation

def _serial0(rng, freq):
    if freq == 365:
        return 730000 + rng.randint(0, 4000)
    if freq == 0:
        return rng.randint(-20, 40)
    return (1995 + rng.randint(0, 30)) * freq + rng.randint(0, freq - 1)


def _nice(rng, lo, hi, step):
    return round(rng.uniform(lo, hi) / step) * step


def gen_smooth(rng):
    q = rng.random()
    if q < 0.12:
        return None
    if q < 0.55:
        return float(rng.choice([0.5, 1, 2, 6.25, 10, 100, 129600 / 1000, 400, 1600, 14400, 0.125, 25, 5000]))
    return float(10 ** rng.uniform(-2, 4.7))


def gen_hp_case(rng, quick_sizes=True) -> dict:
    freq = rng.choice(FREQ_CHOICES)
    nv = rng.choice([1, 1, 2])
    n = rng.randint(3, 40) if rng.random() < 0.7 else rng.randint(3, 14)
    log = rng.random() < 0.3
    start = _serial0(rng, freq)
    # data: a smooth path plus noise; dyadic steps keep the exact arithmetic cheap, a share is arbitrary doubles
    arbitrary = rng.random() < 0.3
    cols = []
    for _ in range(nv):
        lvl = rng.uniform(1.0, 20.0) if log else rng.uniform(-10, 10)
        drift = rng.uniform(-0.5, 0.5)
        col = []
        for i in range(n):
            v = lvl + drift * i + rng.uniform(-1.5, 1.5)
            if log:
                v = abs(v) + 0.25
            col.append(float(v) if arbitrary else float(round(v * 64) / 64 or 1 / 64))
        # interior missing values
        for i in range(n):
            if rng.random() < 0.12:
                col[i] = float("nan")
        obs = [i for i in range(n) if col[i] == col[i]]
        while len(obs) < 2:
            i = rng.randrange(n)
            if col[i] != col[i]:
                col[i] = 1.0 + i
                obs.append(i)
        cols.append(col)
    # the Series trims all-missing leading/trailing rows: make the first and last row observed somewhere
    for idx in (0, n - 1):
        if all(c[idx] != c[idx] for c in cols):
            cols[rng.randrange(nv)][idx] = 2.0 + idx / 8
    rows = [[c[i] for c in cols] for i in range(n)]

    def constraint(kind):
        if rng.random() > 0.4:
            return None
        if rng.random() < 0.04:
            return {"start": None, "vals": []}          # an empty constraint series
        m = rng.randint(1, 4)
        s = start + rng.randint(-3, n + 1)
        vals = []
        for _ in range(m):
            if rng.random() < 0.3:
                vals.append(float("nan"))
            elif kind == "level":
                vals.append(float(_nice(rng, 0.5, 12, 1 / 16)) if log else float(_nice(rng, -8, 8, 1 / 16)))
            else:
                vals.append(float(_nice(rng, 0.9, 1.1, 1 / 256)) if log else float(_nice(rng, -1, 1, 1 / 32)))
        if all(v != v for v in vals):
            vals[0] = 1.0
        return {"start": s, "vals": vals}

    level, change = constraint("level"), constraint("change")
    q = rng.random()
    if q < 0.35:
        span = None
    elif q < 0.6:        # inside the data
        a = start + rng.randint(0, n - 1)
        b = rng.randint(a, start + n - 1)
        span = {"a": a, "b": b, "form": rng.choice(["up", "up", "down", "list"])}
    elif q < 0.9:        # beyond the data on either side
        a = start + rng.randint(-5, n // 2)
        b = max(a, start + n - 1 + rng.randint(-n // 2, 5))
        span = {"a": a, "b": b, "form": rng.choice(["up", "up", "down"])}
    else:                # open-ended
        if rng.random() < 0.5:
            span = {"a": None, "b": start + rng.randint(0, n + 3), "form": "up"}
        else:
            span = {"a": start + rng.randint(-3, n - 1), "b": None, "form": "up"}
    return {"f": "hpf", "freq": freq, "start": start, "nv": nv, "rows": rows, "smooth": gen_smooth(rng), "log": log,
            "level": level, "change": change, "span": span,
            "via": rng.choice(["func", "func", "method_trend_gap", "func_trend_gap"])}


# ------------------------------------------------------------------ HP: implementation through the public API

def _mk_constraint(freq, c):
    import irispie as ir
    if c is None:
        return None
    if c["start"] is None:
        return ir.Series()
    return ir.Series(start=sc.mk_period(freq, c["start"]), values=np.array(c["vals"], dtype=float))


def _mk_span(case):
    import irispie as ir
    sp = case["span"]
    if sp is None:
        return None
    P = lambda s: None if s is None else sc.mk_period(case["freq"], s)
    if sp["form"] == "down":
        return ir.Span(P(sp["b"]), P(sp["a"]), -1)
    if sp["form"] == "list":
        return [P(t) for t in range(sp["a"], sp["b"] + 1)]
    return ir.Span(P(sp["a"]), P(sp["b"]))


def _x_series(case):
    import irispie as ir
    return ir.Series(start=sc.mk_period(case["freq"], case["start"]),
                     values=np.array(case["rows"], dtype=float).reshape(len(case["rows"]), case["nv"]))


def span_bounds(case):
    n = len(case["rows"])
    sp = case["span"]
    a = case["start"] if sp is None or sp["a"] is None else sp["a"]
    b = case["start"] + n - 1 if sp is None or sp["b"] is None else sp["b"]
    return a, b


def run_hpf(case) -> dict:
    """irispie.hpf / Series.hpf_trend / irispie.hpf_trend on the case; output observed on a window around the span."""
    import irispie as ir
    x = _x_series(case)
    kw = {}
    if case["smooth"] is not None:
        kw["smooth"] = case["smooth"]
    if case["log"]:
        kw["log"] = True
    lv, ch = _mk_constraint(case["freq"], case["level"]), _mk_constraint(case["freq"], case["change"])
    if lv is not None:
        kw["level"] = lv
    if ch is not None:
        kw["change"] = ch
    sp = _mk_span(case)
    if sp is not None:
        kw["span"] = sp
    try:
        if case["via"] == "func":
            trend, gap = ir.hpf(x, **kw)
        elif case["via"] == "func_trend_gap":
            trend, gap = ir.hpf_trend(x, **kw), ir.hpf_gap(x, **kw)
        else:
            trend, gap = x.copy(), x.copy()
            trend.hpf_trend(**kw)
            gap.hpf_gap(**kw)
    except Exception as e:  # noqa
        return {"err": f"{type(e).__name__}: {e}"[:300]}
    a, b = span_bounds(case)
    w0, w1 = a - 2, b + 2
    win = ir.Span(sc.mk_period(case["freq"], w0), sc.mk_period(case["freq"], w1))

    def grab(s):
        if s.start is None:
            return np.full((w1 - w0 + 1, s.data.shape[1]), np.nan), None, None
        # nothing may lie outside the window either
        return s.get_data(win), int(s.start.serial), int(s.end.serial)
    td, ts, te = grab(trend)
    gd, gs, ge = grab(gap)
    return {"w0": w0, "len": w1 - w0 + 1, "trend": td.T.tolist(), "gap": gd.T.tolist(),
            "trend_range": [ts, te], "gap_range": [gs, ge],
            "freq_ok": all(s.start is None or int(s.start.frequency) == case["freq"] for s in (trend, gap))}


# ------------------------------------------------------------------ HP: reference in exact rationals (harness side)
# Used (i) by the generator to keep cases well conditioned, (ii) to CONFIRM a disagreement reported by the Coq model
# on the property residual itself before anything is reported, (iii) by the falsifier.

def hp_setup(case):
    """positions and data of the filter problem the property describes (independent of the implementation)."""
    n0 = len(case["rows"])
    a, b = span_bounds(case)
    s0, s1 = min(case["start"], a), max(case["start"] + n0 - 1, b)
    for c in (case["level"], case["change"]):
        if c is not None and c["start"] is not None:
            vals = c["vals"]
            first = next(i for i, v in enumerate(vals) if v == v)
            last = max(i for i, v in enumerate(vals) if v == v)
            s0, s1 = min(s0, c["start"] + first), max(s1, c["start"] + last)
    n = s1 - s0 + 1

    def cons(c, skip0):
        out = []
        if c is None or c["start"] is None:
            return out
        for i, v in enumerate(c["vals"]):
            p = c["start"] + i - s0
            if v == v and 0 <= p < n and not (skip0 and p == 0):
                out.append((p, v))
        return out
    return s0, n, cons(case["level"], False), cons(case["change"], True)


def hp_matrices(n, lam, obs, lc, cc):
    K = np.zeros((n - 2, n))
    for i in range(n - 2):
        K[i, i], K[i, i + 1], K[i, i + 2] = 1, -2, 1
    C = np.zeros((len(lc) + len(cc), n))
    for r, (p, _) in enumerate(lc):
        C[r, p] = 1
    for r, (p, _) in enumerate(cc):
        C[len(lc) + r, p - 1], C[len(lc) + r, p] = -1, 1
    E = np.diag(np.array(obs, dtype=float))
    return K, E, C


def default_smooth(freq):
    return {1: 100, 2: 400, 4: 1600, 12: 14400}.get(freq, 1600)


def hp_well_posed(case) -> bool:
    s0, n, lc, cc = hp_setup(case)
    lam = case["smooth"] if case["smooth"] is not None else default_smooth(case["freq"])
    n0 = len(case["rows"])
    for v in range(case["nv"]):
        obs = [False] * n
        for i in range(n0):
            if case["rows"][i][v] == case["rows"][i][v]:
                obs[case["start"] + i - s0] = True
        K, E, C = hp_matrices(n, lam, obs, lc, cc)
        k = C.shape[0]
        M = np.block([[lam * K.T @ K + E, C.T], [C, np.zeros((k, k))]])
        if k and np.linalg.matrix_rank(C) < k:
            return False
        if np.linalg.cond(M) > 1e8:
            return False
    return True


# ------------------------------------------------------------------ HP: Coq rendering

def coq_constraint(c) -> str:
    if c is None or c["start"] is None:
        return "None"
    # what the implementation sees: a trimmed series (leading/trailing missing rows removed)
    vals = list(c["vals"])
    s = c["start"]
    while vals and vals[0] != vals[0]:
        vals.pop(0); s += 1
    while vals and vals[-1] != vals[-1]:
        vals.pop()
    return f"(Some ({coq_z(s)}, {coq_oq_list(vals)}))"


def log_table(case) -> dict:
    tb = {}
    if not case["log"]:
        return tb
    vals = [v for r in case["rows"] for v in r]
    for c in (case["level"], case["change"]):
        if c is not None and c["start"] is not None:
            vals += c["vals"]
    for v in vals:
        if v == v:
            tb[float(v).hex()] = (float(v), float(np.log(v)))
    return tb


def coq_hp_case(case, out) -> str:
    a, b = span_bounds(case)
    vars_ = coq_list([coq_oq_list([r[v] for r in case["rows"]]) for v in range(case["nv"])], sep=";\n      ")
    sp = "None" if case["span"] is None else f"(Some ({coq_z(a)}, {coq_z(b)}))"
    sm = "None" if case["smooth"] is None else f"(Some {coq_q(case['smooth'])})"
    args = (f"(mkHpArgs QOps {coq_z(case['freq'])} {coq_z(case['start'])}\n     {vars_}\n     "
            f"{coq_constraint(case['level'])} {coq_constraint(case['change'])} {sp} {sm} {core.coq_bool(case['log'])})")
    tr_, gp_ = out["trend"], out["gap"]
    if case["log"]:
        with np.errstate(all="ignore"):
            tr_ = np.log(np.array(tr_, dtype=float)).tolist()
            gp_ = np.log(np.array(gp_, dtype=float)).tolist()
    impl = coq_list([f"({coq_oq_list(t)},\n      {coq_oq_list(g)})" for t, g in zip(tr_, gp_)], sep=";\n     ")
    return f"hp_case_ok tol tbl {args} {coq_z(out['w0'])} {out['len']}%nat\n     {impl}"


HEADER = """From Coq Require Import ZArith List Bool.
From Bignums Require Import BigQ.
From Verif Require Import lib.MxC14 lib.CaseUtil model.HP model.L1.
Import ListNotations.
Open Scope Z_scope.
Set Printing Width 1000000.
Set Printing Depth 1000000.
Definition tol : bigQ := Eval vm_compute in qdiv (qofZ 1) (qofZ 10000000).
"""


def hp_shard_text(cases, outs) -> str:
    tb = {}
    for c in cases:
        tb.update(log_table(c))
    lines = [HEADER,
             "Definition tbl : list (bigQ * bigQ) := "
             + coq_list([f"({coq_q(a)}, {coq_q(b)})" for a, b in tb.values()]) + ".",
             "Definition cases : list (bool * bool) := ["]
    lines.append(";\n".join(f"  ({coq_hp_case(c, o)}, true)" for c, o in zip(cases, outs)))
    lines.append("].")
    lines.append("Eval vm_compute in (failing Bool.eqb cases 0).")
    return "\n".join(lines) + "\n"


# ------------------------------------------------------------------ L1 (lonf): generation / implementation

def gen_l1_case(rng) -> dict:
    freq = rng.choice(FREQ_CHOICES)
    nv = rng.choice([1, 1, 2])
    order = rng.choice([1, 2])
    n = rng.randint(3, 40) if rng.random() < 0.6 else rng.randint(3, 10)
    start = _serial0(rng, freq)
    arbitrary = rng.random() < 0.3
    cols = []
    for _ in range(nv):
        lvl, drift = rng.uniform(-10, 10), rng.uniform(-0.5, 0.5)
        kink = rng.randrange(n)
        col = []
        for i in range(n):
            v = lvl + drift * i + (0.8 * (i - kink) if i > kink else 0.0) + rng.uniform(-1.0, 1.0)
            col.append(float(v) if arbitrary else float(round(v * 64) / 64))
        cols.append(col)
    rows = [[c[i] for c in cols] for i in range(n)]
    q = rng.random()
    if q < 0.6 or n - order < 2:
        span = None
    else:
        a = rng.randint(0, n - order - 1)
        b = rng.randint(a + order, n - 1)
        span = [start + a, start + b]
    smooth = float(rng.choice([0.125, 0.5, 1, 2, 10, 50])) if rng.random() < 0.5 else float(10 ** rng.uniform(-2, 2.5))
    return {"f": "lonf", "freq": freq, "start": start, "nv": nv, "rows": rows, "order": order, "smooth": smooth,
            "span": span}


class _Recorder:
    """Wraps the daqp module inside irispie.series._ell_one: records every solve() call's primal solution."""

    def __init__(self, mod):
        self._mod = mod
        self.calls = []

    def __getattr__(self, name):
        return getattr(self._mod, name)

    def solve(self, *a, **k):
        r = self._mod.solve(*a, **k)
        self.calls.append({"x": [float(v) for v in np.asarray(r[0]).ravel()], "exitflag": int(r[2])})
        return r


def run_lonf(case, record=True) -> dict:
    import irispie as ir
    import irispie.series._ell_one as eo
    x = _x_series(case)
    sp = None
    if case["span"] is not None:
        sp = ir.Span(sc.mk_period(case["freq"], case["span"][0]), sc.mk_period(case["freq"], case["span"][1]))
    rec = _Recorder(eo._qp)
    orig = eo._qp
    if record:
        eo._qp = rec
    try:
        if sp is None:
            trend, gap = ir.lonf(x, case["order"], case["smooth"])
        else:
            trend, gap = ir.lonf(x, case["order"], case["smooth"], span=sp)
    except Exception as e:  # noqa
        return {"err": f"{type(e).__name__}: {e}"[:300]}
    finally:
        eo._qp = orig

    def obs(s):
        if s.start is None:
            return {"start": None, "cols": []}
        d = np.asarray(s.data, dtype=float)
        return {"start": int(s.start.serial), "freq": int(s.start.frequency), "cols": d.T.tolist()}
    return {"trend": obs(trend), "gap": obs(gap), "nu": [c["x"] for c in rec.calls],
            "exit": [c["exitflag"] for c in rec.calls]}


def l1_expected_span(case):
    n = len(case["rows"])
    return (case["start"], case["start"] + n - 1) if case["span"] is None else tuple(case["span"])


def l1_shape_ok(case, out) -> bool:
    """what the Coq side cannot see in its literals: both series present, same start, one column per variant,
    no missing values (the filter span is fully observed)"""
    if "err" in out:
        return False
    a, b = l1_expected_span(case)
    for s in (out["trend"], out["gap"]):
        if s["start"] is None or s["freq"] != case["freq"] or len(s["cols"]) != case["nv"]:
            return False
        if any(len(c) != b - a + 1 or any(v != v for v in c) for c in s["cols"]):
            return False
    return out["trend"]["start"] == out["gap"]["start"] and len(out["nu"]) == case["nv"]


def coq_q_list(xs) -> str:
    return coq_list([coq_q(v) for v in xs])


def coq_l1_case(case, out) -> str:
    vars_ = coq_list([coq_q_list([r[v] for r in case["rows"]]) for v in range(case["nv"])], sep=";\n      ")
    sp = "None" if case["span"] is None else f"(Some ({coq_z(case['span'][0])}, {coq_z(case['span'][1])}))"
    args = (f"(mkL1Args QOps {coq_z(case['start'])}\n     {vars_}\n     {sp} {case['order']}%nat "
            f"{coq_q(case['smooth'])})")
    nus = coq_list([coq_q_list(nu) for nu in out["nu"]], sep=";\n      ")
    impl = coq_list([f"({coq_q_list(t)},\n      {coq_q_list(g)})"
                     for t, g in zip(out["trend"]["cols"], out["gap"]["cols"])], sep=";\n     ")
    return f"l1_case_ok tol {args}\n     {nus}\n     {coq_z(out['trend']['start'])}\n     {impl}"


def l1_shard_text(cases, outs) -> str:
    lines = [HEADER, "Definition cases : list (bool * bool) := ["]
    lines.append(";\n".join(f"  ({coq_l1_case(c, o)}, true)" for c, o in zip(cases, outs)))
    lines.append("].")
    lines.append("Eval vm_compute in (failing Bool.eqb cases 0).")
    return "\n".join(lines) + "\n"


# ------------------------------------------------------------------ property residuals on the implementation
# (used to CONFIRM a disagreement and by the falsifier; exact rational arithmetic on the doubles returned)

def hp_objective(lam, y, obs, tau):
    n = len(tau)
    J = sum((y[i] - tau[i]) ** 2 for i in range(n) if obs[i])
    J += lam * sum((tau[i] - 2 * tau[i + 1] + tau[i + 2]) ** 2 for i in range(n - 2))
    return J


def hp_reference(case):
    """exact solution of the bordered normal equations of the problem the property describes, per variant:
    returns (s0, n, [(trend list (Fraction), obs mask, y list)], lc, cc) ; log mode: in logs (floats -> Fraction)"""
    s0, n, lc, cc = hp_setup(case)
    lam = frac(case["smooth"] if case["smooth"] is not None else default_smooth(case["freq"]))
    lg = (lambda v: frac(float(np.log(v)))) if case["log"] else frac
    n0 = len(case["rows"])
    res = []
    for v in range(case["nv"]):
        y = [Fraction(0)] * n
        obs = [False] * n
        for i in range(n0):
            val = case["rows"][i][v]
            if val == val:
                p = case["start"] + i - s0
                y[p], obs[p] = lg(val), True
        k = len(lc) + len(cc)
        N = n + k
        A = [[Fraction(0)] * (N + 1) for _ in range(N)]
        for i in range(n - 2):
            for a_, ca in ((i, 1), (i + 1, -2), (i + 2, 1)):
                for b_, cb in ((i, 1), (i + 1, -2), (i + 2, 1)):
                    A[a_][b_] += lam * ca * cb
        for i in range(n):
            if obs[i]:
                A[i][i] += 1
                A[i][N] = y[i]
        for r, (p, val) in enumerate(lc):
            A[n + r][p] = A[p][n + r] = Fraction(1)
            A[n + r][N] = lg(val)
        for r, (p, val) in enumerate(cc):
            rr = n + len(lc) + r
            A[rr][p] = A[p][rr] = Fraction(1)
            A[rr][p - 1] = A[p - 1][rr] = Fraction(-1)
            A[rr][N] = lg(val)
        sol = _solve_fraction(A)
        res.append((None if sol is None else sol[:n], obs, y))
    return s0, n, res, lc, cc, lam


def _solve_fraction(A):
    N = len(A)
    A = [row[:] for row in A]
    for c in range(N):
        piv = next((r for r in range(c, N) if A[r][c] != 0), None)
        if piv is None:
            return None
        A[c], A[piv] = A[piv], A[c]
        pv = A[c][c]
        A[c] = [v / pv for v in A[c]]
        for r in range(N):
            if r != c and A[r][c] != 0:
                f = A[r][c]
                A[r] = [a - f * b for a, b in zip(A[r], A[c])]
    return [A[r][N] for r in range(N)]


def hp_property_violations(case, out, tol=1e-6) -> list[str]:
    """The property residuals of C14 evaluated on the implementation's output (no model involved):
    trend+gap=data, gap missing where data missing, constraints met, trend = minimiser (distance to the exact
    solution of the normal equations), window/shape.  Returns a list of messages (empty = property holds)."""
    msgs = []
    if "err" in out:
        return [f"raises {out['err']}"]
    a, b = span_bounds(case)
    s0, n, ref, lc, cc, lam = hp_reference(case)
    w0 = out["w0"]
    if len(out["trend"]) != case["nv"] or len(out["gap"]) != case["nv"]:
        return [f"number of variants {len(out['trend'])}/{len(out['gap'])} != {case['nv']}"]
    if not out["freq_ok"]:
        msgs.append("frequency of the result differs from the input")
    n0 = len(case["rows"])
    for v in range(case["nv"]):
        tr, gp = out["trend"][v], out["gap"][v]
        sol, obs, y = ref[v]
        for j in range(out["len"]):
            t = w0 + j
            inside = a <= t <= b
            tv, gv = tr[j], gp[j]
            i0 = t - case["start"]
            data = case["rows"][i0][v] if 0 <= i0 < n0 else float("nan")
            if not inside:
                if tv == tv or gv == gv:
                    msgs.append(f"value outside the requested span at serial {t}")
                continue
            if tv != tv:
                msgs.append(f"trend missing inside the requested span at serial {t}")
                continue
            if (gv == gv) != (data == data):
                msgs.append(f"gap {'present' if gv == gv else 'missing'} where data are "
                            f"{'missing' if data != data else 'present'} at serial {t}")
                continue
            if data == data:
                if case["log"]:
                    ok = abs(tv * gv - data) <= tol * (1 + abs(data))
                else:
                    ok = abs(tv + gv - data) <= tol * (1 + abs(data))
                if not ok:
                    msgs.append(f"trend{'*' if case['log'] else '+'}gap != data at serial {t}: {tv}, {gv}, {data}")
            if sol is not None:
                want = float(sol[t - s0])
                got = float(np.log(tv)) if case["log"] and tv > 0 else tv
                if abs(got - want) > tol * (1 + abs(want)):
                    msgs.append(f"trend is not the minimiser at serial {t}: got {got}, exact solution of the "
                                f"normal equations {want}")
        # constraints met exactly (on the part of the filter span that is returned)
        lgf = (lambda x: float(np.log(x))) if case["log"] else (lambda x: x)

        def at(p):
            t = s0 + p
            j = t - w0
            if 0 <= j < out["len"] and a <= t <= b and tr[j] == tr[j] and (not case["log"] or tr[j] > 0):
                return lgf(tr[j])
            return None
        for p, val in lc:
            tv = at(p)
            if tv is not None and abs(tv - lgf(val)) > tol * (1 + abs(lgf(val))):
                msgs.append(f"level constraint not met at serial {s0 + p}: trend {tv}, constraint {lgf(val)}")
        for p, val in cc:
            t1, t0 = at(p), at(p - 1)
            if t1 is not None and t0 is not None and abs(t1 - t0 - lgf(val)) > tol * (1 + abs(lgf(val))):
                msgs.append(f"change constraint not met at serial {s0 + p}: change {t1 - t0}, constraint {lgf(val)}")
    return msgs[:6]


def l1_matrix(order, n):
    D = [[0] * n for _ in range(n - order)]
    for i in range(n - order):
        if order == 1:
            D[i][i], D[i][i + 1] = 1, -1
        else:
            D[i][i], D[i][i + 1], D[i][i + 2] = 1, -2, 1
    return D


def l1_property_violations(case, out, tol=1e-6) -> list[str]:
    """lonf: trend+gap=data; trend satisfies the optimality conditions of the l1 trend filter of the given order
    (dual certificate nu recovered from the gap alone by forward substitution: gap = D' nu)."""
    if "err" in out:
        return [f"raises {out['err']}"]
    a, b = l1_expected_span(case)
    n = b - a + 1
    order, lam = case["order"], frac(case["smooth"])
    msgs = []
    for nm in ("trend", "gap"):
        s = out[nm]
        if s["start"] is None:
            return [f"{nm} series is empty"]
        if len(s["cols"]) != case["nv"]:
            return [f"{nm} has {len(s['cols'])} variant(s), the input has {case['nv']}"]
        if s["start"] != a or s["freq"] != case["freq"] or any(len(c) != n for c in s["cols"]):
            return [f"{nm} spans serial {s['start']} + {len(s['cols'][0])}, expected {a} + {n}"]
    D = l1_matrix(order, n)
    for v in range(case["nv"]):
        y = [case["rows"][a - case["start"] + i][v] for i in range(n)]
        tr, gp = out["trend"]["cols"][v], out["gap"]["cols"][v]
        if any(x != x for x in tr) or any(x != x for x in gp):
            msgs.append("missing values in the result on a fully observed span")
            continue
        for i in range(n):
            if abs(tr[i] + gp[i] - y[i]) > tol * (1 + abs(y[i])):
                msgs.append(f"trend+gap != data at position {i}: {tr[i]} + {gp[i]} vs {y[i]}")
                break
        # nu from gap = D' nu (first n-order equations, forward substitution), then the remaining equations
        g = [frac(x) for x in gp]
        m = n - order
        nu = []
        for j in range(m):
            s = g[j]
            if order == 1:
                s += nu[j - 1] if j >= 1 else 0
            else:
                s += (2 * nu[j - 1] if j >= 1 else 0) - (nu[j - 2] if j >= 2 else 0)
            nu.append(s)
        scale = 1 + max(abs(float(x)) for x in y)
        for j in range(m, n):
            want = sum(D[i][j] * nu[i] for i in range(m))
            if abs(float(g[j] - want)) > tol * scale * n:
                msgs.append(f"gap is not of the form D' nu (row {j}): the optimality conditions cannot hold")
                break
        x = [frac(t) for t in tr]
        r = [sum(D[i][j] * x[j] for j in range(n)) for i in range(m)]
        P = Fraction(1, 2) * sum((frac(y[j]) - x[j]) ** 2 for j in range(n)) + lam * sum(abs(v_) for v_ in r)
        worst = max((abs(v_) for v_ in nu), default=Fraction(0))
        if float(worst) > float(lam) * (1 + 1e-6) + 1e-9 * scale:
            msgs.append(f"dual certificate outside the box: max |nu| = {float(worst)} > smooth = {float(lam)}")
        dgap = sum(lam * abs(r[i]) - nu[i] * r[i] for i in range(m))
        if float(dgap) > tol * (1 + float(P)) * 10:
            msgs.append(f"optimality conditions violated: duality gap {float(dgap)} (objective {float(P)})")
    return msgs[:6]


# ------------------------------------------------------------------ correspondence

def _repro(case) -> str:
    if case["f"] == "hpf":
        return ("import harness.C14 as h; h.run_hpf(case)   # irispie.hpf(x, span=..., smooth=..., log=..., level=..., "
                "change=...) on the series in 'input'")
    return "import harness.C14 as h; h.run_lonf(case)   # irispie.lonf(x, order, smooth, span=...)"


def correspondence(ctx) -> CorrResult:
    rng = ctx.rng
    n_hp = ctx.scale(200, 5000)
    n_l1 = ctx.scale(160, 4000)
    res = CorrResult()
    hp_cases = []
    rejected = 0
    while len(hp_cases) < n_hp:
        c = gen_hp_case(rng)
        if hp_well_posed(c):
            hp_cases.append(c)
        else:
            rejected += 1
    hp_outs = [run_hpf(c) for c in hp_cases]
    l1_cases = [gen_l1_case(rng) for _ in range(n_l1)]
    l1_outs = [run_lonf(c) for c in l1_cases]
    res.evaluations = n_hp + n_l1
    dist = {"hpf": {"cases": n_hp, "rejected_ill_conditioned": rejected, "log": 0, "level": 0, "change": 0,
                    "both_constraints": 0, "missing_values": 0, "two_variants": 0, "default_smooth": 0,
                    "span": {"none": 0, "inside": 0, "beyond": 0, "open": 0}, "via": {}, "freq": {}, "errors": 0,
                    "length": {"3-9": 0, "10-24": 0, "25-40": 0}},
            "lonf": {"cases": n_l1, "order1": 0, "order2": 0, "two_variants": 0, "span": 0, "errors": 0,
                     "exitflags": {}}}
    keys = set()
    for c, o in zip(hp_cases, hp_outs):
        d = dist["hpf"]
        d["log"] += c["log"]; d["level"] += c["level"] is not None; d["change"] += c["change"] is not None
        d["both_constraints"] += c["level"] is not None and c["change"] is not None
        d["missing_values"] += any(v != v for r in c["rows"] for v in r)
        d["two_variants"] += c["nv"] == 2
        d["default_smooth"] += c["smooth"] is None
        n0 = len(c["rows"])
        d["length"]["3-9" if n0 < 10 else "10-24" if n0 < 25 else "25-40"] += 1
        sp = c["span"]
        if sp is None:
            d["span"]["none"] += 1
        elif sp["a"] is None or sp["b"] is None:
            d["span"]["open"] += 1
        elif sp["a"] >= c["start"] and sp["b"] <= c["start"] + n0 - 1:
            d["span"]["inside"] += 1
        else:
            d["span"]["beyond"] += 1
        d["via"][c["via"]] = d["via"].get(c["via"], 0) + 1
        d["freq"][str(c["freq"])] = d["freq"].get(str(c["freq"]), 0) + 1
        if "err" in o:
            d["errors"] += 1
        elif n0 >= 4:
            keys.add(repr(c))
    for c, o in zip(l1_cases, l1_outs):
        d = dist["lonf"]
        d["order1" if c["order"] == 1 else "order2"] += 1
        d["two_variants"] += c["nv"] == 2
        d["span"] += c["span"] is not None
        if "err" in o:
            d["errors"] += 1
        else:
            for e in o["exit"]:
                d["exitflags"][str(e)] = d["exitflags"].get(str(e), 0) + 1
            if len(c["rows"]) >= 4:
                keys.add(repr(c))
    res.distinct_nontrivial = len(keys)
    res.distribution = dist
    res.rule = ("hpf: one generated series (six frequencies, 1-2 variants, length 3-40, interior missing values, at least "
                "two observations per variant), smoothing parameter default / from a list / random over 1e-2..5e4, optional "
                "level and change constraint series placed around the data, log True/False, span none / inside / beyond "
                "the data / open-ended / descending / list, called as irispie.hpf, irispie.hpf_trend+hpf_gap or the "
                "in-place methods; the exact rational model (model/HP.v on bigQ, normal equations solved inside Coq) must "
                "agree with trend and gap on a window two periods wider than the requested span within 1e-7*(1+|x|). "
                "lonf: one generated fully observed series, order 1-2, smoothing 1e-2..3e2, optional sub-span; daqp's "
                "recorded answer must pass the proved checker kkt_ok and reproduce trend and gap through the model. "
                "non-trivial = series of at least 4 periods on which the implementation returned a result; distinct = "
                "distinct case text")
    res.samples = [{"case": hp_cases[0], "impl": hp_outs[0]}, {"case": l1_cases[0], "impl": {k: l1_outs[0].get(k) for k in ("trend", "gap", "exit")}}]

    per_hp, per_l1 = ctx.scale(13, 40), ctx.scale(40, 100)
    shards = []          # (kind, cases, outs)
    # cases whose shape cannot even be written as a model comparison are disagreements straight away
    def bad_shape(kind, c, o, why):
        res.disagreements.append(Disagreement(f"{kind}: {why}", c, "a result of the documented shape",
                                              {k: o.get(k) for k in ("err", "trend_range", "gap_range") if k in o} or "shape"))
    ok_hp = []
    for c, o in zip(hp_cases, hp_outs):
        if "err" in o:
            bad_shape("hpf", c, o, "raises")
        elif len(o["trend"]) != c["nv"] or len(o["gap"]) != c["nv"] or not o["freq_ok"]:
            bad_shape("hpf", c, o, "wrong number of variants / frequency")
        elif any(r is not None and not (o["w0"] + 2 <= r <= o["w0"] + o["len"] - 3)
                 for r in o["trend_range"] + o["gap_range"]):
            bad_shape("hpf", c, o, "result reaches outside the requested span")
        else:
            ok_hp.append((c, o))
    ok_l1 = []
    for c, o in zip(l1_cases, l1_outs):
        if not l1_shape_ok(c, o):
            bad_shape("lonf", c, o, "result does not have one fully observed column per variant on the filter span")
        else:
            ok_l1.append((c, o))
    for i in range(0, len(ok_hp), per_hp):
        chunk = ok_hp[i:i + per_hp]
        shards.append(("hpf", [c for c, _ in chunk], [o for _, o in chunk]))
    for i in range(0, len(ok_l1), per_l1):
        chunk = ok_l1[i:i + per_l1]
        shards.append(("lonf", [c for c, _ in chunk], [o for _, o in chunk]))
    texts = [hp_shard_text(cs, os_) if kind == "hpf" else l1_shard_text(cs, os_) for kind, cs, os_ in shards]
    results = core.run_cases(ctx, texts)
    res.shards = len(texts)
    for (kind, cs, os_), (ok, outp) in zip(shards, results):
        if not ok:
            res.disagreements.append(Disagreement(f"{kind} cases shard does not evaluate", None, outp[-800:], None))
            continue
        bodies = core.parse_eval_lists(outp)
        if len(bodies) != 1:
            res.disagreements.append(Disagreement(f"{kind} cases shard: unparsable output", None, outp[-800:], None))
            continue
        for i in core.parse_nat_list(bodies[0]):
            c, o = cs[i], os_[i]
            viol = hp_property_violations(c, o) if kind == "hpf" else l1_property_violations(c, o)
            res.disagreements.append(Disagreement(
                f"{kind}: model and implementation differ" + ("" if viol else " (property residuals hold: model or tolerance)"),
                c, "exact rational model within 1e-7*(1+|x|)", {"violations": viol, "impl": {k: o.get(k) for k in ("trend", "gap")}}))
    return res


# ------------------------------------------------------------------ falsifier: the property on the public API

def _fail(key, what, case, observed=None, required=None) -> Failure:
    return Failure(key, what, case, observed, required, _repro(case))


def falsify(ctx, hints):
    import irispie as ir
    rng = ctx.rng
    fails: list[Failure] = []
    info = {"hp_cases": 0, "hp_perturbation_checks": 0, "line_checks": 0, "extension_checks": 0, "lonf_cases": 0,
            "lonf_missing_checks": 0, "from_disagreements": 0}

    def check_hp(c):
        if not hp_well_posed(c):
            return
        o = run_hpf(c)
        info["hp_cases"] += 1
        for m in hp_property_violations(c, o):
            kind = m.split(" at serial")[0].split(":")[0]
            fails.append(_fail(f"hpf:{'log:' if c['log'] else ''}{kind}", "hpf: " + m, c, o if "err" in o else m,
                               "trend+gap=data where data exist; constraints met; trend = minimiser of the HP objective"))

    def check_l1(c):
        o = run_lonf(c, record=False)
        info["lonf_cases"] += 1
        for m in l1_property_violations(c, o):
            kind = m.split(" at position")[0].split(":")[0]
            if kind.startswith(("trend has", "gap has")):
                kind = "variants dropped"
            fails.append(_fail(f"lonf:{kind}", "lonf: " + m, c, m,
                               "trend+gap=data; trend satisfies the optimality conditions of the l1 trend filter"))

    # 0. start from what the correspondence reported
    for d in hints.get("disagreements", [])[:20]:
        c = d.get("input")
        if isinstance(c, dict) and c.get("f") == "hpf":
            info["from_disagreements"] += 1
            check_hp(c)
        elif isinstance(c, dict) and c.get("f") == "lonf":
            info["from_disagreements"] += 1
            check_l1(c)

    n = ctx.scale(60, 1500)
    for it in range(n):
        c = gen_hp_case(rng)
        check_hp(c)
        if len(fails) > 30:
            break
    # 1. optimality by random feasible perturbations: J never lower than at the returned trend
    for it in range(ctx.scale(40, 800)):
        c = gen_hp_case(rng)
        c["log"] = False
        c["span"] = None
        c["via"] = "func"
        if not hp_well_posed(c):
            continue
        o = run_hpf(c)
        if "err" in o:
            continue
        s0, nn, ref, lc, cc, lam = hp_reference(c)
        if s0 != o["w0"] + 2 or nn != o["len"] - 4:
            continue                       # constraints extend the filter span beyond what is returned
        K, E0, C = hp_matrices(nn, 1.0, [True] * nn, lc, cc)
        # null space of C (feasible directions)
        if C.shape[0]:
            _, sv, vt = np.linalg.svd(C)
            null = vt[np.sum(sv > 1e-10):].T
        else:
            null = np.eye(nn)
        for v in range(c["nv"]):
            tau = np.array(o["trend"][v][2:-2])
            sol, obs, y = ref[v]
            if np.isnan(tau).any() or null.shape[1] == 0:
                continue
            J0 = hp_objective(lam, y, obs, [frac(t) for t in tau])
            for _ in range(4):
                d = null @ np.array([rng.uniform(-1, 1) for _ in range(null.shape[1])]) * 10 ** rng.uniform(-3, 0)
                J1 = hp_objective(lam, y, obs, [frac(t) for t in (tau + d)])
                info["hp_perturbation_checks"] += 1
                # feasibility of tau+d holds up to rounding of the null-space basis; allow for it
                if float(J1 - J0) < -1e-7 * (1 + float(J0)):
                    fails.append(_fail("hpf:not-a-minimiser", "hpf: a feasible perturbation of the returned trend has a "
                                       "lower objective", c, {"J_returned": float(J0), "J_perturbed": float(J1)},
                                       "J(returned trend) <= J(any feasible trend)"))
                    break
    # 2. a straight line (with gaps, any smoothing) is returned unchanged
    for it in range(ctx.scale(40, 600)):
        freq = rng.choice(FREQ_CHOICES)
        nn = rng.randint(3, 40)
        a_, b_ = _nice(rng, -10, 10, 1 / 8), _nice(rng, -2, 2, 1 / 16)
        rows = [[a_ + b_ * i] for i in range(nn)]
        c = {"f": "hpf", "freq": freq, "start": _serial0(rng, freq), "nv": 1, "rows": rows, "smooth": gen_smooth(rng),
             "log": False, "level": None, "change": None, "span": None, "via": "func"}
        holes = [i for i in range(1, nn - 1) if rng.random() < 0.15]
        if nn - len(holes) >= 2 and rng.random() < 0.5:
            for i in holes:
                rows[i][0] = float("nan")
        if rng.random() < 0.4:
            ext = rng.randint(1, 4)
            c["span"] = {"a": c["start"] - ext, "b": c["start"] + nn - 1 + ext, "form": "up"}
        if not hp_well_posed(c):
            continue
        o = run_hpf(c)
        info["line_checks"] += 1
        if "err" in o:
            fails.append(_fail("hpf:line:raises", f"hpf raises on a straight line: {o['err']}", c, o["err"]))
            continue
        a0, b0 = span_bounds(c)
        for j in range(o["len"]):
            t = o["w0"] + j
            if a0 <= t <= b0:
                want = a_ + b_ * (t - c["start"])
                got = o["trend"][0][j]
                if not (got == got) or abs(got - want) > 1e-7 * (1 + abs(want)) * (1 + abs(t - c["start"])):
                    fails.append(_fail("hpf:line-not-invariant", "hpf: a straight line is not returned unchanged", c,
                                       {"serial": t, "trend": got}, {"line": want}))
                    break
    # 3. the requested span only clips: the trend on common periods does not depend on the requested span
    for it in range(ctx.scale(40, 600)):
        c = gen_hp_case(rng)
        c["span"] = None
        c["via"] = "func"
        if not hp_well_posed(c):
            continue
        nn = len(c["rows"])
        c2 = dict(c)
        if rng.random() < 0.5:
            c2["span"] = {"a": c["start"] - rng.randint(0, 5), "b": c["start"] + nn - 1 + rng.randint(0, 5), "form": "up"}
        else:
            a1 = c["start"] + rng.randint(0, nn - 1)
            c2["span"] = {"a": a1, "b": rng.randint(a1, c["start"] + nn - 1), "form": "up"}
        if not hp_well_posed(c2):
            continue
        # the two calls must pose the same constraints: a change constraint dated at the first period of the
        # filter span has no predecessor and is dropped by the implementation (_remove_first_date_change), so a
        # span reaching further back activates it -- that is a different problem, not a clipping of the same one
        sa, _, lca, cca = hp_setup(c)
        sb, _, lcb, ccb = hp_setup(c2)
        if {(sa + p, v) for p, v in lca + cca} != {(sb + p, v) for p, v in lcb + ccb} or len(cca) != len(ccb):
            info["extension_skipped_first_date_change"] = info.get("extension_skipped_first_date_change", 0) + 1
            continue
        o1, o2 = run_hpf(c), run_hpf(c2)
        info["extension_checks"] += 1
        if "err" in o1 or "err" in o2:
            continue
        a2, b2 = span_bounds(c2)
        for v in range(c["nv"]):
            for t in range(max(c["start"], a2), min(c["start"] + nn - 1, b2) + 1):
                for nm in ("trend", "gap"):
                    x1, x2 = o1[nm][v][t - o1["w0"]], o2[nm][v][t - o2["w0"]]
                    if (x1 == x1) != (x2 == x2) or (x1 == x1 and abs(x1 - x2) > 1e-6 * (1 + abs(x1))):
                        fails.append(_fail("hpf:span-changes-values", f"hpf: the {nm} at a period depends on the requested "
                                           "span", c2, {"serial": t, "span=None": x1, "with span": x2}, "equal values"))
                        break
    # 4. lonf
    for it in range(ctx.scale(60, 1200)):
        check_l1(gen_l1_case(rng))
        if len(fails) > 60:
            break
    # 5. lonf on data with a missing observation inside the span / a span reaching beyond the data
    for it in range(ctx.scale(6, 40)):
        c = gen_l1_case(rng)
        c["nv"] = 1
        c["rows"] = [[r[0]] for r in c["rows"]]
        c["span"] = None
        nn = len(c["rows"])
        if nn < 5:
            continue
        c["rows"][rng.randint(1, nn - 2)][0] = float("nan")
        o = run_lonf(c, record=False)
        info["lonf_missing_checks"] += 1
        bad = "err" in o or o["trend"]["start"] is None or o["gap"]["start"] is None
        if not bad:
            tr, gp = o["trend"], o["gap"]
            for i in range(nn):
                y = c["rows"][i][0]
                jt, jg = c["start"] + i - tr["start"], c["start"] + i - gp["start"]
                tv = tr["cols"][0][jt] if 0 <= jt < len(tr["cols"][0]) else float("nan")
                gv = gp["cols"][0][jg] if 0 <= jg < len(gp["cols"][0]) else float("nan")
                if y == y and not (tv == tv and gv == gv and abs(tv + gv - y) <= 1e-6 * (1 + abs(y))):
                    bad = True
        if bad:
            fails.append(_fail("lonf:missing-observations", "lonf: with a missing observation inside the filter span the "
                               "result is empty / all missing, so trend+gap is not the data where data exist", c,
                               o.get("err") or {"trend_start": o["trend"]["start"], "gap_start": o["gap"]["start"]},
                               "trend+gap = data on the observed periods"))
    seen, uniq = set(), []
    for f_ in fails:
        if f_.key not in seen:
            seen.add(f_.key); uniq.append(f_)
    return uniq, info


def replay(ctx, failure: dict):
    c = failure.get("input")
    if not isinstance(c, dict) or "f" not in c:
        return None
    if failure["key"].startswith("lonf:missing"):
        o = run_lonf(c, record=False)
        if "err" in o or o["trend"]["start"] is None:
            return _fail(failure["key"], failure["what"], c, o.get("err", "empty result"))
        return None
    if c["f"] == "hpf":
        msgs = hp_property_violations(c, run_hpf(c))
    else:
        msgs = l1_property_violations(c, run_lonf(c, record=False))
    if msgs:
        return _fail(failure["key"], msgs[0], c, msgs)
    return None
