"""C14  Trend filters return the optimum of their problem; trend plus gap is the data."""
from __future__ import annotations

import math
from fractions import Fraction

import numpy as np

from vf import core
from vf.core import CorrResult, Disagreement, Failure, coq_z, coq_list
from translator import hp as tr
from . import series_common as sc

ID = "C14"
PROPS = "props/C14.v"
GENERATED = [tr.OUT]
CASE_DEPS = ["lib/CaseUtil.vo", "lib/MxC14.vo", "model/HP.vo", "model/L1.vo"]
ALLOWED_AXIOMS: set = set()          # the development is axiom-free (MathComp over an arbitrary realFieldType)
TRUSTED = [
    "translator/hp.py (stencils of K and D, constraint-row coefficients, default smoothing table, the QP data of lonf "
    "-> gen/HPGen.v)",
    "numpy.linalg.solve is an oracle: the theorems assume its contract M x = b; the executable model solves the same "
    "system exactly (fraction-free elimination on integers inside Coq) and re-checks M x = b exactly",
    "daqp is an oracle: its output nu is recorded by wrapping irispie.series._ell_one._qp.solve from the harness "
    "and checked by the proved checker kkt_ok (exact rational evaluation, stated slack)",
    "numpy.log / numpy.exp are black boxes: log=True is compared in log space (numpy.log of the data recorded as a "
    "table, numpy.log applied to the implementation's output by the harness)",
    "conversion of doubles to exact dyadic rationals (mantissa, exponent) by the harness",
]
ASSUMPTIONS = [
    "theorems are exact over an arbitrary real field (MathComp realFieldType); rounding is outside: the code is tied "
    "by tolerance 1e-7*(1+|x|) against the exact rational solution of the same normal equations",
    "generated inputs keep the bordered matrix well conditioned (cond <= 1e8), at least two observations per variant, "
    "constraints with full row rank",
    "lonf is exercised on fully observed spans inside the data (the code has no treatment of missing observations; "
    "see the findings in the report)",
]
MANIFEST = {
    "technique": "Coq/MathComp proof over any real field of the model of series/_hp.py and series/_ell_one.py written "
                 "once over an abstract matrix interface; the same text evaluated exactly on bigQ inside Coq against "
                 "the public API (tolerance tie); stencils/coefficients regenerated from the source",
    "level_text": "Theorems (props/C14.v), for every length, observation pattern, constraint set and smoothing "
                  "parameter: a solution of the bordered normal equations the model builds satisfies the constraints "
                  "exactly and minimises the Hodrick-Prescott objective among all feasible trends, with "
                  "J(t')-J(t) = (t'-t)'(E+lambda K'K)(t'-t) >= 0; it is the unique minimiser when the bordered matrix is "
                  "invertible, which holds whenever lambda>0, two observations exist and the constraint rows are "
                  "independent; trend+gap = data on observed rows and the gap is missing elsewhere; an affine series "
                  "(also with gaps) is returned unchanged; log=True is the filter of the logarithms, exponentiated, and "
                  "trend*gap = data; the requested span only selects rows. For lonf: trend+gap = data; the box-QP KKT "
                  "conditions of the dual are equivalent to the subgradient optimality conditions of the l1 trend "
                  "filter at trend = y - D'nu, and imply global optimality; the checker kkt_ok run on daqp's recorded "
                  "output is proved sound (bounded suboptimality).",
    "level_note": "partial: numpy.linalg.solve and daqp are oracles (contract assumed in the theorems, checked per "
                  "case by exact evaluation); rounding is outside (tolerance tie); numpy log/exp are black boxes; the "
                  "Series plumbing around the filters is tied by correspondence through the public API only.",
}

TOL = 1e-7
FREQ_CHOICES = [1, 2, 4, 12, 365, 0]


def translate(ctx):
    tr.run()


# ------------------------------------------------------------------ literals

def dyadic(x: float) -> tuple[int, int]:
    """x = m * 2**e exactly, m odd (or 0)."""
    if x == 0:
        return 0, 0
    m, e = math.frexp(x)
    m = int(m * (1 << 53))
    e -= 53
    while m % 2 == 0:
        m //= 2
        e += 1
    return m, e


def coq_q(x: float) -> str:
    m, e = dyadic(float(x))
    return f"(qdyadic {coq_z(m)} {coq_z(e)})"


def coq_oq(x) -> str:
    return "None" if (x is None or x != x) else f"(Some {coq_q(x)})"


def coq_oq_list(xs) -> str:
    return coq_list([coq_oq(v) for v in xs])


def frac(x: float) -> Fraction:
    return Fraction(float(x))


# ------------------------------------------------------------------ HP: generation

def _serial0(rng, freq):
    if freq == 365:
        return 730000 + rng.randint(0, 4000)
    if freq == 0:
        return rng.randint(-20, 40)
    return (1995 + rng.randint(0, 30)) * freq + rng.randint(0, freq - 1)


def _nice(rng, lo, hi, step):
    return round(rng.uniform(lo, hi) / step) * step


def gen_smooth(rng):
    q = rng.random()
    if q < 0.12:
        return None
    if q < 0.55:
        return float(rng.choice([0.5, 1, 2, 6.25, 10, 100, 129600 / 1000, 400, 1600, 14400, 0.125, 25, 5000]))
    return float(10 ** rng.uniform(-2, 4.7))


def gen_hp_case(rng, quick_sizes=True) -> dict:
    freq = rng.choice(FREQ_CHOICES)
    nv = rng.choice([1, 1, 2])
    n = rng.randint(3, 40) if rng.random() < 0.7 else rng.randint(3, 14)
    log = rng.random() < 0.3
    start = _serial0(rng, freq)
    # data: a smooth path plus noise; dyadic steps keep the exact arithmetic cheap, a share is arbitrary doubles
    arbitrary = rng.random() < 0.3
    cols = []
    for _ in range(nv):
        lvl = rng.uniform(1.0, 20.0) if log else rng.uniform(-10, 10)
        drift = rng.uniform(-0.5, 0.5)
        col = []
        for i in range(n):
            v = lvl + drift * i + rng.uniform(-1.5, 1.5)
            if log:
                v = abs(v) + 0.25
            col.append(float(v) if arbitrary else float(round(v * 64) / 64 or 1 / 64))
        # interior missing values
        for i in range(n):
            if rng.random() < 0.12:
                col[i] = float("nan")
        obs = [i for i in range(n) if col[i] == col[i]]
        while len(obs) < 2:
            i = rng.randrange(n)
            if col[i] != col[i]:
                col[i] = 1.0 + i
                obs.append(i)
        cols.append(col)
    # the Series trims all-missing leading/trailing rows: make the first and last row observed somewhere
    for idx in (0, n - 1):
        if all(c[idx] != c[idx] for c in cols):
            cols[rng.randrange(nv)][idx] = 2.0 + idx / 8
    rows = [[c[i] for c in cols] for i in range(n)]

    def constraint(kind):
        if rng.random() > 0.4:
            return None
        if rng.random() < 0.04:
            return {"start": None, "vals": []}          # an empty constraint series
        m = rng.randint(1, 4)
        s = start + rng.randint(-3, n + 1)
        vals = []
        for _ in range(m):
            if rng.random() < 0.3:
                vals.append(float("nan"))
            elif kind == "level":
                vals.append(float(_nice(rng, 0.5, 12, 1 / 16)) if log else float(_nice(rng, -8, 8, 1 / 16)))
            else:
                vals.append(float(_nice(rng, 0.9, 1.1, 1 / 256)) if log else float(_nice(rng, -1, 1, 1 / 32)))
        if all(v != v for v in vals):
            vals[0] = 1.0
        return {"start": s, "vals": vals}

    level, change = constraint("level"), constraint("change")
    q = rng.random()
    if q < 0.35:
        span = None
    elif q < 0.6:        # inside the data
        a = start + rng.randint(0, n - 1)
        b = rng.randint(a, start + n - 1)
        span = {"a": a, "b": b, "form": rng.choice(["up", "up", "down", "list"])}
    elif q < 0.9:        # beyond the data on either side
        a = start + rng.randint(-5, n // 2)
        b = max(a, start + n - 1 + rng.randint(-n // 2, 5))
        span = {"a": a, "b": b, "form": rng.choice(["up", "up", "down"])}
    else:                # open-ended
        if rng.random() < 0.5:
            span = {"a": None, "b": start + rng.randint(0, n + 3), "form": "up"}
        else:
            span = {"a": start + rng.randint(-3, n - 1), "b": None, "form": "up"}
    return {"f": "hpf", "freq": freq, "start": start, "nv": nv, "rows": rows, "smooth": gen_smooth(rng), "log": log,
            "level": level, "change": change, "span": span,
            "via": rng.choice(["func", "func", "method_trend_gap", "func_trend_gap"])}


# ------------------------------------------------------------------ HP: implementation through the public API

def _mk_constraint(freq, c):
    import irispie as ir
    if c is None:
        return None
    if c["start"] is None:
        return ir.Series()
    return ir.Series(start=sc.mk_period(freq, c["start"]), values=np.array(c["vals"], dtype=float))


def _mk_span(case):
    import irispie as ir
    sp = case["span"]
    if sp is None:
        return None
    P = lambda s: None if s is None else sc.mk_period(case["freq"], s)
    if sp["form"] == "down":
        return ir.Span(P(sp["b"]), P(sp["a"]), -1)
    if sp["form"] == "list":
        return [P(t) for t in range(sp["a"], sp["b"] + 1)]
    return ir.Span(P(sp["a"]), P(sp["b"]))


def _x_series(case):
    import irispie as ir
    return ir.Series(start=sc.mk_period(case["freq"], case["start"]),
                     values=np.array(case["rows"], dtype=float).reshape(len(case["rows"]), case["nv"]))


def span_bounds(case):
    n = len(case["rows"])
    sp = case["span"]
    a = case["start"] if sp is None or sp["a"] is None else sp["a"]
    b = case["start"] + n - 1 if sp is None or sp["b"] is None else sp["b"]
    return a, b


def run_hpf(case) -> dict:
    """irispie.hpf / Series.hpf_trend / irispie.hpf_trend on the case; output observed on a window around the span."""
    import irispie as ir
    x = _x_series(case)
    kw = {}
    if case["smooth"] is not None:
        kw["smooth"] = case["smooth"]
    if case["log"]:
        kw["log"] = True
    lv, ch = _mk_constraint(case["freq"], case["level"]), _mk_constraint(case["freq"], case["change"])
    if lv is not None:
        kw["level"] = lv
    if ch is not None:
        kw["change"] = ch
    sp = _mk_span(case)
    if sp is not None:
        kw["span"] = sp
    try:
        if case["via"] == "func":
            trend, gap = ir.hpf(x, **kw)
        elif case["via"] == "func_trend_gap":
            trend, gap = ir.hpf_trend(x, **kw), ir.hpf_gap(x, **kw)
        else:
            trend, gap = x.copy(), x.copy()
            trend.hpf_trend(**kw)
            gap.hpf_gap(**kw)
    except Exception as e:  # noqa
        return {"err": f"{type(e).__name__}: {e}"[:300]}
    a, b = span_bounds(case)
    w0, w1 = a - 2, b + 2
    win = ir.Span(sc.mk_period(case["freq"], w0), sc.mk_period(case["freq"], w1))

    def grab(s):
        if s.start is None:
            return np.full((w1 - w0 + 1, s.data.shape[1]), np.nan), None, None
        # nothing may lie outside the window either
        return s.get_data(win), int(s.start.serial), int(s.end.serial)
    td, ts, te = grab(trend)
    gd, gs, ge = grab(gap)
    return {"w0": w0, "len": w1 - w0 + 1, "trend": td.T.tolist(), "gap": gd.T.tolist(),
            "trend_range": [ts, te], "gap_range": [gs, ge],
            "freq_ok": all(s.start is None or int(s.start.frequency) == case["freq"] for s in (trend, gap))}


# ------------------------------------------------------------------ HP: reference in exact rationals (harness side)
# Used (i) by the generator to keep cases well conditioned, (ii) to CONFIRM a disagreement reported by the Coq model
# on the property residual itself before anything is reported, (iii) by the falsifier.

def hp_setup(case):
    """positions and data of the filter problem the property describes (independent of the implementation)."""
    n0 = len(case["rows"])
    a, b = span_bounds(case)
    s0, s1 = min(case["start"], a), max(case["start"] + n0 - 1, b)
    for c in (case["level"], case["change"]):
        if c is not None and c["start"] is not None:
            vals = c["vals"]
            first = next(i for i, v in enumerate(vals) if v == v)
            last = max(i for i, v in enumerate(vals) if v == v)
            s0, s1 = min(s0, c["start"] + first), max(s1, c["start"] + last)
    n = s1 - s0 + 1

    def cons(c, skip0):
        out = []
        if c is None or c["start"] is None:
            return out
        for i, v in enumerate(c["vals"]):
            p = c["start"] + i - s0
            if v == v and 0 <= p < n and not (skip0 and p == 0):
                out.append((p, v))
        return out
    return s0, n, cons(case["level"], False), cons(case["change"], True)


def hp_matrices(n, lam, obs, lc, cc):
    K = np.zeros((n - 2, n))
    for i in range(n - 2):
        K[i, i], K[i, i + 1], K[i, i + 2] = 1, -2, 1
    C = np.zeros((len(lc) + len(cc), n))
    for r, (p, _) in enumerate(lc):
        C[r, p] = 1
    for r, (p, _) in enumerate(cc):
        C[len(lc) + r, p - 1], C[len(lc) + r, p] = -1, 1
    E = np.diag(np.array(obs, dtype=float))
    return K, E, C


def default_smooth(freq):
    return {1: 100, 2: 400, 4: 1600, 12: 14400}.get(freq, 1600)


def hp_well_posed(case) -> bool:
    s0, n, lc, cc = hp_setup(case)
    lam = case["smooth"] if case["smooth"] is not None else default_smooth(case["freq"])
    n0 = len(case["rows"])
    for v in range(case["nv"]):
        obs = [False] * n
        for i in range(n0):
            if case["rows"][i][v] == case["rows"][i][v]:
                obs[case["start"] + i - s0] = True
        K, E, C = hp_matrices(n, lam, obs, lc, cc)
        k = C.shape[0]
        M = np.block([[lam * K.T @ K + E, C.T], [C, np.zeros((k, k))]])
        if k and np.linalg.matrix_rank(C) < k:
            return False
        if np.linalg.cond(M) > 1e8:
            return False
    return True


# ------------------------------------------------------------------ HP: Coq rendering

def coq_constraint(c) -> str:
    if c is None or c["start"] is None:
        return "None"
    # what the implementation sees: a trimmed series (leading/trailing missing rows removed)
    vals = list(c["vals"])
    s = c["start"]
    while vals and vals[0] != vals[0]:
        vals.pop(0); s += 1
    while vals and vals[-1] != vals[-1]:
        vals.pop()
    return f"(Some ({coq_z(s)}, {coq_oq_list(vals)}))"


def log_table(case) -> dict:
    tb = {}
    if not case["log"]:
        return tb
    vals = [v for r in case["rows"] for v in r]
    for c in (case["level"], case["change"]):
        if c is not None and c["start"] is not None:
            vals += c["vals"]
    for v in vals:
        if v == v:
            tb[float(v).hex()] = (float(v), float(np.log(v)))
    return tb


def coq_hp_case(case, out) -> str:
    a, b = span_bounds(case)
    vars_ = coq_list([coq_oq_list([r[v] for r in case["rows"]]) for v in range(case["nv"])], sep=";\n      ")
    sp = "None" if case["span"] is None else f"(Some ({coq_z(a)}, {coq_z(b)}))"
    sm = "None" if case["smooth"] is None else f"(Some {coq_q(case['smooth'])})"
    args = (f"(mkHpArgs QOps {coq_z(case['freq'])} {coq_z(case['start'])}\n     {vars_}\n     "
            f"{coq_constraint(case['level'])} {coq_constraint(case['change'])} {sp} {sm} {core.coq_bool(case['log'])})")
    tr_, gp_ = out["trend"], out["gap"]
    if case["log"]:
        with np.errstate(all="ignore"):
            tr_ = np.log(np.array(tr_, dtype=float)).tolist()
            gp_ = np.log(np.array(gp_, dtype=float)).tolist()
    impl = coq_list([f"({coq_oq_list(t)},\n      {coq_oq_list(g)})" for t, g in zip(tr_, gp_)], sep=";\n     ")
    return f"hp_case_ok tol tbl {args} {coq_z(out['w0'])} {out['len']}%nat\n     {impl}"


HEADER = """From Coq Require Import ZArith List Bool.
From Bignums Require Import BigQ.
From Verif Require Import lib.MxC14 lib.CaseUtil model.HP model.L1.
Import ListNotations.
Open Scope Z_scope.
Set Printing Width 1000000.
Set Printing Depth 1000000.
Definition tol : bigQ := Eval vm_compute in qdiv (qofZ 1) (qofZ 10000000).
"""


def hp_shard_text(cases, outs) -> str:
    tb = {}
    for c in cases:
        tb.update(log_table(c))
    lines = [HEADER,
             "Definition tbl : list (bigQ * bigQ) := "
             + coq_list([f"({coq_q(a)}, {coq_q(b)})" for a, b in tb.values()]) + ".",
             "Definition cases : list (bool * bool) := ["]
    lines.append(";\n".join(f"  ({coq_hp_case(c, o)}, true)" for c, o in zip(cases, outs)))
    lines.append("].")
    lines.append("Eval vm_compute in (failing Bool.eqb cases 0).")
    return "\n".join(lines) + "\n"
