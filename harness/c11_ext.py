"""C11, round 4: case kinds and falsifier parts for
   (A) the date columns of multi-frequency CSV sheets (Databox.to_csv_file / from_csv_file with the default SDMX codecs and
       with the ISO codecs), and
   (B) periods reached by arithmetic with numpy integers.
   Used by harness/C11.py only."""
from __future__ import annotations

import csv
import os

from vf.core import coq_z
from .C09 import (oZ, oL, oP, attempt, coq_spec, mk_py, spec_freq, rand_spec, py_spec, POS)

ORDER = [1, 2, 4, 12, 365, 0]                     # block order of to_csv_file (_DEFAULT_FREQUENCY_SPAN)
MARK = {1: "__yearly__", 2: "__halfyearly__", 4: "__quarterly__", 12: "__monthly__", 365: "__daily__", 0: "__integer__"}
NP_KINDS = {1: "int64", 2: "int32", 3: "arange", 4: "intp", 5: "int16", 6: "uint8"}


def coq_str(s: str) -> str:
    assert all(32 <= ord(c) <= 126 for c in s), s
    return '"' + s.replace('"', '""') + '"'


def coq_bool(b) -> str:
    return "true" if b else "false"


# ------------------------------------------------------------------ (B) arithmetic with typed offsets

def np_value(k: int, ty: int):
    import numpy as np
    if ty == 0:
        return int(k)
    kind = NP_KINDS[ty]
    if kind == "arange":
        return np.arange(k, k + 1)[0] if k >= 0 else -np.arange(-k, -k + 1)[0]
    return getattr(np, kind)(k)


def py_np_value(k: int, ty: int) -> str:
    if ty == 0:
        return str(int(k))
    kind = NP_KINDS[ty]
    if kind == "arange":
        return f"np.arange({k}, {k + 1})[0]" if k >= 0 else f"(-np.arange({-k}, {-k + 1})[0])"
    return f"np.{kind}({k})"


def rand_typed_offset(rng):
    ty = rng.choice([0, 1, 1, 2, 3, 4, 5, 6])
    if NP_KINDS.get(ty) == "uint8":
        k = rng.randint(0, 200)
    elif ty == 0 or NP_KINDS[ty] in ("int64", "intp", "arange"):
        k = rng.choice([0, 1, -1, rng.randint(-40, 40), rng.randint(-3000, 3000)])
    else:
        k = rng.choice([0, 1, -1, rng.randint(-40, 40), rng.randint(-3000, 3000)])
    return k, ty


def gen_arith(rng, cal_spec) -> dict:
    s = cal_spec(rng, sloppy=0)
    ops = []
    for _ in range(rng.randint(1, 4)):
        k, ty = rand_typed_offset(rng)
        ops.append((rng.randrange(4), k, ty))
    return {"kind": "arith", "s": s, "ops": ops}


def apply_op(p, kind, x):
    if kind == 0:
        return p + x
    if kind == 1:
        return x + p
    if kind == 2:
        return p - x
    return p.shift(x)


def run_arith(c, oS):
    def go():
        p = mk_py(c["s"])
        for kind, k, ty in c["ops"]:
            p = apply_op(p, kind, np_value(k, ty))
        return oL([oP(p), oZ(0 if type(p.serial) is int else 1), attempt(lambda: oS(repr(p)))])
    return attempt(go)


def coq_arith(c) -> str:
    ops = "; ".join(f"({kind}, {coq_z(k)}, {1 if ty else 0})" for kind, k, ty in c["ops"])
    return f"c_arith {coq_spec(c['s'])} [{ops}]"


# ------------------------------------------------------------------ (A) sheets

def fmt_callable(ir, fm: int, variant: int = 0):
    """date_formatter for to_csv_file"""
    if fm == 0:
        return [None, (lambda p: p.to_sdmx_string()), str][variant % 3]
    pos = POS[fm - 1]
    if fm == 1 and variant % 2:
        return ir.Period.to_iso_string                     # default position = start
    return lambda p: p.to_iso_string(position=pos)


def par_callable(ir, par: int, variant: int = 0):
    """period_from_string for from_csv_file"""
    if par == 0:
        return [None, ir.Period.from_sdmx_string][variant % 2]
    return ir.Period.from_iso_string


def fmt_text(ir, fm: int, p) -> str:
    return p.to_sdmx_string() if fm == 0 else p.to_iso_string(position=POS[fm - 1])


def write_sheet(path, cols):
    """cols: [(f, [cell, ...])]; series s<j> in block j carries the value i+1 in data row i when the date cell is not empty"""
    n = max(len(cells) for _, cells in cols)
    with open(path, "w", newline="") as fid:
        w = csv.writer(fid, lineterminator="\n")
        head = []
        for j, (f, _) in enumerate(cols):
            head += [MARK[f], f"s{j}", ""]
        w.writerow(head)
        for i in range(n):
            row = []
            for f, cells in cols:
                cell = cells[i] if i < len(cells) else ""
                row += [cell, str(i + 1) if cell else "", ""]
            w.writerow(row)


def obs_imported(db, ncols: int, freqs):
    import numpy as np
    out = []
    for j in range(ncols):
        x = db[f"s{j}"]
        rows = []
        if x.start is not None:
            data = x.data
            for p, v in zip(x.periods, data[:, 0].tolist()):
                if not np.isnan(v):
                    if v != int(v) or int(v) < 1:
                        raise AssertionError(f"value {v} was not written")
                    rows.append((int(v) - 1, p))
        rows.sort(key=lambda t: t[0])
        out.append(oL([oZ(freqs[j]), oL([oL([oZ(i), oP(p)]) for i, p in rows])]))
    return oL(out)


def gen_sheet_import(rng, cal_spec) -> dict:
    """cells the library itself writes (any frequency for any mark under the ISO codec: the texts coincide), a few gaps,
    a few malformed cells"""
    import irispie as ir  # noqa
    par = rng.choice([0, 1, 1])
    fm = 0 if par == 0 else rng.randint(1, 3)
    nb = rng.randint(1, 4)
    freqs = [rng.choice([1, 2, 4, 12, 365] + ([0] if par == 0 else [])) for _ in range(nb)]
    if par == 1 and nb > 1 and rng.random() < 0.7:
        anchor = cal_spec(rng, freq=rng.choice([1, 2, 4, 12, 365]), sloppy=0)     # all blocks start on the same day
    else:
        anchor = None
    cols = []
    for f in freqs:
        n = rng.randint(1, 6)
        if anchor is not None:
            a = mk_py(anchor)
            base = a.refrequent(ir.Frequency(f), position=POS[fm - 1]) if f != spec_freq(anchor) else a
        else:
            base = mk_py(rand_spec(rng, freq=f, lo=2, hi=9900, sloppy=0))
        offs = rng.sample(range(0, 14), n) if rng.random() < 0.3 else list(range(n))
        if rng.random() < 0.5:
            offs.sort()
        cells = []
        for o in offs:
            p = base + o
            # under ISO the text may be produced at another frequency (same day): the mark decides
            cells.append(fmt_text(ir, fm, p))
        if n > 2 and rng.random() < 0.2:
            cells[rng.randrange(1, n)] = ""                  # a gap row
        if rng.random() < 0.06:
            cells[rng.randrange(n)] = rng.choice(["2020-Q5", "abc", "2020-13-01", "2021-02-29", "2020", "2020-01", "(7)", "2020-1-5"])
        if par == 0 and rng.random() < 0.15:
            k = rng.randrange(n)
            # (blank-padded daily text: Python's int() takes ' 2086' -- outside the string model, see ASSUMPTIONS of C11)
            if cells[k] and f != 365:
                cells[k] = " " * rng.randint(0, 2) + cells[k] + " " * rng.randint(0, 2)
        cols.append((f, cells))
    return {"kind": "sheet_import", "par": par, "variant": rng.randrange(2), "start_only": rng.random() < 0.25, "cols": cols}


def gen_sheet_series(rng, cal_spec) -> dict:
    """date cells the library writes, in any order and with REPEATED periods inside a block: the imported series keeps the
    last row written for a period (model: CodecsExt2.surviving_rows)"""
    import irispie as ir  # noqa
    par = rng.choice([0, 1])
    fm = 0 if par == 0 else rng.randint(1, 3)
    cols = []
    for _ in range(rng.randint(1, 3)):
        f = rng.choice([1, 2, 4, 12, 365] + ([0] if par == 0 else []))
        base = mk_py(rand_spec(rng, freq=f, lo=2, hi=9900, sloppy=0))
        n = rng.randint(2, 7)
        offs = [rng.randrange(0, rng.choice([2, 3, 5, 9])) for _ in range(n)]
        cells = [fmt_text(ir, fm, base + o) for o in offs]
        if n > 2 and rng.random() < 0.2:
            cells[rng.randrange(1, n)] = ""
        cols.append((f, cells))
    return {"kind": "sheet_series", "par": par, "variant": rng.randrange(2), "start_only": False, "cols": cols}


def run_sheet_import(c, work):
    import irispie as ir

    def go():
        path = os.path.join(work, "c11_sheet_import.csv")
        write_sheet(path, c["cols"])
        kw = {}
        pf = par_callable(ir, c["par"], c["variant"])
        if pf is not None:
            kw["period_from_string"] = pf
        if c["start_only"]:
            kw["start_period_only"] = True
        db = ir.Databox.from_csv_file(path, **kw)
        return obs_imported(db, len(c["cols"]), [f for f, _ in c["cols"]])
    return attempt(go)


def coq_sheet_import(c) -> str:
    cols = "; ".join(f"({coq_z(f)}, [" + "; ".join(coq_str(x) for x in cells) + "])" for f, cells in c["cols"])
    return f"c_sheet_import {c['par']} {coq_bool(c['start_only'])} [{cols}]"


def gen_sheet_roundtrip(rng, cal_spec, kind) -> dict:
    fm = rng.choice([0, 1, 1, 2, 3])
    freqs = [f for f in ORDER if (f != 0 or fm == 0) and rng.random() < 0.6]
    if not freqs:
        freqs = [rng.choice([1, 4, 12])]
    if fm != 0 and len(freqs) > 1 and rng.random() < 0.7:
        anchor = mk_py(rand_spec(rng, freq=365, lo=2, hi=9900, sloppy=0))
    else:
        anchor = None
    blocks = []
    for f in freqs:
        if anchor is not None and f != 0:
            import irispie as ir
            p = anchor.refrequent(ir.Frequency(f), position="start")
            if f == 365:
                s = ("day",) + tuple(p.to_ymd())
            else:
                y, seg = p.to_year_segment()
                s = ("reg", f, y, seg)
        else:
            s = rand_spec(rng, freq=f, lo=2, hi=9900, sloppy=0)
        blocks.append((s, rng.randint(1, 7)))
    return {"kind": kind, "fm": fm, "par": 0 if fm == 0 else 1, "variant": rng.randrange(6),
            "start_only": kind == "sheet_roundtrip" and rng.random() < 0.2, "blocks": blocks}


def _write_databox(c, work, ir):
    import numpy as np
    db = ir.Databox()
    for j, (s, n) in enumerate(c["blocks"]):
        p = mk_py(s)
        db[f"s{j}"] = ir.Series(periods=p >> (p + (n - 1)), values=np.arange(1, n + 1, dtype=float))
    path = os.path.join(work, "c11_sheet_rt.csv")
    kw = {}
    fmt = fmt_callable(ir, c["fm"], c["variant"])
    if fmt is not None:
        kw["date_formatter"] = fmt
    db.to_csv_file(path, **kw)
    return path


def run_sheet_export(c, work, oS):
    import irispie as ir

    def go():
        path = _write_databox(c, work, ir)
        with open(path, newline="") as fid:
            rows = list(csv.reader(fid))
        head, data = rows[0], rows[1:]
        out = []
        for col, cell in enumerate(head):
            if cell.startswith("__") and len(cell) > 4:
                f = ir.Frequency.from_letter(cell).value
                out.append(oL([oZ(f), oL([oS(r[col]) for r in data])]))
        return oL(out)
    return attempt(go)


def run_sheet_roundtrip(c, work):
    import irispie as ir

    def go():
        path = _write_databox(c, work, ir)
        kw = {}
        pf = par_callable(ir, c["par"], c["variant"])
        if pf is not None:
            kw["period_from_string"] = pf
        if c["start_only"]:
            kw["start_period_only"] = True
        db = ir.Databox.from_csv_file(path, **kw)
        return obs_imported(db, len(c["blocks"]), [spec_freq(s) for s, _ in c["blocks"]])
    return attempt(go)


def coq_sheet_rt(c) -> str:
    bl = "; ".join(f"({coq_spec(s)}, {n}%nat)" for s, n in c["blocks"])
    if c["kind"] == "sheet_export":
        return f"c_sheet_export {c['fm']} [{bl}]"
    return f"c_sheet_roundtrip {c['fm']} {c['par']} {coq_bool(c['start_only'])} [{bl}]"


# ------------------------------------------------------------------ falsifier parts (property on the public API)

SHEET_SNIPPET = """import numpy as np, tempfile, os
blocks = {blocks}
db = ir.Databox()
{extra}for name, (start, n) in blocks.items():
    db[name] = ir.Series(periods=start >> (start + (n - 1)), values=np.arange(1, n + 1, dtype=float))
path = os.path.join(tempfile.mkdtemp(), "sheet.csv")
db.to_csv_file(path{wkw})
back = ir.Databox.from_csv_file(path{rkw})
for name, (start, n) in blocks.items():
    want = tuple(start + k for k in range(n))
    x = back[name]
    got = tuple(x.periods)
    assert len(got) == n and all(type(a) is type(b) and a == b for a, b in zip(got, want)), (name, [repr(p) for p in want[:3]], [repr(p) for p in got[:3]])
    assert x.data[:, 0].tolist() == [float(k) for k in range(1, n + 1)], (name, x.data[:, 0].tolist())
"""


def falsify_sheets(ctx, ck):
    rng = ctx.rng
    for it in range(ctx.scale(60, 600)):
        fm = rng.choice([0, 0, 1, 1, 2, 3])
        freqs = [f for f in ORDER if (f != 0 or fm == 0) and rng.random() < 0.65]
        if len(freqs) < 2:
            freqs = [1, 4] if fm else [4, 0]
        aligned = fm != 0 and rng.random() < 0.75
        year = rng.choice([rng.randint(2, 9900), rng.randint(1900, 2100)])
        blocks = {}
        for f in freqs:
            if aligned and f != 0:
                # all blocks start on 1 January (start), or end on 31 December (end) of the same year
                if fm == 3:
                    s = ("reg", f, year, f) if f != 365 else ("day", year, 12, 31)
                else:
                    s = ("reg", f, year, 1) if f != 365 else ("day", year, 1, 1)
            else:
                s = rand_spec(rng, freq=f, lo=2, hi=9900, sloppy=0)
            blocks[f"x{f}_0"] = (s, rng.randint(1, 9))
            if rng.random() < 0.25:
                # a second series of the same frequency a few periods away (the block spans both)
                from .C09 import shifted_spec
                blocks[f"x{f}_1"] = (shifted_spec(rng, s, rng.randint(0, 12)), rng.randint(1, 9))
        btxt = "{" + ", ".join(f"{nm!r}: ({py_spec(s)}, {n})" for nm, (s, n) in blocks.items()) + "}"
        if fm == 0:
            w = rng.choice(["", ", date_formatter=lambda p: p.to_sdmx_string()", ", date_formatter=str"])
            r = rng.choice(["", ", period_from_string=ir.Period.from_sdmx_string"])
            name = "sdmx"
        else:
            pos = POS[fm - 1]
            w = f", date_formatter=lambda p: p.to_iso_string(position={pos!r})"
            if fm == 1 and rng.random() < 0.5:
                w = ", date_formatter=ir.Period.to_iso_string"
            r = ", period_from_string=ir.Period.from_iso_string"
            name = "iso"
        if rng.random() < 0.2:
            w += ", description_row=True"
            r += ", description_row=True"
        snippet = SHEET_SNIPPET.format(blocks=btxt, extra="", wkw=w, rkw=r)
        ck.check(f"csv_dates:roundtrip:{name}",
                 "periods written to a multi-frequency CSV sheet with the date formatter do not come back through the matching "
                 "period_from_string (period -> string -> period is not the identity on the import/export path)",
                 {"blocks": btxt, "to_csv_file": w.lstrip(", "), "from_csv_file": r.lstrip(", ")}, snippet)


NUMPY_CODECS = [
    ("repr", "ns = dict(yy=ir.yy, hh=ir.hh, qq=ir.qq, mm=ir.mm, dd=ir.dd, ii=ir.ii)\n"
             "r = eval(repr(q), ns)\nassert type(r) is type(q) and r == q, repr(q)"),
    ("sdmx", "x = q.to_sdmx_string()\nr = ir.Period.from_sdmx_string(x)\n"
             "assert type(r) is type(q) and r == q, x\nassert ir.Period.from_sdmx_string(x, frequency=q.frequency) == q"),
]
NUMPY_CAL_CODECS = [
    ("iso", "for pos in ('start', 'middle', 'end'):\n    x = q.to_iso_string(position=pos)\n"
            "    assert ir.Period.from_iso_string(x, frequency=q.frequency) == q, x"),
    ("ymd", "for pos in ('start', 'middle', 'end'):\n    t = q.to_ymd(position=pos)\n"
            "    assert ir.Period.from_ymd(q.frequency, *t) == q, t"),
    ("year_segment", "t = q.to_year_segment()\nassert ir.Period.from_year_segment(q.frequency, *t) == q, t"),
    ("pydate", "for pos in ('start', 'middle', 'end'):\n    t = q.to_python_date(position=pos)\n"
               "    assert ir.Period.from_python_date(t, frequency=q.frequency) == q"),
    ("refrequent", "for g in (1, 2, 4, 12, 365):\n    r = q.refrequent(ir.Frequency(g), position='middle')\n"
                   "    t = q.to_python_date(position='middle')\n"
                   "    assert r.frequency == ir.Frequency(g) and r.to_python_date(position='start') <= t <= r.to_python_date(position='end'), repr(r)\n"
                   "    ns = dict(yy=ir.yy, hh=ir.hh, qq=ir.qq, mm=ir.mm, dd=ir.dd, ii=ir.ii)\n"
                   "    assert eval(repr(r), ns) == r, repr(r)"),
]


def in_calendar_after(s, delta: int) -> bool:
    """does the period `delta` periods after spec s lie in years 2..9998 ?"""
    import datetime as dt
    if s[0] == "reg":
        ser = s[2] * s[1] + s[3] - 1 + delta
        return 2 <= ser // s[1] <= 9998
    base = dt.date(s[1], 1, 1).toordinal() + s[2] - 1 if s[0] == "doy" else dt.date(s[1], s[2], s[3]).toordinal()
    return dt.date(2, 1, 1).toordinal() <= base + delta <= dt.date(9998, 12, 31).toordinal()


def falsify_numpy(ctx, ck, names):
    """periods obtained through arithmetic / constructors with numpy integers go through every codec like any other period"""
    rng = ctx.rng
    for it in range(ctx.scale(150, 1500)):
        f = rng.choice([1, 2, 4, 12, 365, 0])
        s = rand_spec(rng, freq=f, lo=10, hi=9950, sloppy=0)
        nm = names[f]
        how = rng.randrange(6)
        steps, plain_steps = [], []
        if how <= 3:
            total = 0
            for _ in range(rng.randint(1, 3)):
                k, ty = rand_typed_offset(rng)
                if ty == 0 and not steps:
                    ty = 1
                kind = rng.randrange(4)
                # stay inside the supported calendar (years 1..9999) at every step
                total2 = total + (-k if kind == 2 else k)
                if f != 0 and not in_calendar_after(s, total2):
                    continue
                total = total2
                x = py_np_value(k, ty)
                steps.append({0: f"q = q + {x}", 1: f"q = {x} + q", 2: f"q = q - {x}", 3: f"q = q.shift({x})"}[kind])
                plain_steps.append(f"plain = plain {'-' if kind == 2 else '+'} ({k})")
            if not steps:
                steps.append("q = q + np.int64(0)")
            build = f"q = {py_spec(s)}\n" + "\n".join(steps) + "\n"
        elif how == 4:
            # a period picked out of a numpy-driven loop: start + np.arange(n)[i], start + np.argmax(...)
            n = rng.randint(2, 30)
            i = rng.randrange(n)
            build = (f"plain = {py_spec(s)} + {i}\n"
                     f"q = [{py_spec(s)} + k for k in np.arange({n})][{i}]\n") if rng.random() < 0.5 else \
                    (f"plain = {py_spec(s)} + {i}\n"
                     f"q = {py_spec(s)} + np.argmax(np.arange({n}) == {i})\n")
        else:
            # constructors fed with numpy integers
            p = mk_py(s)
            if f == 0:
                build = f"plain = ir.ii({p.serial})\nq = ir.ii(np.int64({p.serial}))\n"
            elif f == 365:
                y, m, d = p.to_ymd()
                build = (f"plain = ir.dd({y}, {m}, {d})\n"
                         + rng.choice([f"q = ir.dd(np.int64({y}), np.int32({m}), np.int64({d}))\n",
                                       f"q = ir.Period.from_ymd(ir.Frequency.DAILY, np.int64({y}), np.int64({m}), np.int64({d}))\n"]))
            else:
                y, g = p.to_year_segment()
                c = {1: "yy", 2: "hh", 4: "qq", 12: "mm"}[f]
                build = (f"plain = ir.{c}({y}, {g})\n"
                         + rng.choice([f"q = ir.{c}(np.int64({y}), np.int32({g}))\n",
                                       f"q = ir.Period.from_year_segment(ir.Frequency({f}), np.int64({y}), np.int64({g}))\n",
                                       f"q = ir.Period.from_ymd(ir.Frequency({f}), np.int64({y}), np.int64({p.to_ymd()[1]}), np.int64(1))\n"]))
        pre = "import numpy as np\n" + build
        from .C09 import run_snippet
        if run_snippet(pre) is not None:
            # the arithmetic / constructor itself raises: not a matter of C11 (period arithmetic is C09)
            ck.count["numpy_int_build_raises"] = ck.count.get("numpy_int_build_raises", 0) + 1
            continue
        for cname, body in NUMPY_CODECS + ([] if f == 0 else NUMPY_CAL_CODECS):
            ck.check(f"numpy_int:{cname}:roundtrip:{nm}",
                     f"a period built with numpy integers does not round-trip through {cname} like the same period built with ints",
                     {"build": build}, pre + body)
