"""Shared by C03 and C08: generator of small solved stationary models and data sets, the driver of
irispie's public Kalman-filter API, the rendering of a case for the executable Coq model
(coq/model/Kalman.v on exact rationals), and the comparison of the two."""
from __future__ import annotations

import contextlib
import io
import math
import re
from fractions import Fraction

import numpy as np

from vf import core
from vf.core import CorrResult, Disagreement, Failure

TOL = 1e-7
COND_MAX = 1e6          # cases whose prediction MSE matrices are worse conditioned are regenerated

# ------------------------------------------------------------------------------------------------
# generator
# ------------------------------------------------------------------------------------------------


def _r(rng, lo, hi, nd=2):
    return round(rng.uniform(lo, hi), nd)


def gen_model(rng) -> dict:
    """A random stationary model: k transition variables (some in logs, lags up to 2, optional lag
    identities), m measurement variables (some in logs, own measurement shocks for most)."""
    while True:
        k = rng.choice([1, 1, 2, 2, 3, 3, 4])
        names = [f"x{i+1}" for i in range(k)]
        logly = [rng.random() < 0.3 for _ in range(k)]
        ss = [(_r(rng, 0.5, 3.0) if lg else _r(rng, -2.0, 3.0)) for lg in logly]
        A1 = np.zeros((k, k)); A2 = np.zeros((k, k))
        for i in range(k):
            A1[i, i] = _r(rng, -0.5, 0.9)
            for j in range(k):
                if j != i and rng.random() < 0.4:
                    A1[i, j] = _r(rng, -0.5, 0.5)
            if rng.random() < 0.35:
                A2[i, rng.randrange(k)] = _r(rng, -0.4, 0.4)
        comp = np.block([[A1, A2], [np.eye(k), np.zeros((k, k))]])
        rho = max(abs(np.linalg.eigvals(comp)))
        if rho < 0.9:
            break
    has_shock = [True] * k
    if k >= 2 and rng.random() < 0.25:
        has_shock[rng.randrange(k)] = False           # an equation without a shock
    # optional identity: lag of a variable as a separate variable
    ident = None
    if rng.random() < 0.3:
        j = rng.randrange(k)
        ident = {"name": "lx", "of": j}

    def lv(j, shift):
        nm = names[j] + (f"{{{shift}}}" if shift else "")
        return f"log({nm})" if logly[j] else nm

    def ssv(j):
        return f"log(ss{j+1})" if logly[j] else f"ss{j+1}"

    eqs = []
    params = {}
    for i in range(k):
        params[f"ss{i+1}"] = ss[i]
        terms = []
        for lag, A in ((-1, A1), (-2, A2)):
            for j in range(k):
                if A[i, j] != 0:
                    pn = f"a{abs(lag)}_{i+1}{j+1}"
                    params[pn] = float(A[i, j])
                    terms.append(f"{pn}*({lv(j, lag)} - {ssv(j)})")
        rhs = " + ".join(terms) if terms else "0"
        if has_shock[i]:
            rhs += f" + e{i+1}"
        eqs.append(f"{lv(i, 0)} - {ssv(i)} = {rhs};")
    tnames = list(names)
    tlog = list(logly)
    steady = {names[i]: ss[i] for i in range(k)}
    if ident:
        j = ident["of"]
        tnames.append("lx"); tlog.append(logly[j])
        eqs.append(f"lx = {names[j]}{{-1}};")
        steady["lx"] = ss[j]
    shocks = [f"e{i+1}" for i in range(k) if has_shock[i]]
    # measurement block
    m = rng.choice([1, 2, 2, 3]) if len(tnames) > 1 else rng.choice([1, 1, 2])
    mnames = [f"o{j+1}" for j in range(m)]
    mlog = [rng.random() < 0.3 for _ in range(m)]
    meqs, mshocks = [], []
    for j in range(m):
        load = {}
        idx = list(range(len(tnames)))
        rng.shuffle(idx)
        for i in idx[:rng.choice([1, 1, 2])]:
            load[i] = _r(rng, 0.3, 1.5) * rng.choice([1, 1, -1])
        c = _r(rng, -1.0, 1.0)
        params[f"c{j+1}"] = c
        terms = [f"c{j+1}"]
        val = c
        for i, d in load.items():
            pn = f"d{j+1}_{i+1}"
            params[pn] = d
            nm = tnames[i]
            terms.append(f"{pn}*{'log(' + nm + ')' if tlog[i] else nm}")
            val += d * (math.log(steady[nm]) if tlog[i] else steady[nm])
        own = rng.random() < 0.8
        if own:
            mshocks.append(f"w{j+1}")
            terms.append(f"w{j+1}")
        lhs = f"log({mnames[j]})" if mlog[j] else mnames[j]
        meqs.append(f"{lhs} = {' + '.join(terms)};")
        steady[mnames[j]] = math.exp(val) if mlog[j] else val
    logs = [n for n, lg in zip(tnames, tlog) if lg] + [n for n, lg in zip(mnames, mlog) if lg]
    src = "!transition-variables\n  " + ", ".join(tnames) + "\n"
    if shocks:
        src += "!transition-shocks\n  " + ", ".join(shocks) + "\n"
    src += "!measurement-variables\n  " + ", ".join(mnames) + "\n"
    if mshocks:
        src += "!measurement-shocks\n  " + ", ".join(mshocks) + "\n"
    src += "!parameters\n  " + ", ".join(params) + "\n"
    if logs:
        src += "!log-variables\n  " + ", ".join(logs) + "\n"
    src += "!transition-equations\n  " + "\n  ".join(eqs) + "\n"
    src += "!measurement-equations\n  " + "\n  ".join(meqs) + "\n"
    stds = {f"std_{s}": _r(rng, 0.2, 1.5) for s in shocks}
    stds.update({f"std_{s}": _r(rng, 0.1, 1.0) for s in mshocks})
    return {"source": src, "params": params, "steady": steady, "stds": stds,
            "tnames": tnames, "tlog": tlog, "mnames": mnames, "mlog": mlog,
            "shocks": shocks, "mshocks": mshocks, "max_lag": 2 if A2.any() else 1}


def gen_case(rng, max_periods=8) -> dict:
    model = gen_model(rng)
    nper = rng.randint(1, max_periods)
    m = len(model["mnames"])
    # observations: steady state plus noise; logs positive
    data = []
    for j, nm in enumerate(model["mnames"]):
        st = model["steady"][nm]
        col = []
        for _ in range(nper):
            z = round(rng.gauss(0, 1.0), 3)
            col.append(round(st * math.exp(0.3 * z), 6) if model["mlog"][j] else round(st + z, 6))
        data.append(col)
    # missing-data mask
    mask = [[rng.random() < 0.75 for _ in range(nper)] for _ in range(m)]
    q = rng.random()
    if q < 0.15:                              # a fully missing period
        t = rng.randrange(nper)
        for j in range(m):
            mask[j][t] = False
    elif q < 0.3:                             # leading gap
        g = rng.randint(1, max(1, nper // 2))
        for j in range(m):
            for t in range(g):
                mask[j][t] = False
    elif q < 0.45:                            # trailing gap
        g = rng.randint(1, max(1, nper // 2))
        for j in range(m):
            for t in range(nper - g, nper):
                mask[j][t] = False
    elif q < 0.5:                             # nothing observed at all
        mask = [[False] * nper for _ in range(m)]
    elif q < 0.6:                             # everything observed
        mask = [[True] * nper for _ in range(m)]
    # time-varying stds supplied as data
    tv_stds = {}
    if rng.random() < 0.5:
        for nm in model["stds"]:
            if rng.random() < 0.6:
                tv_stds[nm] = [(_r(rng, 0.1, 1.5) if rng.random() < 0.85 else None) for _ in range(nper)]
    # shock means supplied as data
    shock_means = {}
    if rng.random() < 0.3:
        for nm in model["shocks"] + model["mshocks"]:
            if rng.random() < 0.6:
                shock_means[nm] = [(_r(rng, -0.5, 0.5) if rng.random() < 0.8 else None) for _ in range(nper)]
    return {
        "model": model, "nper": nper, "start": [rng.choice([1, 4, 12]), rng.randint(1990, 2030), 1],
        "data": data, "mask": mask,
        "deviation": rng.random() < 0.4,
        "rescale_variance": rng.random() < 0.4,
        "tv_stds": tv_stds, "shock_means": shock_means,
    }


# ------------------------------------------------------------------------------------------------
# implementation side: the public API
# ------------------------------------------------------------------------------------------------

def build_model(model: dict):
    import irispie as ir
    m = ir.Simultaneous.from_string(model["source"])
    m.assign(**model["params"])
    m.assign(**model["stds"])
    m.assign(**model["steady"])
    with contextlib.redirect_stdout(io.StringIO()):
        m.steady()
    m.solve()
    return m


def _period(start):
    import irispie as ir
    f, y, s = start
    return {1: ir.yy, 4: ir.qq, 12: ir.mm}[f](y, s) if f != 1 else ir.yy(y)


def input_databox(m, case: dict):
    """The input databox of the case (levels, or deviations from steady state when deviation=True)."""
    import irispie as ir
    model = case["model"]
    start = _period(case["start"])
    span = start >> (start + case["nper"] - 1)
    dev = case["deviation"]
    db = ir.Databox.steady(m, span, deviation=dev)
    for j, nm in enumerate(model["mnames"]):
        st = model["steady"][nm]
        vals = []
        for t in range(case["nper"]):
            if not case["mask"][j][t]:
                vals.append(np.nan)
                continue
            v = case["data"][j][t]
            if dev:
                v = v / st if model["mlog"][j] else v - st
            vals.append(v)
        db[nm] = ir.Series(periods=span, values=np.array(vals, dtype=float))
    for nm, col in case["tv_stds"].items():
        db[nm] = ir.Series(periods=span, values=np.array([np.nan if v is None else v for v in col], dtype=float))
    for nm, col in case["shock_means"].items():
        db[nm] = ir.Series(periods=span, values=np.array([np.nan if v is None else v for v in col], dtype=float))
    return db, span


def kf_options(case: dict) -> dict:
    return {
        "deviation": case["deviation"], "rescale_variance": case["rescale_variance"],
        "stds_from_data": bool(case["tv_stds"]), "shocks_from_data": bool(case["shock_means"]),
    }


def _arr(series, span):
    return np.asarray(series.get_data(span), dtype=float).reshape(-1)


def run_impl(case: dict) -> dict:
    """Run Simultaneous.kalman_filter on the case; returns outputs as arrays plus the solution
    matrices and the initial condition the filter used (recorded by wrapping initialize)."""
    import irispie as ir
    import irispie.fords.kalmans as K
    model = case["model"]
    m = build_model(model)
    db, span = input_databox(m, case)
    rec = {}
    orig = K._initializers.initialize

    def wrap(*a, **k):
        r = orig(*a, **k)
        rec["init"] = r
        return r
    K._initializers.initialize = wrap
    try:
        out, info = m.kalman_filter(db, span, return_info=True, **kf_options(case))
    finally:
        K._initializers.initialize = orig
    sol = m._gets_solution(deviation=False)
    vec = m._get_dynamic_solution_vectors()
    curr_qids, curr_idx = vec.get_curr_transition_indexes()
    qid_to_name = m.create_qid_to_name()
    res = {
        "span": span, "model_obj": m, "db": db, "out": out, "info": info,
        "Ta": np.array(sol.Ta), "Pa": np.array(sol.Pa), "Ka": np.array(sol.Ka).reshape(-1),
        "Za": np.array(sol.Za), "H": np.array(sol.H), "D": np.array(sol.D).reshape(-1), "Ua": np.array(sol.Ua),
        "curr_idx": list(curr_idx), "curr_names": [qid_to_name[q] for q in curr_qids],
        "y_names": [qid_to_name[t.qid] for t in vec.measurement_variables],
        "u_names": [qid_to_name[t.qid] for t in vec.transition_shocks],
        "w_names": [qid_to_name[t.qid] for t in vec.measurement_shocks],
        "num_unit_roots": int(sol.num_unit_roots),
        "init_med": np.array(rec["init"][0]).reshape(-1), "init_mse": np.array(rec["init"][1]),
        "unknown_init": rec["init"][2],
    }
    return res


def log_name(case, nm):
    model = case["model"]
    lg = dict(zip(model["tnames"] + model["mnames"], model["tlog"] + model["mlog"]))
    return f"log({nm})" if lg.get(nm, False) else nm


def cond_ok(impl) -> bool:
    for F in impl["out"]["predict_mse_obs"][0]:
        F = np.asarray(F)
        if F.size and (not np.all(np.isfinite(F)) or np.linalg.cond(F) > COND_MAX):
            return False
    return True


# ------------------------------------------------------------------------------------------------
# inputs of the model: what the filter is *supposed* to read from the databox
# ------------------------------------------------------------------------------------------------

def period_inputs(case: dict, impl: dict) -> list[dict]:
    """Per period: mask, y (logs of log-variables; deviations when deviation=True), stds, shock means.
    Computed from the case itself (not from the implementation's intermediate arrays)."""
    model = case["model"]
    mlog = dict(zip(model["mnames"], model["mlog"]))
    dev = case["deviation"]
    out = []
    for t in range(case["nper"]):
        mask, y = [], []
        for nm in impl["y_names"]:
            j = model["mnames"].index(nm)
            ob = case["mask"][j][t]
            mask.append(bool(ob))
            if not ob:
                y.append(0.0)
                continue
            v = case["data"][j][t]
            st = model["steady"][nm]
            if dev:
                v = v / st if mlog[nm] else v - st
            y.append(float(np.log(v)) if mlog[nm] else float(v))

        def std_of(sh):
            col = case["tv_stds"].get(f"std_{sh}")
            if col is not None and col[t] is not None:
                return float(col[t])
            return float(model["stds"][f"std_{sh}"])

        def mean_of(sh):
            col = case["shock_means"].get(sh)
            if col is not None and col[t] is not None:
                return float(col[t])
            return 0.0
        out.append({
            "mask": mask, "y": y,
            "std_u": [std_of(s) for s in impl["u_names"]], "std_w": [std_of(s) for s in impl["w_names"]],
            "u0": [mean_of(s) for s in impl["u_names"]], "w0": [mean_of(s) for s in impl["w_names"]],
        })
    return out


# ------------------------------------------------------------------------------------------------
# expected values, in the order the model lists them
# ------------------------------------------------------------------------------------------------

def expected_outputs(case: dict, impl: dict):
    """(values, labels): every number the implementation returned that the model defines, flattened
    period by period in the order of Kalman.v's [pout]; stds are squared (exactly) so that they can be
    compared with the model's variances.  NaN placement is checked here, against the mask."""
    out, span = impl["out"], impl["span"]
    pin = period_inputs(case, impl)
    vals, labels, problems = [], [], []

    def get(box, nm):
        return _arr(out[box][log_name(case, nm)], span)

    cols = {}
    for box in ("predict_med", "update_med", "smooth_med", "predict_std", "update_std", "smooth_std", "predict_err"):
        for nm in (impl["curr_names"] + impl["u_names"] + impl["w_names"] + impl["y_names"]):
            ln = log_name(case, nm)
            if ln in out[box].keys():
                cols[(box, nm)] = _arr(out[box][ln], span)
    nper = case["nper"]
    for t in range(nper):
        mask = pin[t]["mask"]
        obs = [nm for nm, ob in zip(impl["y_names"], mask) if ob]

        def put(box, nm, square=False, tag=None):
            v = float(cols[(box, nm)][t])
            labels.append(f"{tag or box}:{nm}@{t}")
            if v != v or math.isinf(v):
                problems.append(f"{box}:{nm}@{t} is {v}")
                vals.append(None)
            else:
                vals.append(Fraction(v) ** 2 if square else Fraction(v))
        for nm in impl["curr_names"]:
            put("predict_med", nm)
        for nm in obs:
            put("predict_med", nm)
        for nm, ob in zip(impl["y_names"], mask):
            if not ob and not np.isnan(cols[("predict_med", nm)][t]):
                problems.append(f"predict_med:{nm}@{t} should be NaN (not observed)")
        for nm in impl["curr_names"]:
            put("predict_std", nm, square=True)
        F = np.asarray(out["predict_mse_obs"][0][t], dtype=float)
        if F.shape != (len(obs), len(obs)):
            problems.append(f"predict_mse_obs@{t} has shape {F.shape}, {len(obs)} observed")
        for i, v in enumerate(F.reshape(-1)):
            labels.append(f"predict_mse_obs[{i}]@{t}")
            vals.append(Fraction(float(v)) if np.isfinite(v) else None)
        for nm in impl["curr_names"]:
            put("update_med", nm)
        for nm in impl["u_names"]:
            put("update_med", nm)
        for nm in impl["w_names"]:
            put("update_med", nm)
        for nm in impl["curr_names"]:
            put("update_std", nm, square=True)
        for nm in obs:
            put("predict_err", nm)
        for nm, ob in zip(impl["y_names"], mask):
            if not ob and ("predict_err", nm) in cols and not np.isnan(cols[("predict_err", nm)][t]):
                problems.append(f"predict_err:{nm}@{t} should be NaN (not observed)")
        for nm in impl["curr_names"]:
            put("smooth_med", nm)
        for nm in impl["u_names"]:
            put("smooth_med", nm)
        for nm in impl["w_names"]:
            put("smooth_med", nm)
        for nm in impl["curr_names"]:
            put("smooth_std", nm, square=True)
    return vals, labels, problems


# ------------------------------------------------------------------------------------------------
# Coq rendering
# ------------------------------------------------------------------------------------------------

def q_lit(x) -> str:
    """Exact bigQ term of a double / dyadic Fraction: D m e = m * 2^e."""
    fr = Fraction(x)
    den = fr.denominator
    e = den.bit_length() - 1
    if den != 1 << e:
        raise ValueError("not a dyadic rational")
    m = fr.numerator
    ms = f"({m})" if m < 0 else f"{m}"
    return f"(D {ms} {'(-' + str(e) + ')' if e else '0'})"


def q_mat(A) -> str:
    A = np.atleast_2d(np.asarray(A, dtype=float))
    if A.size == 0:
        return "[" + "; ".join("[]" for _ in range(A.shape[0])) + "]"
    return "[" + "; ".join("[" + "; ".join(q_lit(float(v)) for v in row) + "]" for row in A) + "]"


def q_col(v) -> str:
    v = np.asarray(v, dtype=float).reshape(-1)
    return "[" + "; ".join("[" + q_lit(float(x)) + "]" for x in v) + "]"


def q_list(v) -> str:
    return "[" + "; ".join(q_lit(float(x)) for x in v) + "]"


def coq_bool(b) -> str:
    return "true" if b else "false"


def header(carrier="CFX") -> str:
    return f"""From Coq Require Import List ZArith Bool.
From Verif Require Import lib.MatOps model.Kalman lib.KalmanCase.
Import ListNotations.
Open Scope Z_scope.
Notation C := {carrier}.
Notation QMat := (ListMat (cs_ops C)).
Notation D := (KalmanCase.D C).
Set Printing Width 1000000.
Set Printing Depth 1000000.
"""


def coq_case(idx: int, case: dict, impl: dict, expected) -> str:
    n = impl["Ta"].shape[0]
    nu = impl["Pa"].shape[1]
    nw = impl["H"].shape[1]
    nyf = impl["Za"].shape[0]
    nxi = impl["Ua"].shape[0]
    pin = period_inputs(case, impl)
    sol = (f"(@mkSolution QMat {n} {nw} {nu} {nyf} {nxi} {q_mat(impl['Ta'])} {q_mat(impl['Pa']) if nu else q_mat(np.zeros((n,0)))} "
           f"{q_col(impl['Ka'])} {q_mat(impl['Za'])} {q_mat(impl['H']) if nw else q_mat(np.zeros((nyf,0)))} {q_col(impl['D'])} "
           f"{q_mat(impl['Ua'])} [{'; '.join(str(i) + '%nat' for i in impl['curr_idx'])}])")
    pds = []
    for p in pin:
        pds.append(f"(@mkPdata QMat {n} {nw} {nu} {nyf} [{'; '.join(coq_bool(b) for b in p['mask'])}] {q_col(p['y'])} "
                   f"{q_list(p['std_u'])} {q_list(p['std_w'])} {q_col(p['u0'])} {q_col(p['w0'])} None)")
    exp = "[" + "; ".join("None" if v is None else f"Some {q_lit(v)}" for v in expected) + "]"
    return (f"Definition sol_{idx} := {sol}.\n"
            f"Definition data_{idx} := [{'; '.join(pds)}].\n"
            f"Definition exp_{idx} : list (option (car (cs_ops C))) := {exp}.\n"
            f"Definition res_{idx} := run_case C {n} {nw} {nu} {nyf} {nxi} {coq_bool(case['deviation'])} "
            f"{coq_bool(case['rescale_variance'])} sol_{idx} {q_col(impl['init_med'])} {q_mat(impl['init_mse'])} "
            f"{q_list([case['model']['stds']['std_' + s] for s in impl['u_names']])} data_{idx} exp_{idx}.\n"
            f"Eval vm_compute in res_{idx}.\n")


# ------------------------------------------------------------------------------------------------
# parsing the model's answer
# ------------------------------------------------------------------------------------------------

_TOK = re.compile(r"\s*(\(|\)|\[|\]|;|,|#|-?\d+|[A-Za-z_][A-Za-z_0-9]*|%[A-Za-z_]+)")


def parse_term(text: str):
    """Parse what `Eval vm_compute` prints for nested tuples / lists of integers and booleans."""
    toks = [t for t in _TOK.findall(text) if not t.startswith("%")]
    pos = 0

    def term():
        nonlocal pos
        t = toks[pos]
        if t == "(":
            pos += 1
            items = [term()]
            while toks[pos] == ",":
                pos += 1
                items.append(term())
            assert toks[pos] == ")", toks[pos:pos + 5]
            pos += 1
            return items[0] if len(items) == 1 else tuple(items)
        if t == "[":
            pos += 1
            items = []
            if toks[pos] == "]":
                pos += 1
                return items
            items.append(term())
            while toks[pos] == ";":
                pos += 1
                items.append(term())
            assert toks[pos] == "]", toks[pos:pos + 5]
            pos += 1
            return items
        pos += 1
        if t in ("BigZ", "BigN", "BigQ"):                 # qualified constructor names: BigZ.BigZ.Pos n
            return term()
        if t == "Pos" or t == "Qz":
            return term()
        if t == "Neg":
            return -term()
        if t == "Qq":
            a = term()
            b = term()
            return Fraction(a, b) if b else Fraction(0)
        if t == "true":
            return True
        if t == "false":
            return False
        if t == "nil":
            return []
        v = int(t)
        if pos < len(toks) and toks[pos] == "#":          # bigQ: n # d
            d = int(toks[pos + 1])
            pos += 2
            return Fraction(v, d)
        return v

    def top():
        nonlocal pos
        items = [term()]
        while pos < len(toks) and toks[pos] == ",":
            pos += 1
            items.append(term())
        return items[0] if len(items) == 1 else tuple(items)
    return top()


FX_ONE = 1 << 384


def scalar(x, carrier) -> float:
    """A scalar as printed by Coq: fixed point = integer count of 2^-384; bigQ = int or Fraction."""
    if carrier == "CFX":
        return float(Fraction(x, FX_ONE))
    return float(x)


def eval_loglin(ll, carrier) -> float:
    """[q; k; c_1; x_1; ...]  ->  q + k*log(2 pi) + sum c_i*log(x_i), in floating point."""
    v = scalar(ll[0], carrier) + scalar(ll[1], carrier) * math.log(2 * math.pi)
    for i in range(2, len(ll), 2):
        cv, xv = scalar(ll[i], carrier), scalar(ll[i + 1], carrier)
        if cv != 0:
            v += cv * (math.log(xv) if xv > 0 else float("nan"))
    return v


def parse_result(body: str, carrier="CFX") -> dict:
    failing, checks, nobs, lik = parse_term(body)
    return {
        "failing": failing, "init_med_ok": checks[0], "init_mse_ok": checks[1],
        "sum_num_obs": nobs, "var_scale": scalar(lik[0][0], carrier), "nll": eval_loglin(lik[1], carrier),
        "det_Fi": [scalar(x, carrier) for x in lik[2]], "pe_Fi_pe": [scalar(x, carrier) for x in lik[3]],
        "contributions": [eval_loglin(c, carrier) for c in lik[4:]],
    }


def close(a, b, tol=TOL) -> bool:
    if a != a or b != b:
        return a != a and b != b
    return abs(a - b) <= tol * (1 + abs(b))
