"""Shared by C03 and C08: generator of small solved stationary models and data sets, the driver of
irispie's public Kalman-filter API, the rendering of a case for the executable Coq model
(coq/model/Kalman.v on exact rationals), and the comparison of the two."""
from __future__ import annotations

import contextlib
import io
import math
import re
from fractions import Fraction

import numpy as np

from vf import core
from vf.core import CorrResult, Disagreement, Failure

TOL = 1e-7
COND_MAX = 1e6          # cases whose prediction MSE matrices are worse conditioned are regenerated
VAR_MIN = 1e-8           # ... or that observe a (numerically) deterministic quantity

# ------------------------------------------------------------------------------------------------
# generator
# ------------------------------------------------------------------------------------------------


def _r(rng, lo, hi, nd=2):
    return round(rng.uniform(lo, hi), nd)


def _unique_stable_solution(A1, A2, b) -> bool:
    """Blanchard-Kahn count for x_t = A1 x_{t-1} + A2 x_{t-2} + b e1 e1' E_t x_{t+1} + shocks, with a margin:
    G0 E_t w_{t+1} = G1 w_t for w_t = (x_t, x_{t-1}, x_{t-2}); exactly k generalized eigenvalues outside the unit
    circle (k-1 of them infinite), the others inside the circle of radius 0.9."""
    import scipy.linalg as sla
    k = A1.shape[0]
    E11 = np.zeros((k, k)); E11[0, 0] = b
    Z = np.zeros((k, k)); I = np.eye(k)
    G0 = np.block([[E11, Z, Z], [Z, I, Z], [Z, Z, I]])
    G1 = np.block([[I, -A1, -A2], [I, Z, Z], [Z, I, Z]])
    lam = sla.eigvals(G1, G0)
    mod = np.array([abs(x) if np.isfinite(x) else np.inf for x in lam])
    unstable = mod > 1.15
    stable = mod < 0.9
    return bool(unstable.sum() == k and stable.sum() == 2 * k)


def measurement_cross(model: dict, params: dict) -> np.ndarray:
    """Fc[j, l] = coefficient of measurement variable l in the measurement equation of variable j (parameters fJ_L)."""
    m = len(model["mnames"])
    Fc = np.zeros((m, m))
    for j in range(m):
        for l in range(m):
            f = params.get(f"f{j+1}_{l+1}")
            if f is not None:
                Fc[j, l] = f
    return Fc


def measurement_steady(model: dict, params: dict, steady: dict, change: dict) -> None:
    """Steady levels and steady changes of the measurement variables, in closed form from the parameters: the
    measurement block  y = c + Dl xi + Fc y (+ w)  (equation space: logs of log-variables) is solved for y; the
    transition variables' entries of `steady` / `change` are given, the measurement variables' are written."""
    tnames, tlog, mnames, mlog = model["tnames"], model["tlog"], model["mnames"], model["mlog"]
    m = len(mnames)
    val = np.zeros(m); chg = np.zeros(m)
    for j in range(m):
        val[j] = params[f"c{j+1}"]
        for i, tn in enumerate(tnames):
            d = params.get(f"d{j+1}_{i+1}")
            if d is None:
                continue
            val[j] += d * (math.log(steady[tn]) if tlog[i] else steady[tn])
            chg[j] += d * change.get(tn, 0.0)
    Fc = measurement_cross(model, params)
    if Fc.any():
        A = np.eye(m) - Fc
        val = np.linalg.solve(A, val); chg = np.linalg.solve(A, chg)
    for j, nm in enumerate(mnames):
        if abs(chg[j]) > 1e-15:
            change[nm] = float(chg[j])
        steady[nm] = math.exp(float(val[j])) if mlog[j] else float(val[j])


def gen_model(rng) -> dict:
    """A random stationary model: k transition variables (some in logs, lags up to 2, optional lag
    identities), m measurement variables (some in logs, own measurement shocks for most)."""
    while True:
        k = rng.choice([1, 1, 2, 2, 3, 3, 4])
        names = [f"x{i+1}" for i in range(k)]
        logly = [rng.random() < 0.3 for _ in range(k)]
        ss = [(_r(rng, 0.5, 3.0) if lg else _r(rng, -2.0, 3.0)) for lg in logly]
        A1 = np.zeros((k, k)); A2 = np.zeros((k, k))
        for i in range(k):
            A1[i, i] = _r(rng, -0.5, 0.9)
            for j in range(k):
                if j != i and rng.random() < 0.4:
                    A1[i, j] = _r(rng, -0.5, 0.5)
            if rng.random() < 0.35:
                A2[i, rng.randrange(k)] = _r(rng, -0.4, 0.4)
        comp = np.block([[A1, A2], [np.eye(k), np.zeros((k, k))]])
        rho = max(abs(np.linalg.eigvals(comp)))
        if rho < 0.9:
            break
    # optional lead in the first equation (a genuinely forward-looking model); whether the model has a
    # unique stable solution is found out when it is solved (cases that do not are regenerated)
    lead_b = None
    if rng.random() < 0.3:
        for _ in range(20):
            a11 = _r(rng, 0.05, 0.5)
            b = _r(rng, 0.1, 0.35)
            A1t = A1.copy(); A1t[0, 0] = a11
            if _unique_stable_solution(A1t, A2, b):
                A1, lead_b = A1t, b
                break
    has_shock = [True] * k
    if k >= 2 and rng.random() < 0.25:
        has_shock[rng.randrange(k)] = False           # an equation without a shock
    # optional identity: lag of a variable as a separate variable
    ident = None
    if rng.random() < 0.3:
        j = rng.randrange(k)
        ident = {"name": "lx", "of": j}

    def lv(j, shift):
        nm = names[j] + (f"{{{shift}}}" if shift else "")
        return f"log({nm})" if logly[j] else nm

    def ssv(j):
        return f"log(ss{j+1})" if logly[j] else f"ss{j+1}"

    eqs = []
    params = {}
    for i in range(k):
        params[f"ss{i+1}"] = ss[i]
        terms = []
        for lag, A in ((-1, A1), (-2, A2)):
            for j in range(k):
                if A[i, j] != 0:
                    pn = f"a{abs(lag)}_{i+1}{j+1}"
                    params[pn] = float(A[i, j])
                    terms.append(f"{pn}*({lv(j, lag)} - {ssv(j)})")
        if i == 0 and lead_b is not None:
            params["b_lead"] = lead_b
            terms.append(f"b_lead*({lv(0, '+1')} - {ssv(0)})")
        rhs = " + ".join(terms) if terms else "0"
        if has_shock[i]:
            rhs += f" + e{i+1}"
        eqs.append(f"{lv(i, 0)} - {ssv(i)} = {rhs};")
    tnames = list(names)
    tlog = list(logly)
    steady = {names[i]: ss[i] for i in range(k)}
    change = {}                      # per-period change of the steady path, in equation space (logs of log-variables)
    if ident:
        j = ident["of"]
        tnames.append("lx"); tlog.append(logly[j])
        eqs.append(f"lx = {names[j]}{{-1}};")
        steady["lx"] = ss[j]
    # optional forward-looking variable: a multiple of the expected next value of a non-log variable
    nonlog = [i for i in range(k) if not logly[i]]
    if nonlog and rng.random() < 0.25:
        j = rng.choice(nonlog)
        phi = _r(rng, 0.2, 0.9)
        params["phi"] = phi
        tnames.append("fw"); tlog.append(False)
        eqs.append(f"fw - phi*ss{j+1} = phi*({names[j]}{{+1}} - ss{j+1});")
        steady["fw"] = phi * ss[j]
    shocks = [f"e{i+1}" for i in range(k) if has_shock[i]]
    # optional unit root: a random walk (with drift) in levels or in logs
    trend = None
    if rng.random() < 0.3:
        tr_log = rng.random() < 0.5
        g = rng.choice([0.0, _r(rng, 0.005, 0.05, 3), -_r(rng, 0.005, 0.03, 3)])
        params["g"] = g
        tnames.append("tr"); tlog.append(tr_log)
        steady["tr"] = _r(rng, 0.5, 3.0)
        change["tr"] = g
        eqs.append("log(tr) = log(tr{-1}) + g + etr;" if tr_log else "tr = tr{-1} + g + etr;")
        shocks.append("etr")
        trend = len(tnames) - 1
        if rng.random() < 0.5:
            # a variable that mixes the unit root with a stationary variable: lvl = tr + s*(x1 - ss1) (in logs if tr is)
            sl = _r(rng, 0.05, 1.0)
            params["sl"] = sl
            tnames.append("lvl"); tlog.append(tr_log)
            steady["lvl"] = steady["tr"]; change["lvl"] = g
            eqs.append(f"{'log(lvl)' if tr_log else 'lvl'} = {'log(tr)' if tr_log else 'tr'} + sl*({lv(0, 0)} - {ssv(0)});")
            if rng.random() < 0.6:
                trend = len(tnames) - 1              # ... and it is what is observed
    # measurement block
    m = rng.choice([1, 2, 2, 3]) if len(tnames) > 1 else rng.choice([1, 1, 2])
    mnames = [f"o{j+1}" for j in range(m)]
    mlog = [rng.random() < 0.3 for _ in range(m)]
    mterms, mshocks = [], []
    for j in range(m):
        load = {}
        idx = list(range(len(tnames)))
        rng.shuffle(idx)
        for i in idx[:rng.choice([1, 1, 2])]:
            load[i] = _r(rng, 0.3, 1.5) * rng.choice([1, 1, -1])
        if trend is not None and j == 0 and trend not in load:
            load[trend] = _r(rng, 0.5, 1.5)           # the unit root is observed (through the first equation)
        c = _r(rng, -1.0, 1.0)
        params[f"c{j+1}"] = c
        terms = [f"c{j+1}"]
        for i, d in load.items():
            pn = f"d{j+1}_{i+1}"
            params[pn] = d
            nm = tnames[i]
            terms.append(f"{pn}*{'log(' + nm + ')' if tlog[i] else nm}")
        own = rng.random() < 0.8 or (j > 0 and len(mshocks) < j)      # at most one equation without its own shock
        if own:
            mshocks.append(f"w{j+1}")
            terms.append(f"w{j+1}")
        mterms.append(terms)
    # measurement equations that refer to OTHER measurement variables (o2 = c2 + d*x + f2_1*o1 + w2): the Jacobian F of
    # the measurement block w.r.t. the measurement variables is then neither diagonal nor symmetric.  In about a third
    # of the models with m >= 2; the choices are drawn from a stream of their own (derived from the model text), so that
    # the other dimensions of the generated cases are what they were before this dimension existed.
    import random as _random, zlib as _zlib
    crng = _random.Random(_zlib.crc32(repr((sorted(params.items()), mterms)).encode()))
    if m >= 2 and crng.random() < 0.4:
        for _ in range(20):
            cross = {}
            for j in range(m):
                if crng.random() < 0.6:
                    l = crng.choice([x for x in range(m) if x != j])
                    cross[(j, l)] = round(crng.uniform(0.2, 0.9), 2) * crng.choice([1, 1, -1])
            if not cross:
                j = crng.randrange(1, m); cross[(j, crng.randrange(j))] = round(crng.uniform(0.2, 0.9), 2)
            Fc = np.zeros((m, m))
            for (j, l), f in cross.items():
                Fc[j, l] = f
            if abs(np.linalg.det(np.eye(m) - Fc)) > 0.3 and not np.allclose(Fc, Fc.T):
                break
        else:
            cross = {}
        for (j, l), f in sorted(cross.items()):
            pn = f"f{j+1}_{l+1}"
            params[pn] = f
            mterms[j].insert(-1 if mterms[j][-1].startswith("w") else len(mterms[j]),
                             f"{pn}*{'log(' + mnames[l] + ')' if mlog[l] else mnames[l]}")
    meqs = []
    for j in range(m):
        lhs = f"log({mnames[j]})" if mlog[j] else mnames[j]
        meqs.append(f"{lhs} = {' + '.join(mterms[j])};")
    measurement_steady({"tnames": tnames, "tlog": tlog, "mnames": mnames, "mlog": mlog}, params, steady, change)
    logs = [n for n, lg in zip(tnames, tlog) if lg] + [n for n, lg in zip(mnames, mlog) if lg]
    src = "!transition-variables\n  " + ", ".join(tnames) + "\n"
    if shocks:
        src += "!transition-shocks\n  " + ", ".join(shocks) + "\n"
    src += "!measurement-variables\n  " + ", ".join(mnames) + "\n"
    if mshocks:
        src += "!measurement-shocks\n  " + ", ".join(mshocks) + "\n"
    src += "!parameters\n  " + ", ".join(params) + "\n"
    if logs:
        src += "!log-variables\n  " + ", ".join(logs) + "\n"
    src += "!transition-equations\n  " + "\n  ".join(eqs) + "\n"
    src += "!measurement-equations\n  " + "\n  ".join(meqs) + "\n"
    stds = {f"std_{s}": _r(rng, 0.2, 1.5) for s in shocks}
    stds.update({f"std_{s}": _r(rng, 0.1, 1.0) for s in mshocks})
    return {"source": src, "params": params, "steady": steady, "change": change, "stds": stds,
            "tnames": tnames, "tlog": tlog, "mnames": mnames, "mlog": mlog,
            "shocks": shocks, "mshocks": mshocks, "max_lag": 2 if A2.any() else 1,
            "num_unit_roots": 1 if trend is not None else 0,
            "lead_eqs": [names[0]] if lead_b is not None else [],
            "forward_looking": lead_b is not None or "fw" in tnames}


def gen_case(rng, max_periods=8) -> dict:
    model = gen_model(rng)
    nper = rng.randint(1, max_periods)
    m = len(model["mnames"])
    # observations: deviations from the steady path in equation space (of logs for log-variables);
    # the levels are formed from the model's steady path when the input databox is built
    data = []
    for j, nm in enumerate(model["mnames"]):
        data.append([round((0.3 if model["mlog"][j] else 1.0) * rng.gauss(0, 1.0), 3) for _ in range(nper)])
    # missing-data mask
    mask = [[rng.random() < 0.75 for _ in range(nper)] for _ in range(m)]
    q = rng.random()
    if q < 0.15:                              # a fully missing period
        t = rng.randrange(nper)
        for j in range(m):
            mask[j][t] = False
    elif q < 0.3:                             # leading gap
        g = rng.randint(1, max(1, nper // 2))
        for j in range(m):
            for t in range(g):
                mask[j][t] = False
    elif q < 0.45:                            # trailing gap
        g = rng.randint(1, max(1, nper // 2))
        for j in range(m):
            for t in range(nper - g, nper):
                mask[j][t] = False
    elif q < 0.5:                             # nothing observed at all
        mask = [[False] * nper for _ in range(m)]
    elif q < 0.6:                             # everything observed
        mask = [[True] * nper for _ in range(m)]
    if model["num_unit_roots"] and not any(mask[0]):
        # the unit root is observed through the first measurement variable: without any observation of it the
        # unknown initial condition is not identified and level / deviation results are arbitrary
        mask[0][rng.randrange(nper)] = True
    # time-varying stds supplied as data
    tv_stds = {}
    if rng.random() < 0.5:
        for nm in model["stds"]:
            if rng.random() < 0.6:
                tv_stds[nm] = [(_r(rng, 0.1, 1.5) if rng.random() < 0.85 else None) for _ in range(nper)]
    # shock means supplied as data
    shock_means = {}
    if rng.random() < 0.3:
        for nm in model["shocks"] + model["mshocks"]:
            if rng.random() < 0.6:
                shock_means[nm] = [(_r(rng, -0.5, 0.5) if rng.random() < 0.8 else None) for _ in range(nper)]
    # anticipated shocks supplied as data (ant_<shock>), mostly dated after the first period; they matter
    # before they hit only in forward-looking models
    ant = {}
    if model["shocks"] and rng.random() < (0.6 if model["forward_looking"] else 0.15):
        for nm in model["shocks"]:
            if rng.random() < 0.6:
                col = [0.0] * nper
                for _ in range(rng.choice([1, 1, 2])):
                    t = rng.randrange(nper) if nper < 3 or rng.random() < 0.2 else rng.randrange(1, nper)
                    col[t] = _r(rng, -1.0, 1.0)
                if any(col):
                    ant[nm] = col
    return {
        "model": model, "nper": nper, "start": [rng.choice([1, 4, 12]), rng.randint(1990, 2030), 1],
        "data": data, "mask": mask, "ant": ant,
        "deviation": rng.random() < 0.4,
        "rescale_variance": rng.random() < 0.4,
        "tv_stds": tv_stds, "shock_means": shock_means,
        # observations outside the filter span (must be ignored: the data are clipped to the span)
        "pad": [rng.choice([0, 0, 1, 2]), rng.choice([0, 0, 1, 3])],
        "pad_value": round(rng.uniform(0.5, 5.0), 3),
        # public calls made on the same model object before the filter run that is compared (the result must not
        # depend on them): "simulate" = a simulation with anticipated shocks, "filter" = a filter run in the other mode
        "pre_calls": rng.choice([[], [], ["simulate"], ["simulate", "filter"], ["filter"]]),
    }


# ------------------------------------------------------------------------------------------------
# implementation side: the public API
# ------------------------------------------------------------------------------------------------

def build_model(model: dict):
    import irispie as ir
    m = ir.Simultaneous.from_string(model["source"])
    m.assign(**model["params"])
    m.assign(**model["stds"])
    change = model.get("change", {})
    if change:
        # steady path with growth: (level, change) pairs; the change of a log-variable is a ratio
        lg = dict(zip(model["tnames"] + model["mnames"], model["tlog"] + model["mlog"]))
        m.assign(**{nm: ((v, math.exp(change[nm]) if lg[nm] else change[nm]) if nm in change else v)
                    for nm, v in model["steady"].items()})
        if not m.check_steady(when_fails="silent"):
            raise RuntimeError("generated steady state does not satisfy the model (harness bug)")
    else:
        m.assign(**model["steady"])
        with contextlib.redirect_stdout(io.StringIO()):
            m.steady()
    m.solve()
    return m


def _period(start):
    import irispie as ir
    f, y, s = start
    return {1: ir.yy, 4: ir.qq, 12: ir.mm}[f](y, s) if f != 1 else ir.yy(y)


def input_databox(m, case: dict):
    """The input databox of the case (levels, or deviations from steady state when deviation=True)."""
    import irispie as ir
    model = case["model"]
    start = _period(case["start"])
    span = start >> (start + case["nper"] - 1)
    dev = case["deviation"]
    db = ir.Databox.steady(m, span, deviation=dev)
    steady_db = db if not dev else ir.Databox.steady(m, span, deviation=False)
    pb, pa = case.get("pad", [0, 0])
    junk = float(case.get("pad_value", 1.0))
    wide = (start - pb) >> (start + case["nper"] - 1 + pa)

    def padded(vals):
        return np.array([junk] * pb + list(vals) + [junk] * pa, dtype=float)
    for j, nm in enumerate(model["mnames"]):
        st = _arr(steady_db[nm], span)
        vals = []
        for t in range(case["nper"]):
            if not case["mask"][j][t]:
                vals.append(np.nan)
                continue
            d = case["data"][j][t]              # deviation from the steady path, in equation space
            if model["mlog"][j]:
                vals.append(math.exp(d) if dev else float(st[t]) * math.exp(d))
            else:
                vals.append(d if dev else float(st[t]) + d)
        db[nm] = ir.Series(periods=wide, values=padded(vals))
    for nm, col in case["tv_stds"].items():
        db[nm] = ir.Series(periods=wide, values=padded([np.nan if v is None else v for v in col]))
    for nm, col in case["shock_means"].items():
        db[nm] = ir.Series(periods=wide, values=padded([np.nan if v is None else v for v in col]))
    for nm, col in case.get("ant", {}).items():
        db["ant_" + nm] = ir.Series(periods=span, values=np.array(col, dtype=float))
    return db, span


def kf_options(case: dict) -> dict:
    return {
        "deviation": case["deviation"], "rescale_variance": case["rescale_variance"],
        "stds_from_data": bool(case["tv_stds"]),
        "shocks_from_data": bool(case["shock_means"]) or bool(case.get("ant")),
    }


def _arr(series, span):
    return np.asarray(series.get_data(span), dtype=float).reshape(-1)


def run_impl(case: dict) -> dict:
    """Run Simultaneous.kalman_filter on the case; returns outputs as arrays plus the solution
    matrices and the initial condition the filter used (recorded by wrapping initialize)."""
    import irispie as ir
    import irispie.fords.kalmans as K
    model = case["model"]
    m = build_model(model)
    db, span = input_databox(m, case)
    rec = {}
    orig = K._initializers.initialize

    def wrap(*a, **k):
        r = orig(*a, **k)
        rec["init"] = r
        return r
    pre_calls(m, case, db, span)
    K._initializers.initialize = wrap
    try:
        out, info = m.kalman_filter(db, span, return_info=True, **kf_options(case))
    finally:
        K._initializers.initialize = orig
    sol = m._gets_solution(deviation=False)
    vec = m._get_dynamic_solution_vectors()
    curr_qids, curr_idx = vec.get_curr_transition_indexes()
    qid_to_name = m.create_qid_to_name()
    res = {
        "span": span, "model_obj": m, "db": db, "out": out, "info": info,
        "Ta": np.array(sol.Ta), "Pa": np.array(sol.Pa), "Ka": np.array(sol.Ka).reshape(-1),
        "Za": np.array(sol.Za), "H": np.array(sol.H), "D": np.array(sol.D).reshape(-1), "Ua": np.array(sol.Ua),
        "curr_idx": list(curr_idx), "curr_names": [qid_to_name[q] for q in curr_qids],
        "y_names": [qid_to_name[t.qid] for t in vec.measurement_variables],
        "u_names": [qid_to_name[t.qid] for t in vec.transition_shocks],
        "w_names": [qid_to_name[t.qid] for t in vec.measurement_shocks],
        "num_unit_roots": int(sol.num_unit_roots),
        "init_med": np.array(rec["init"][0]).reshape(-1), "init_mse": np.array(rec["init"][1]),
        "unknown_init": rec["init"][2],
        "T_square": np.array(sol.T), "xi_tokens": [(qid_to_name[t.qid], int(t.shift)) for t in vec.transition_variables],
    }
    res["v_impact"] = anticipated_impact(case, res)
    return res


def pre_calls(m, case: dict, db, span) -> None:
    """The public calls of case["pre_calls"], made on the model object before the run that is checked."""
    import irispie as ir
    model = case["model"]
    for what in case.get("pre_calls", []):
        if what == "simulate":
            lag = model["max_lag"]
            pre_db = ir.Databox.steady(m, (span.start - lag) >> span.end, deviation=case["deviation"])
            vals = np.zeros(case["nper"]); vals[-1] = 0.7; vals[case["nper"] // 2] = -0.4
            for nm in model["shocks"]:
                pre_db["ant_" + nm] = ir.Series(periods=span, values=vals.copy())
            m.simulate(pre_db, span, deviation=case["deviation"])
        elif what == "filter":
            other = dict(case); other["deviation"] = not case["deviation"]
            db2, _ = input_databox(m, other)
            m.kalman_filter(db2, span, return_info=True, **kf_options(other))


def anticipated_impact(case: dict, impl: dict):
    """Per period, the impact of the anticipated shocks in the data on the filter's state vector alpha,
    obtained WITHOUT the filter's own code path: a fresh model is simulated (public simulate, deviation mode,
    zero initial condition, anticipated shocks only), the period-t impact on the square state vector xi is
    xi_t - T xi_{t-1}, and alpha = Ua^-1 xi.  None when the data contain no anticipated shock."""
    import irispie as ir
    ant = case.get("ant", {})
    if not ant:
        return None
    model = case["model"]
    m2 = build_model(model)
    span = impl["span"]
    T = case["nper"]
    maxlag = max([-sh for _, sh in impl["xi_tokens"]] + [0]) + 1
    pre_span = (span.start - maxlag) >> span.end
    pre_db = ir.Databox.steady(m2, pre_span, deviation=True)
    for nm, col in ant.items():
        pre_db["ant_" + nm] = ir.Series(periods=span, values=np.array(col, dtype=float))
    sim = m2.simulate(pre_db, span, deviation=True)
    if isinstance(sim, tuple):
        sim = sim[0]
    lg = dict(zip(model["tnames"], model["tlog"]))
    wide = (span.start - maxlag) >> span.end
    paths = {}
    for nm in model["tnames"]:
        v = _arr(sim[nm], wide)
        v = np.where(np.isnan(v), 1.0 if lg[nm] else 0.0, v)          # before the simulation span: steady deviation
        paths[nm] = np.log(v) if lg[nm] else v
    def xi_at(t):                                                     # t = -1 .. T-1 relative to span.start
        return np.array([paths[nm][maxlag + t + sh] for nm, sh in impl["xi_tokens"]], dtype=float)
    out = []
    for t in range(T):
        v_sq = xi_at(t) - impl["T_square"] @ xi_at(t - 1)
        out.append(np.linalg.solve(impl["Ua"], v_sq))
    return out


def log_name(case, nm):
    model = case["model"]
    lg = dict(zip(model["tnames"] + model["mnames"], model["tlog"] + model["mlog"]))
    return f"log({nm})" if lg.get(nm, False) else nm


def cond_ok(impl) -> bool:
    info = impl.get("info")
    if info is not None and not (np.isfinite(float(info["neg_log_likelihood"])) and float(info["var_scale"]) > 1e-10):
        return False          # e.g. rescale_variance with a perfect fit (var_scale = 0): nothing to compare
    for F in impl["out"]["predict_mse_obs"][0]:
        F = np.asarray(F)
        if F.size and (not np.all(np.isfinite(F)) or np.linalg.cond(F) > COND_MAX or np.min(np.diag(F)) < VAR_MIN):
            return False
    return True


# ------------------------------------------------------------------------------------------------
# inputs of the model: what the filter is *supposed* to read from the databox
# ------------------------------------------------------------------------------------------------

def period_inputs(case: dict, impl: dict) -> list[dict]:
    """Per period: mask, y (logs of log-variables; deviations when deviation=True), stds, shock means,
    anticipated shock values.  Computed from the case and the input databox the harness built
    (impl["db"]), not from the implementation's intermediate arrays."""
    model = case["model"]
    mlog = dict(zip(model["mnames"], model["mlog"]))
    dev = case["deviation"]
    out = []
    cols = {nm: _arr(impl["db"][nm], impl["span"]) for nm in impl["y_names"]}
    for t in range(case["nper"]):
        mask, y = [], []
        for nm in impl["y_names"]:
            j = model["mnames"].index(nm)
            ob = case["mask"][j][t]
            mask.append(bool(ob))
            if not ob:
                y.append(0.0)
                continue
            v = float(cols[nm][t])
            y.append(float(np.log(v)) if mlog[nm] else v)

        def std_of(sh):
            col = case["tv_stds"].get(f"std_{sh}")
            if col is not None and col[t] is not None:
                return float(col[t])
            return float(model["stds"][f"std_{sh}"])

        def mean_of(sh):
            col = case["shock_means"].get(sh)
            if col is not None and col[t] is not None:
                return float(col[t])
            return 0.0
        out.append({
            "mask": mask, "y": y,
            "std_u": [std_of(s) for s in impl["u_names"]], "std_w": [std_of(s) for s in impl["w_names"]],
            "u0": [mean_of(s) for s in impl["u_names"]], "w0": [mean_of(s) for s in impl["w_names"]],
            "ant": [float(case.get("ant", {}).get(s, [0.0] * case["nper"])[t]) for s in impl["u_names"]],
        })
    return out


# ------------------------------------------------------------------------------------------------
# expected values, in the order the model lists them
# ------------------------------------------------------------------------------------------------

def expected_outputs(case: dict, impl: dict):
    """(values, labels): every number the implementation returned that the model defines, flattened
    period by period in the order of Kalman.v's [pout]; stds are squared (exactly) so that they can be
    compared with the model's variances.  NaN placement is checked here, against the mask."""
    out, span = impl["out"], impl["span"]
    pin = period_inputs(case, impl)
    vals, labels, problems = [], [], []

    def get(box, nm):
        return _arr(out[box][log_name(case, nm)], span)

    cols = {}
    for box in ("predict_med", "update_med", "smooth_med", "predict_std", "update_std", "smooth_std", "predict_err"):
        for nm in (impl["curr_names"] + impl["u_names"] + impl["w_names"] + impl["y_names"]):
            ln = log_name(case, nm)
            if ln in out[box].keys():
                cols[(box, nm)] = _arr(out[box][ln], span)
    nper = case["nper"]
    for t in range(nper):
        mask = pin[t]["mask"]
        obs = [nm for nm, ob in zip(impl["y_names"], mask) if ob]

        def put(box, nm, square=False, tag=None):
            v = float(cols[(box, nm)][t])
            labels.append(f"{tag or box}:{nm}@{t}")
            if v != v or math.isinf(v):
                problems.append(f"{box}:{nm}@{t} is {v}")
                vals.append(None)
            else:
                vals.append(Fraction(v) ** 2 if square else Fraction(v))
        for nm in impl["curr_names"]:
            put("predict_med", nm)
        for nm in obs:
            put("predict_med", nm)
        for nm, ob in zip(impl["y_names"], mask):
            if not ob and not np.isnan(cols[("predict_med", nm)][t]):
                problems.append(f"predict_med:{nm}@{t} should be NaN (not observed)")
        for nm in impl["curr_names"]:
            put("predict_std", nm, square=True)
        F = np.asarray(out["predict_mse_obs"][0][t], dtype=float)
        if F.shape != (len(obs), len(obs)):
            problems.append(f"predict_mse_obs@{t} has shape {F.shape}, {len(obs)} observed")
        for i, v in enumerate(F.reshape(-1)):
            labels.append(f"predict_mse_obs[{i}]@{t}")
            vals.append(Fraction(float(v)) if np.isfinite(v) else None)
        for nm in impl["curr_names"]:
            put("update_med", nm)
        for nm in impl["u_names"]:
            put("update_med", nm)
        for nm in impl["w_names"]:
            put("update_med", nm)
        for nm in impl["curr_names"]:
            put("update_std", nm, square=True)
        for nm in obs:
            put("predict_err", nm)
        for nm, ob in zip(impl["y_names"], mask):
            if not ob and ("predict_err", nm) in cols and not np.isnan(cols[("predict_err", nm)][t]):
                problems.append(f"predict_err:{nm}@{t} should be NaN (not observed)")
        for nm in impl["curr_names"]:
            put("smooth_med", nm)
        for nm in impl["u_names"]:
            put("smooth_med", nm)
        for nm in impl["w_names"]:
            put("smooth_med", nm)
        for nm in impl["curr_names"]:
            put("smooth_std", nm, square=True)
    return vals, labels, problems


# ------------------------------------------------------------------------------------------------
# Coq rendering
# ------------------------------------------------------------------------------------------------

def q_lit(x) -> str:
    """Exact bigQ term of a double / dyadic Fraction: D m e = m * 2^e."""
    fr = Fraction(x)
    den = fr.denominator
    e = den.bit_length() - 1
    if den != 1 << e:
        raise ValueError("not a dyadic rational")
    m = fr.numerator
    ms = f"({m})" if m < 0 else f"{m}"
    return f"(D {ms} {'(-' + str(e) + ')' if e else '0'})"


def q_mat(A) -> str:
    A = np.atleast_2d(np.asarray(A, dtype=float))
    if A.size == 0:
        return "[" + "; ".join("[]" for _ in range(A.shape[0])) + "]"
    return "[" + "; ".join("[" + "; ".join(q_lit(float(v)) for v in row) + "]" for row in A) + "]"


def q_col(v) -> str:
    v = np.asarray(v, dtype=float).reshape(-1)
    return "[" + "; ".join("[" + q_lit(float(x)) + "]" for x in v) + "]"


def q_list(v) -> str:
    return "[" + "; ".join(q_lit(float(x)) for x in v) + "]"


def coq_bool(b) -> str:
    return "true" if b else "false"


def header(carrier="CFX") -> str:
    return f"""From Coq Require Import List ZArith Bool.
From Verif Require Import lib.MatOps model.Kalman lib.KalmanCase.
Import ListNotations.
Open Scope Z_scope.
Notation C := {carrier}.
Notation QMat := (ListMat (cs_ops C)).
Notation D := (KalmanCase.D C).
Set Printing Width 1000000.
Set Printing Depth 1000000.
"""


def coq_case(idx: int, case: dict, impl: dict, expected) -> str:
    n = impl["Ta"].shape[0]
    nu = impl["Pa"].shape[1]
    nw = impl["H"].shape[1]
    nyf = impl["Za"].shape[0]
    nxi = impl["Ua"].shape[0]
    pin = period_inputs(case, impl)
    sol = (f"(@mkSolution QMat {n} {nw} {nu} {nyf} {nxi} {q_mat(impl['Ta'])} {q_mat(impl['Pa']) if nu else q_mat(np.zeros((n,0)))} "
           f"{q_col(impl['Ka'])} {q_mat(impl['Za'])} {q_mat(impl['H']) if nw else q_mat(np.zeros((nyf,0)))} {q_col(impl['D'])} "
           f"{q_mat(impl['Ua'])} [{'; '.join(str(i) + '%nat' for i in impl['curr_idx'])}])")
    pds = []
    vimp = impl.get("v_impact")
    for t, p in enumerate(pin):
        v = "None" if vimp is None else f"(Some {q_col(vimp[t])})"
        pds.append(f"(@mkPdata QMat {n} {nw} {nu} {nyf} [{'; '.join(coq_bool(b) for b in p['mask'])}] {q_col(p['y'])} "
                   f"{q_list(p['std_u'])} {q_list(p['std_w'])} {q_col(p['u0'])} {q_col(p['w0'])} {v})")
    nur = int(impl["num_unit_roots"])
    ns = n - nur
    # fixed_unknown: the unknown part of the initial state is its unit-root block, loading eye(n, nur)
    unknown = f"(Some {q_mat(np.eye(n, nur))})" if nur else "None"
    Ka_s = np.zeros(ns) if case["deviation"] else impl["Ka"][nur:]
    exp = "[" + "; ".join("None" if v is None else f"Some {q_lit(v)}" for v in expected) + "]"
    return (f"Definition sol_{idx} := {sol}.\n"
            f"Definition data_{idx} := [{'; '.join(pds)}].\n"
            f"Definition exp_{idx} : list (option (car (cs_ops C))) := {exp}.\n"
            f"Definition res_{idx} := run_case C {n} {nw} {nu} {nyf} {nxi} {nur} {ns} {coq_bool(case['deviation'])} "
            f"{coq_bool(case['rescale_variance'])} sol_{idx} {q_col(impl['init_med'])} {q_mat(impl['init_mse'])} {unknown} "
            f"{q_mat(impl['Ta'][nur:, nur:]) if ns else '[]'} {q_col(Ka_s)} "
            f"{q_mat(impl['Pa'][nur:, :]) if ns and nu else q_mat(np.zeros((ns, 0)))} "
            f"{q_col(impl['init_med'][nur:])} {q_mat(impl['init_mse'][nur:, nur:]) if ns else '[]'} "
            f"{q_list([case['model']['stds']['std_' + s] for s in impl['u_names']])} data_{idx} exp_{idx}.\n"
            f"Eval vm_compute in res_{idx}.\n")


# ------------------------------------------------------------------------------------------------
# parsing the model's answer
# ------------------------------------------------------------------------------------------------

_TOK = re.compile(r"\s*(\(|\)|\[|\]|;|,|#|-?\d+|[A-Za-z_][A-Za-z_0-9]*|%[A-Za-z_]+)")


def parse_term(text: str):
    """Parse what `Eval vm_compute` prints for nested tuples / lists of integers and booleans."""
    toks = [t for t in _TOK.findall(text) if not t.startswith("%")]
    pos = 0

    def term():
        nonlocal pos
        t = toks[pos]
        if t == "(":
            pos += 1
            items = [term()]
            while toks[pos] == ",":
                pos += 1
                items.append(term())
            assert toks[pos] == ")", toks[pos:pos + 5]
            pos += 1
            return items[0] if len(items) == 1 else tuple(items)
        if t == "[":
            pos += 1
            items = []
            if toks[pos] == "]":
                pos += 1
                return items
            items.append(term())
            while toks[pos] == ";":
                pos += 1
                items.append(term())
            assert toks[pos] == "]", toks[pos:pos + 5]
            pos += 1
            return items
        pos += 1
        if t in ("BigZ", "BigN", "BigQ"):                 # qualified constructor names: BigZ.BigZ.Pos n
            return term()
        if t == "Pos" or t == "Qz":
            return term()
        if t == "Neg":
            return -term()
        if t == "Qq":
            a = term()
            b = term()
            return Fraction(a, b) if b else Fraction(0)
        if t == "true":
            return True
        if t == "false":
            return False
        if t == "nil":
            return []
        v = int(t)
        if pos < len(toks) and toks[pos] == "#":          # bigQ: n # d
            d = int(toks[pos + 1])
            pos += 2
            return Fraction(v, d)
        return v

    def top():
        nonlocal pos
        items = [term()]
        while pos < len(toks) and toks[pos] == ",":
            pos += 1
            items.append(term())
        return items[0] if len(items) == 1 else tuple(items)
    return top()


FX_ONE = 1 << 384


def scalar(x, carrier) -> float:
    """A scalar as printed by Coq: fixed point = integer count of 2^-384; bigQ = int or Fraction."""
    if len(x) == 1:
        return float(Fraction(x[0], FX_ONE))
    return float(Fraction(x[0], x[1])) if x[1] else float("nan")


def eval_loglin(ll, carrier) -> float:
    """[q; k; c_1; x_1; ...]  ->  q + k*log(2 pi) + sum c_i*log(x_i), in floating point."""
    v = scalar(ll[0], carrier) + scalar(ll[1], carrier) * math.log(2 * math.pi)
    for i in range(2, len(ll), 2):
        cv, xv = scalar(ll[i], carrier), scalar(ll[i + 1], carrier)
        if cv != 0:
            v += cv * (math.log(xv) if xv > 0 else float("nan"))
    return v


def parse_result(body: str, carrier="CFX") -> dict:
    failing, checks, nobs, lik = parse_term(body)
    return {
        "failing": failing, "init_med_ok": checks[0], "init_mse_ok": checks[1],
        "sum_num_obs": nobs, "var_scale": scalar(lik[0][0], carrier), "nll": eval_loglin(lik[1], carrier),
        "det_Fi": [scalar(x, carrier) for x in lik[2]], "pe_Fi_pe": [scalar(x, carrier) for x in lik[3]],
        "contributions": [eval_loglin(c, carrier) for c in lik[4:]],
    }


def close(a, b, tol=TOL) -> bool:
    if a != a or b != b:
        return a != a and b != b
    return abs(a - b) <= tol * (1 + abs(b))


# ------------------------------------------------------------------------------------------------
# the correspondence run shared by C03 and C08
# ------------------------------------------------------------------------------------------------

def case_summary(case: dict) -> dict:
    """The case without bulky arrays (for disagreement reports)."""
    return {k: v for k, v in case.items()}


def degenerate_case(case: dict) -> bool:
    """True when the stacked covariance of the observed data, rebuilt from the model's public solution
    with dense linear algebra, is singular or worse conditioned than COND_MAX (the joint density of
    the data does not exist / is outside the tolerance regime)."""
    try:
        m = build_model(case["model"])
        sol = public_solution(m)
        sol["db"], sol["span"] = input_databox(m, case)
        sol["v_impact"] = anticipated_impact(case, sol)
        ref = batch_reference(case, sol, period_inputs(case, sol))
    except np.linalg.LinAlgError:
        return True
    except Exception:  # noqa
        return False
    return bool(max([ref["cond"]] + ref["conds"]) > COND_MAX or not np.isfinite(ref["nll"]))


def exhaustive_mask_cases(rng) -> list[dict]:
    """Thorough tier: one model with two measurement variables (each with its own measurement shock),
    every missing-data mask on spans of 1..4 periods (4 + 16 + 64 + 256 cases)."""
    import itertools
    while True:
        base = gen_case(rng, max_periods=4)
        mdl = base["model"]
        if len(mdl["mnames"]) == 2 and len(mdl["mshocks"]) == 2 and len(mdl["tnames"]) <= 3:
            break
    base["nper"] = 4
    base["data"] = [[round(mdl["steady"][nm] * math.exp(0.2 * rng.gauss(0, 1)), 4) if mdl["mlog"][j]
                     else round(mdl["steady"][nm] + rng.gauss(0, 1), 4) for _ in range(4)]
                    for j, nm in enumerate(mdl["mnames"])]
    base["tv_stds"] = {}; base["shock_means"] = {}; base["pad"] = [0, 0]
    cases = []
    for T in (1, 2, 3, 4):
        for bits in itertools.product([False, True], repeat=2 * T):
            c = dict(base)
            c["nper"] = T
            c["data"] = [col[:T] for col in base["data"]]
            c["mask"] = [list(bits[:T]), list(bits[T:])]
            c["deviation"] = bool(sum(bits) % 2)
            c["rescale_variance"] = bool((sum(bits) // 2) % 2)
            cases.append(c)
    return cases


def collect_cases(ctx, n: int, max_periods: int, notes: dict) -> list:
    """Generate cases and run the implementation on them; keep the well-conditioned stationary ones."""
    out = []
    if ctx.thorough and n >= 1000:      # (VERIF_KF_CASES below 1000 skips it: development runs)
        for case in exhaustive_mask_cases(ctx.rng):
            try:
                impl = run_impl(case)
            except Exception as e:  # noqa
                notes.setdefault("impl_raised", []).append({"case": case, "error": f"{type(e).__name__}: {e}"[:300]})
                continue
            if cond_ok(impl) and not impl["num_unit_roots"]:
                out.append((case, impl))
        notes["exhaustive_mask_cases"] = len(out)
        n += len(out)
    tries = 0
    while len(out) < n and tries < 6 * n + 20:
        tries += 1
        case = gen_case(ctx.rng, max_periods=max_periods)
        try:
            impl = run_impl(case)
        except Exception as e:  # noqa
            if isinstance(e, np.linalg.LinAlgError) and degenerate_case(case):
                notes["skipped_singular"] = notes.get("skipped_singular", 0) + 1     # F really is singular
                continue
            notes.setdefault("impl_raised", []).append({"case": case, "error": f"{type(e).__name__}: {e}"[:300]})
            continue
        if impl["num_unit_roots"] != case["model"]["num_unit_roots"]:
            notes.setdefault("impl_raised", []).append(
                {"case": case, "error": f"the solution reports {impl['num_unit_roots']} unit roots, the model has "
                                        f"{case['model']['num_unit_roots']}"})
            continue
        if not cond_ok(impl):
            notes["skipped_ill_conditioned"] = notes.get("skipped_ill_conditioned", 0) + 1
            continue
        out.append((case, impl))
    return out


def likelihood_disagreements(case, impl, res, contributions=True) -> list[str]:
    """Compare the likelihood pieces (evaluated from the model's symbolic log form) with info[...]."""
    info, span = impl["info"], impl["span"]
    bad = []
    if not close(res["nll"], float(info["neg_log_likelihood"])):
        bad.append(f"neg_log_likelihood model={res['nll']!r} impl={float(info['neg_log_likelihood'])!r}")
    if not close(res["var_scale"], float(info["var_scale"])):
        bad.append(f"var_scale model={res['var_scale']!r} impl={float(info['var_scale'])!r}")
    contrib = _arr(info["neg_log_likelihood_contributions"], span) if contributions else []
    if not contributions:
        pass
    elif len(contrib) != len(res["contributions"]):
        bad.append(f"contributions: {len(contrib)} values, model has {len(res['contributions'])}")
    else:
        for t, (a, b) in enumerate(zip(res["contributions"], contrib)):
            if not close(a, float(b)):
                bad.append(f"neg_log_likelihood_contributions@{t} model={a!r} impl={float(b)!r}")
    ldf = _arr(info["log_det_F"], span)
    for t, (d, b) in enumerate(zip(res["det_Fi"], ldf)):
        a = -math.log(d) if d > 0 else float("nan")
        if not close(a, float(b)):
            bad.append(f"log_det_F@{t} model={a!r} impl={float(b)!r}")
    return bad


def passthrough_problems(case, impl) -> list[str]:
    """Outputs that are plain copies of inputs (checked in Python, they involve no arithmetic):
    measurement variables in update/smooth = the data; shock moments in the prediction step = the inputs;
    exp() of the log-variables."""
    out, span = impl["out"], impl["span"]
    pin = period_inputs(case, impl)
    model = case["model"]
    bad = []
    # layout of the initial condition: unit-root block first, zero mean and MSE there, unknown part = that block
    nur = int(impl["num_unit_roots"]); n = impl["Ta"].shape[0]
    if nur:
        if np.any(impl["init_med"][:nur] != 0) or np.any(impl["init_mse"][:nur, :] != 0) or np.any(impl["init_mse"][:, :nur] != 0):
            bad.append("the initial mean / MSE of the unit-root block is not zero (diffuse_method=fixed_unknown)")
        ui = impl["unknown_init"]
        if ui is None or np.asarray(ui).shape != (n, nur) or np.any(np.asarray(ui) != np.eye(n, nur)):
            bad.append("the loading of the unknown initial condition is not eye(num_alpha, num_unit_roots)")
    elif impl["unknown_init"] is not None:
        bad.append("an unknown initial condition is reported for a model without unit roots")
    for sh, col in case.get("ant", {}).items():
        for box in ("predict_med", "update_med", "smooth_med"):
            got = _arr(out[box]["ant_" + sh], span)
            if not np.allclose(got, np.array(col, dtype=float), rtol=0, atol=1e-12):
                bad.append(f"{box}:ant_{sh} is not the anticipated shock supplied in the data")
    for box in ("update_med", "smooth_med"):
        for j, nm in enumerate(impl["y_names"]):
            col = _arr(out[box][log_name(case, nm)], span)
            for t in range(case["nper"]):
                ob = pin[t]["mask"][j]
                if ob and not close(float(col[t]), pin[t]["y"][j], 1e-12):
                    bad.append(f"{box}:{nm}@{t} = {col[t]!r}, data {pin[t]['y'][j]!r}")
                if not ob and not np.isnan(col[t]):
                    bad.append(f"{box}:{nm}@{t} = {col[t]!r} but nothing was observed")
    for k, nm in enumerate(impl["u_names"]):
        med = _arr(out["predict_med"][nm], span)
        std = _arr(out["predict_std"][nm], span)
        for t in range(case["nper"]):
            if not close(float(med[t]), pin[t]["u0"][k], 1e-12):
                bad.append(f"predict_med:{nm}@{t} = {med[t]!r}, input mean {pin[t]['u0'][k]!r}")
            want = pin[t]["std_u"][k] * math.sqrt(float(impl["info"]["var_scale"]))
            if not close(float(std[t]), want, 1e-9):
                bad.append(f"predict_std:{nm}@{t} = {std[t]!r}, input std (rescaled) {want!r}")
    for k, nm in enumerate(impl["w_names"]):
        med = _arr(out["predict_med"][nm], span)
        for t in range(case["nper"]):
            if not close(float(med[t]), pin[t]["w0"][k], 1e-12):
                bad.append(f"predict_med:{nm}@{t} = {med[t]!r}, input mean {pin[t]['w0'][k]!r}")
    # exp of log variables
    for nm, lg in zip(model["tnames"] + model["mnames"], model["tlog"] + model["mlog"]):
        if not lg:
            continue
        for box in ("predict_med", "update_med", "smooth_med"):
            if nm in out[box].keys() and f"log({nm})" in out[box].keys():
                a = _arr(out[box][nm], span)
                b = np.exp(_arr(out[box][f"log({nm})"], span))
                ok = np.isclose(a, b, rtol=1e-12, atol=0, equal_nan=True)
                if not ok.all():
                    bad.append(f"{box}:{nm} is not exp(log({nm}))")
    return bad


def correspondence(ctx, n_cases: int, n_exact: int, max_periods: int, pid: str, contributions=True) -> CorrResult:
    import time as _time
    res = CorrResult()
    notes: dict = {}
    _t00 = _time.time()
    pairs = collect_cases(ctx, n_cases, max_periods, notes)
    ctx.log(f"correspondence: implementation run on {len(pairs)} cases, {_time.time() - _t00:.0f}s")
    # a few tiny cases are evaluated on exact rationals as well
    exact_pairs = []
    tries = 0
    while len(exact_pairs) < n_exact and tries < 200 * max(1, n_exact):
        tries += 1
        case = gen_case(ctx.rng, max_periods=2)
        if len(case["model"]["tnames"]) > 1 or case["model"]["max_lag"] > 1:
            continue
        try:
            impl = run_impl(case)
        except Exception:  # noqa
            continue
        if impl["num_unit_roots"] or not cond_ok(impl):
            continue
        exact_pairs.append((case, impl))
    jobs = []      # (carrier, [(case, impl, vals, labels)])
    per = max(1, math.ceil(len(pairs) / core.NCPU))
    prepared = []
    dist = {"n_alpha": {}, "n_periods": {}, "n_measurement": {}, "deviation": 0, "rescale_variance": 0,
            "time_varying_std": 0, "shock_means": 0, "log_variables": 0, "fully_missing_period": 0,
            "no_observation_at_all": 0, "observed_cells": 0, "missing_cells": 0,
            "unit_root": 0, "anticipated_shocks": 0, "forward_looking": 0}
    keys = set()
    for case, impl in pairs + exact_pairs:
        vals, labels, problems = expected_outputs(case, impl)
        problems += passthrough_problems(case, impl)
        for pr in problems:
            res.disagreements.append(Disagreement(f"output layout: {pr}", case_summary(case), None, pr))
        prepared.append((case, impl, vals, labels))
    main = prepared[:len(pairs)]
    for case, impl, vals, labels in main:
        n = impl["Ta"].shape[0]
        dist["n_alpha"][str(n)] = dist["n_alpha"].get(str(n), 0) + 1
        dist["n_periods"][str(case["nper"])] = dist["n_periods"].get(str(case["nper"]), 0) + 1
        m = len(case["model"]["mnames"])
        dist["n_measurement"][str(m)] = dist["n_measurement"].get(str(m), 0) + 1
        dist["deviation"] += bool(case["deviation"]); dist["rescale_variance"] += bool(case["rescale_variance"])
        dist["time_varying_std"] += bool(case["tv_stds"]); dist["shock_means"] += bool(case["shock_means"])
        dist["log_variables"] += bool(any(case["model"]["tlog"]) or any(case["model"]["mlog"]))
        dist["unit_root"] += bool(impl["num_unit_roots"]); dist["anticipated_shocks"] += bool(case.get("ant"))
        dist["forward_looking"] += bool(case["model"].get("forward_looking"))
        cols = list(zip(*case["mask"]))
        dist["fully_missing_period"] += any(not any(c) for c in cols)
        dist["no_observation_at_all"] += not any(any(c) for c in cols)
        dist["observed_cells"] += sum(sum(c) for c in cols)
        dist["missing_cells"] += sum(len(c) - sum(c) for c in cols)
        if any(any(c) for c in cols) and case["nper"] >= 2:
            keys.add(repr((case["model"]["source"], case["data"], case["mask"], case["deviation"])))
    # balance the shards: longest-processing-time first on an estimate of the cost of a case
    nbins = max(1, min(core.NCPU, len(main)))
    bins = [[0.0, []] for _ in range(nbins)]
    for item in sorted(main, key=lambda it: -(it[0]["nper"] * (it[1]["Ta"].shape[0] + 2) ** 3)):
        b = min(bins, key=lambda x: x[0])
        b[0] += item[0]["nper"] * (item[1]["Ta"].shape[0] + 2) ** 3
        b[1].append(item)
    for _, items in bins:
        if items:
            jobs.append(("CFX", items))
    for item in prepared[len(pairs):]:
        jobs.append(("CBQ", [item]))
    texts = []
    for carrier, items in jobs:
        t = [header(carrier)]
        for k, (case, impl, vals, labels) in enumerate(items):
            t.append(coq_case(k, case, impl, vals))
        texts.append("\n".join(t))
    import time as _time
    _t0 = _time.time()
    results = core.run_cases(ctx, texts, prefix=f"kf_{pid}", timeout=1500)
    ctx.log(f"correspondence: {len(prepared)} cases in {len(texts)} Coq shards, {_time.time() - _t0:.0f}s")
    res.shards = len(texts)
    n_values = 0
    for (carrier, items), (ok, out) in zip(jobs, results):
        if not ok:
            res.disagreements.append(Disagreement("cases shard does not evaluate", None, out[-800:], None))
            continue
        bodies = core.parse_eval_lists(out)
        if len(bodies) != len(items):
            res.disagreements.append(Disagreement("cases shard: unparsable output", None, out[-800:], None))
            continue
        for (case, impl, vals, labels), body in zip(items, bodies):
            try:
                r = parse_result(body, carrier)
            except Exception as e:  # noqa
                res.disagreements.append(Disagreement("cases shard: unparsable result", case_summary(case),
                                                      body[:600], f"{type(e).__name__}: {e}"))
                continue
            n_values += len(vals) + 3 + 2 * case["nper"]
            for i in r["failing"]:
                lab = labels[i] if i < len(labels) else f"length mismatch (model has {i - 1000000 - 0} values, implementation {len(vals)})"
                impl_v = float(vals[i]) if i < len(vals) and vals[i] is not None else None
                res.disagreements.append(Disagreement(f"{lab} [{carrier}]", case_summary(case),
                                                      "model value differs by more than 1e-7*(1+|x|)", impl_v))
            if not r["init_med_ok"]:
                res.disagreements.append(Disagreement("initial mean is not (I-Ta)^-1 Ka", case_summary(case), None,
                                                      impl["init_med"].tolist()))
            if not r["init_mse_ok"]:
                res.disagreements.append(Disagreement("initial MSE does not solve the Lyapunov equation",
                                                      case_summary(case), None, impl["init_mse"].tolist()))
            for msg in likelihood_disagreements(case, impl, r, contributions):
                res.disagreements.append(Disagreement(f"likelihood: {msg} [{carrier}]", case_summary(case), None, msg))
    for item in notes.get("impl_raised", []):
        res.disagreements.append(Disagreement("kalman_filter raised", item["case"], None, item["error"]))
    rejected = notes.get("skipped_ill_conditioned", 0) + notes.get("skipped_singular", 0) + notes.get("skipped_unit_root", 0)
    if len(pairs) < max(1, n_cases // 2) or rejected > len(pairs):
        # fail closed: a run that rejects most of its cases (e.g. because the implementation's F matrices look
        # singular) proves nothing
        res.disagreements.append(Disagreement(
            f"only {len(pairs)} of {n_cases} requested cases were usable ({rejected} rejected as singular / "
            f"ill-conditioned / unit-root)", None, None, dict(notes, impl_raised=len(notes.get('impl_raised', [])))))
    res.evaluations = len(prepared)
    res.distinct_nontrivial = len(keys)
    dist["values_compared"] = n_values
    dist["exact_rational_cases"] = len(exact_pairs)
    dist["skipped_ill_conditioned"] = notes.get("skipped_ill_conditioned", 0)
    dist["skipped_unit_root"] = notes.get("skipped_unit_root", 0)
    dist["skipped_singular"] = notes.get("skipped_singular", 0)
    dist["exhaustive_mask_cases"] = notes.get("exhaustive_mask_cases", 0)
    res.distribution = dist
    res.rule = ("one random stationary model built from source text through Simultaneous.from_string (1-4 transition "
                "variables, lags up to 2, optional lag identity and shock-free equation, log variables, 1-3 measurement "
                "equations mostly with own measurement shocks), random std values (scalar and time-varying std_ series with "
                "gaps), optional shock means, random data with a random missing-data mask (leading/trailing gaps, fully "
                "missing periods, nothing/everything observed), deviation and rescale_variance flags; "
                "Simultaneous.kalman_filter(..., return_info=True) is compared value by value (predict/update/smooth "
                "medians and stds of the transition variables, smoothed/updated shocks, predicted observables, prediction "
                "errors, prediction MSE matrices, likelihood, contributions, log det F, variance scale) with the Coq model "
                "evaluated on the same dyadic inputs (2^-384 fixed point; a few tiny cases on exact rationals), tolerance "
                "1e-7*(1+|x|); non-trivial = at least two periods and at least one observation; distinct = distinct "
                "(model source, data, mask, deviation)")
    res.samples = [{"source": c["model"]["source"], "nper": c["nper"], "mask": c["mask"], "deviation": c["deviation"],
                    "rescale_variance": c["rescale_variance"],
                    "neg_log_likelihood": float(i["info"]["neg_log_likelihood"])} for c, i in pairs[:3]]
    res.notes = [f"cases per shard: {per}"]
    return res


# ------------------------------------------------------------------------------------------------
# falsifiers: the properties stated directly on the public API
# ------------------------------------------------------------------------------------------------

def _lv(case, nm, v):
    """Value of a variable in the space its equation is written in (logs of log-variables)."""
    model = case["model"]
    lg = dict(zip(model["tnames"] + model["mnames"], model["tlog"] + model["mlog"]))
    return np.log(v) if lg[nm] else v


def equation_residuals(case: dict, box, span, deviation: bool, steady_db):
    """Residuals of the model's own equations (as generated, see gen_model) on a databox of results;
    `steady_db` is the model's steady path in levels over `span`.  Equations with a lead hold in
    expectation only and are skipped.  Returns (measurement residuals {(name, t): r} on observed cells,
    transition residuals {(name, t): r})."""
    model = case["model"]
    P = model["params"]
    nper = case["nper"]
    names = model["tnames"] + model["mnames"]
    X = {nm: np.asarray(box[nm].get_data(span), dtype=float).reshape(-1)
         for nm in names + model["shocks"] + model["mshocks"]}
    S = {nm: _arr(steady_db[nm], span) for nm in names}
    ANT = {sh: np.array(case.get("ant", {}).get(sh, [0.0] * nper), dtype=float) for sh in model["shocks"]}

    def dev(nm, t):
        """variable minus steady path, in equation space"""
        v = X[nm][t]
        if deviation:
            return _lv(case, nm, v)                 # deviations: x - ss, or log(x/ss) = log of the ratio
        return _lv(case, nm, v) - _lv(case, nm, S[nm][t])
    meas, trans = {}, {}
    for j, nm in enumerate(model["mnames"]):
        for t in range(nper):
            if not case["mask"][j][t]:
                continue
            rhs = 0.0
            for i, tn in enumerate(model["tnames"]):
                d = P.get(f"d{j+1}_{i+1}")
                if d is not None:
                    rhs += d * dev(tn, t)
            skip = False
            for l, on in enumerate(model["mnames"]):
                f = P.get(f"f{j+1}_{l+1}")           # another measurement variable in this equation
                if f is not None:
                    if not case["mask"][l][t]:
                        skip = True                  # ... which is not observed in t (the filter reports measurement
                        break                        # variables on observed cells only): the equation cannot be evaluated
                    rhs += f * dev(on, t)
            if skip:
                continue
            if f"w{j+1}" in model["mshocks"]:
                rhs += X[f"w{j+1}"][t]
            meas[(nm, t)] = dev(nm, t) - rhs
    k = len([n for n in model["tnames"] if n not in ("lx", "fw", "tr", "lvl")])
    for i in range(k):
        nm = model["tnames"][i]
        if nm in model.get("lead_eqs", []):
            continue
        for t in range(nper):
            rhs = 0.0
            ok = True
            for lag in (1, 2):
                for j in range(k):
                    a = P.get(f"a{lag}_{i+1}{j+1}")
                    if a is None:
                        continue
                    if t - lag < 0:
                        ok = False
                        break
                    rhs += a * dev(model["tnames"][j], t - lag)
            if not ok:
                continue
            if f"e{i+1}" in model["shocks"]:
                rhs += X[f"e{i+1}"][t] + ANT[f"e{i+1}"][t]
            trans[(nm, t)] = dev(nm, t) - rhs
    if "tr" in model["tnames"]:
        for t in range(1, nper):
            trans[("tr", t)] = dev("tr", t) - dev("tr", t - 1) - X["etr"][t] - ANT["etr"][t]
    if "lvl" in model["tnames"]:
        for t in range(nper):
            trans[("lvl", t)] = dev("lvl", t) - dev("tr", t) - P["sl"] * dev(model["tnames"][0], t)
    if "lx" in model["tnames"]:
        src = None
        for line in model["source"].splitlines():
            m = re.match(r"\s*lx = (\w+)\{-1\};", line)
            if m:
                src = m.group(1)
        for t in range(1, nper):
            trans[("lx", t)] = X["lx"][t] - X[src][t - 1]
    return meas, trans


def _compare_runs(case, out_a, info_a, out_b, info_b, span, tol):
    """First difference between two filter runs that must coincide: (box, name, t, a, b) or None."""
    model = case["model"]
    for boxname in ("predict_med", "update_med", "smooth_med"):
        for nm in model["tnames"] + model["shocks"] + model["mshocks"]:
            a = _arr(out_a[boxname][nm], span)
            b = _arr(out_b[boxname][nm], span)
            for t in range(len(a)):
                if not close(float(b[t]), float(a[t]), tol):
                    return boxname, nm, t, float(a[t]), float(b[t])
    if not close(float(info_b["neg_log_likelihood"]), float(info_a["neg_log_likelihood"]), tol):
        return "info", "neg_log_likelihood", 0, float(info_a["neg_log_likelihood"]), float(info_b["neg_log_likelihood"])
    return None


def falsify_c08_case(case: dict, tol=1e-7) -> list[Failure]:
    """C08 on one case through the public API only."""
    import irispie as ir
    fails: list[Failure] = []
    model = case["model"]
    key_in = case
    repro = "harness.kalman_common.falsify_c08_case(case)  # case = the 'input' of this record"
    try:
        m = build_model(model)
    except Exception as e:  # noqa
        return [Failure("build:raises", f"building/solving the model raises {type(e).__name__}: {e}", case, repr(e)[:300],
                        "a solved model", repro)]
    db, span = input_databox(m, case)
    opts = kf_options(case)
    try:
        out, info = m.kalman_filter(db, span, return_info=True, **opts)
    except Exception as e:  # noqa
        if isinstance(e, np.linalg.LinAlgError) and degenerate_case(case):
            return []
        return [Failure("kalman_filter:raises", f"kalman_filter raises {type(e).__name__}: {e}", key_in, repr(e)[:300],
                        "filter output", repro)]
    dev = case["deviation"]
    if not cond_ok({"out": out, "info": info}):
        return []                      # near-singular prediction MSE: outside the tolerance regime
    steady_db = ir.Databox.steady(m, span, deviation=False)
    for boxname in ("smooth_med", "update_med"):
        box = out[boxname]
        # 1. data reproduced where observed
        for j, nm in enumerate(model["mnames"]):
            got = _arr(box[nm], span)
            want = _arr(db[nm], span)
            for t in range(case["nper"]):
                if case["mask"][j][t] and not close(float(got[t]), float(want[t]), tol):
                    fails.append(Failure(f"{boxname}:data-not-reproduced", f"{boxname}[{nm}] differs from the observation",
                                         key_in, {"name": nm, "t": t, "got": float(got[t])}, float(want[t]), repro))
        # 2. measurement equations (both boxes), transition equations (smoothed only)
        try:
            meas, trans = equation_residuals(case, box, span, dev, steady_db)
        except Exception as e:  # noqa
            fails.append(Failure(f"{boxname}:unreadable", f"{boxname} cannot be read: {type(e).__name__}: {e}", key_in))
            continue
        worst = max(meas.items(), key=lambda kv: abs(kv[1]) if kv[1] == kv[1] else 1e300, default=None)
        if worst and not (abs(worst[1]) <= tol):
            fails.append(Failure(f"{boxname}:measurement-equation",
                                 f"measurement equation of {worst[0][0]} does not hold on {boxname} in period {worst[0][1]}",
                                 key_in, {"residual": float(worst[1])}, 0.0, repro))
        if boxname == "smooth_med":
            worst = max(trans.items(), key=lambda kv: abs(kv[1]) if kv[1] == kv[1] else 1e300, default=None)
            if worst and not (abs(worst[1]) <= tol):
                fails.append(Failure("smooth_med:transition-equation",
                                     f"transition equation of {worst[0][0]} does not hold on smooth_med in period {worst[0][1]}",
                                     key_in, {"residual": float(worst[1])}, 0.0, repro))
    # 3. re-simulation from the smoothed initial condition with the smoothed shocks
    lag = model["max_lag"]
    if case["nper"] > lag:
        sm = out["smooth_med"]
        sim_db = ir.Databox()
        for nm in model["tnames"] + model["mnames"] + model["shocks"] + model["mshocks"]:
            sim_db[nm] = sm[nm].copy()
        for nm in model["shocks"]:
            if "ant_" + nm in sm.keys():
                sim_db["ant_" + nm] = sm["ant_" + nm].copy()
        for nm in model["mnames"]:
            # measurement variables are outputs of the simulation; drop them from the input
            del sim_db[nm]
        sim_span = (span.start + lag) >> span.end
        try:
            sim = m.simulate(sim_db, sim_span, deviation=dev)
            if isinstance(sim, tuple):
                sim = sim[0]
            for nm in model["tnames"]:
                got = _arr(sim[nm], sim_span)
                want = _arr(sm[nm], sim_span)
                bad = [t for t in range(len(got)) if not close(float(got[t]), float(want[t]), 10 * tol)]
                if bad:
                    fails.append(Failure("resimulation:transition",
                                         f"simulating from the smoothed initial condition with the smoothed shocks does not "
                                         f"reproduce smooth_med[{nm}]", key_in,
                                         {"t": bad[0] + lag, "got": float(got[bad[0]])}, float(want[bad[0]]), repro))
                    break
            for j, nm in enumerate(model["mnames"]):
                got = _arr(sim[nm], sim_span)
                want = _arr(sm[nm], sim_span)
                bad = [t for t in range(len(got)) if case["mask"][j][t + lag]
                       and not close(float(got[t]), float(want[t]), 10 * tol)]
                if bad:
                    fails.append(Failure("resimulation:measurement",
                                         f"the re-simulated {nm} differs from the observed data", key_in,
                                         {"t": bad[0] + lag, "got": float(got[bad[0]])}, float(want[bad[0]]), repro))
                    break
        except Exception as e:  # noqa
            fails.append(Failure("resimulation:raises", f"simulate on the smoothed databox raises {type(e).__name__}: {e}",
                                 key_in, repr(e)[:300], "a simulation", repro))
    # 4. deviation mode on (data - steady) = level results - steady
    other = dict(case)
    other["deviation"] = not dev
    try:
        db2, _ = input_databox(m, other)
        out2, info2 = m.kalman_filter(db2, span, return_info=True, **kf_options(other))
        lev, dv = (out, out2) if not dev else (out2, out)
        linfo, dinfo = (info, info2) if not dev else (info2, info)
        lg = dict(zip(model["tnames"] + model["mnames"], model["tlog"] + model["mlog"]))
        for boxname in ("predict_med", "update_med", "smooth_med"):
            for nm in model["tnames"] + model["shocks"] + model["mshocks"]:
                a = _arr(lev[boxname][nm], span)
                b = _arr(dv[boxname][nm], span)
                st = _arr(steady_db[nm], span) if nm in model["tnames"] else np.zeros(len(a))
                want = a / st if lg.get(nm, False) else a - st
                bad = [t for t in range(len(a)) if not close(float(b[t]), float(want[t]), tol)]
                if bad:
                    fails.append(Failure(f"deviation:{boxname}",
                                         f"deviation-mode {boxname}[{nm}] is not the level-mode result minus steady state",
                                         key_in, {"t": bad[0], "deviation": float(b[bad[0]]), "level": float(a[bad[0]])},
                                         float(want[bad[0]]), repro))
                    break
        for boxname in ("predict_std", "update_std", "smooth_std"):
            for nm in model["tnames"]:
                a = _arr(lev[boxname][log_name(case, nm)], span)
                b = _arr(dv[boxname][log_name(case, nm)], span)
                if not all(close(float(x), float(y), tol) for x, y in zip(b, a)):
                    fails.append(Failure(f"deviation:{boxname}", f"{boxname}[{nm}] differs between deviation and level mode",
                                         key_in, b.tolist(), a.tolist(), repro))
                    break
        if not close(float(dinfo["neg_log_likelihood"]), float(linfo["neg_log_likelihood"]), tol):
            fails.append(Failure("deviation:likelihood", "neg_log_likelihood differs between deviation and level mode",
                                 key_in, float(dinfo["neg_log_likelihood"]), float(linfo["neg_log_likelihood"]), repro))
    except Exception as e:  # noqa
        fails.append(Failure("deviation:raises", f"the other mode raises {type(e).__name__}: {e}", key_in, repr(e)[:300]))
    # 5. the results do not depend on what was called before on the model object
    try:
        # (a) the same object again, after the re-simulation and the other-mode filter run above
        out3, info3 = m.kalman_filter(db, span, return_info=True, **opts)
        d = _compare_runs(case, out, info, out3, info3, span, tol)
        if d:
            fails.append(Failure("history:filter-after-simulate",
                                 f"kalman_filter returns a different {d[0]}[{d[1]}] when it is called again after simulate() "
                                 f"on the same model", key_in, {"t": d[2], "second_call": d[4]}, d[3], repro))
        # (b) a freshly built model on which an ordinary simulation (with anticipated shocks) and/or a filter
        #     run on other data was made first
        m2 = build_model(model)
        pre_calls(m2, dict(case, pre_calls=["simulate", "filter"] if case["nper"] % 2 else ["simulate"]), db, span)
        out4, info4 = m2.kalman_filter(db, span, return_info=True, **opts)
        d = _compare_runs(case, out, info, out4, info4, span, tol)
        if d:
            fails.append(Failure("history:simulate-before-filter",
                                 f"kalman_filter returns a different {d[0]}[{d[1]}] on a model on which simulate() was "
                                 f"called before", key_in, {"t": d[2], "after_simulate": d[4]}, d[3], repro))
        else:
            # equations on this second run as well (it must be a simulation of the model too)
            meas, trans = equation_residuals(case, out4["smooth_med"], span, dev, steady_db)
            worst = max(trans.items(), key=lambda kv: abs(kv[1]) if kv[1] == kv[1] else 1e300, default=None)
            if worst and not (abs(worst[1]) <= tol):
                fails.append(Failure("history:transition-equation",
                                     f"transition equation of {worst[0][0]} does not hold on smooth_med when simulate() was "
                                     f"called before the filter", key_in, {"residual": float(worst[1])}, 0.0, repro))
    except Exception as e:  # noqa
        fails.append(Failure("history:raises", f"a second call sequence raises {type(e).__name__}: {e}", key_in, repr(e)[:300]))
    return fails


# ------------------------------------------------------------------------------------------------
# C03 falsifier: brute-force conditioning of the stacked Gaussian
# ------------------------------------------------------------------------------------------------

def batch_reference(case: dict, sol: dict, pin: list[dict]) -> dict:
    """Everything the filter should return, recomputed by conditioning the joint Gaussian of
    z = (alpha_{-1}, u_0..u_{T-1}, w_0..w_{T-1}) on the observed data with dense linear algebra."""
    import scipy.linalg as sla
    Ta, Pa, Ka, Za, H, D, Ua = (sol[k] for k in ("Ta", "Pa", "Ka", "Za", "H", "D", "Ua"))
    if case["deviation"]:
        Ka = np.zeros_like(Ka); D = np.zeros_like(D)
    n, nu = Pa.shape
    ny, nw = H.shape
    T = case["nper"]
    model = case["model"]
    su0 = np.array([model["stds"][f"std_{s}"] for s in sol["u_names"]], dtype=float)
    Sig0 = Pa @ np.diag(su0 ** 2) @ Pa.T
    # initial law: the unit-root block (first nur states) is a fixed unknown delta (estimated below by GLS on the
    # whole sample, as diffuse_method="fixed_unknown" does), the stable block has its unconditional law
    nur = int(sol.get("num_unit_roots", 0))
    C0 = np.zeros((n, n)); m0 = np.zeros(n)
    if n > nur:
        C0[nur:, nur:] = sla.solve_discrete_lyapunov(Ta[nur:, nur:], Sig0[nur:, nur:])
        m0[nur:] = np.linalg.solve(np.eye(n - nur) - Ta[nur:, nur:], Ka[nur:])
    vimp = sol.get("v_impact")        # impact of anticipated shocks (deterministic), None if there are none
    dz = n + T * nu + T * nw
    mz = np.zeros(dz); Sz = np.zeros((dz, dz))
    mz[:n] = m0; Sz[:n, :n] = C0
    for t in range(T):
        a = n + t * nu
        mz[a:a + nu] = pin[t]["u0"]; Sz[a:a + nu, a:a + nu] = np.diag(np.array(pin[t]["std_u"], dtype=float) ** 2)
        b = n + T * nu + t * nw
        mz[b:b + nw] = pin[t]["w0"]; Sz[b:b + nw, b:b + nw] = np.diag(np.array(pin[t]["std_w"], dtype=float) ** 2)
    # alpha_t = A[t] z + c[t]
    A = []; c = []
    Ap = np.zeros((n, dz)); Ap[:, :n] = np.eye(n); cp = np.zeros(n)
    for t in range(T):
        At = Ta @ Ap
        At[:, n + t * nu:n + (t + 1) * nu] += Pa
        ct = Ta @ cp + Ka + (vimp[t] if vimp is not None else 0.0)
        A.append(At); c.append(ct); Ap, cp = At, ct
    Ly = []; cy = []
    for t in range(T):
        L = Za @ A[t]
        L[:, n + T * nu + t * nw:n + T * nu + (t + 1) * nw] += H
        Ly.append(L); cy.append(Za @ c[t] + D)
    U = Ua[sol["curr_idx"], :]

    def sel_u(t):
        E = np.zeros((nu, dz)); E[:, n + t * nu:n + (t + 1) * nu] = np.eye(nu); return E

    def sel_w(t):
        E = np.zeros((nw, dz)); E[:, n + T * nu + t * nw:n + T * nu + (t + 1) * nw] = np.eye(nw); return E

    def obs_upto(tmax):
        rows = []; cons = []; ys = []
        for t in range(tmax + 1):
            for j in range(ny):
                if pin[t]["mask"][j]:
                    rows.append(Ly[t][j]); cons.append(cy[t][j]); ys.append(pin[t]["y"][j])
        if not rows:
            return np.zeros((0, dz)), np.zeros(0), np.zeros(0)
        return np.array(rows), np.array(cons), np.array(ys)

    def condition(tmax):
        Lo, co, yo = obs_upto(tmax)
        N = len(yo)
        if N == 0:
            return {"N": 0, "logdet": 0.0, "q": 0.0, "gain": np.zeros((dz, 0)), "e": np.zeros(0), "Lo": Lo}
        S = Lo @ Sz @ Lo.T
        e = yo - (Lo @ mz + co)
        Si_e = np.linalg.solve(S, e)
        sign, logdet = np.linalg.slogdet(S)
        cnd_no = float(np.linalg.cond(S))
        if np.min(np.diag(S)) < VAR_MIN:
            cnd_no = float("inf")                      # an observed quantity with (numerically) zero variance
        return {"N": N, "logdet": float(logdet), "q": float(e @ Si_e), "S": S, "e": e, "Lo": Lo, "Si_e": Si_e,
                "cond": cnd_no}

    def moments(cnd, Lq, cq):
        mu = Lq @ mz + cq
        V = Lq @ Sz @ Lq.T
        if cnd["N"]:
            Cqy = Lq @ Sz @ cnd["Lo"].T
            mu = mu + Cqy @ cnd["Si_e"]
            V = V - Cqy @ np.linalg.solve(cnd["S"], Cqy.T)
        return mu, np.sqrt(np.maximum(np.diag(V), 0.0))

    gls_cond = 1.0
    if nur:
        pre = condition(T - 1)
        if pre["N"]:
            Mb = pre["Lo"][:, :nur]
            Si_M = np.linalg.solve(pre["S"], Mb)
            G = Mb.T @ Si_M
            gls_cond = float(np.linalg.cond(G)) if np.all(np.isfinite(G)) and np.min(np.abs(np.diag(G))) > 0 else float("inf")
            if gls_cond < COND_MAX:
                delta = np.linalg.solve(G, Si_M.T @ pre["e"])
                mz[:nur] += delta                  # everything below is conditional on delta = its GLS estimate
        else:
            gls_cond = float("inf")                # the unit roots are not identified by the data
    full = condition(T - 1)
    ref = {"N": full["N"], "cond": max(full.get("cond", 1.0), gls_cond)}
    log2pi = math.log(2 * math.pi)

    def nll_of(cnd):
        return 0.5 * (cnd["N"] * log2pi + cnd["logdet"] + cnd["q"])
    vs = 1.0
    if case["rescale_variance"] and full["N"]:
        vs = full["q"] / full["N"]
        if not vs > 1e-10:
            # a perfect fit (e.g. as many unknown initial conditions as observations): var_scale = 0, no density
            ref["cond"] = float("inf"); ref["conds"] = []; ref["nll"] = float("nan")
            return ref
        ref["nll"] = 0.5 * (full["N"] * log2pi + full["logdet"] + full["N"] * math.log(vs) + full["N"])
    else:
        ref["nll"] = nll_of(full)
    ref["var_scale"] = vs
    ref["nll_unscaled"] = nll_of(full)
    prev = {"N": 0, "logdet": 0.0, "q": 0.0}
    ref["contributions"] = []
    ref["conds"] = []
    for t in range(T):
        cnd = condition(t)
        ref["conds"].append(cnd.get("cond", 1.0))
        dN = cnd["N"] - prev["N"]
        # -log p(y_t | y_1..t-1) under the model whose covariances are all multiplied by var_scale
        ref["contributions"].append(0.5 * (dN * log2pi + (cnd["logdet"] - prev["logdet"]) + dN * math.log(vs)
                                           + (cnd["q"] - prev["q"]) / vs) if dN else 0.0)
        prev = cnd
    sq = math.sqrt(vs)
    for kind in ("predict", "update", "smooth"):
        med = {}; std = {}
        for t in range(T):
            cnd = full if kind == "smooth" else condition(t if kind == "update" else t - 1)
            mu, sd = moments(cnd, U @ A[t], U @ c[t])
            for i, nm in enumerate(sol["curr_names"]):
                med[(nm, t)] = float(mu[i]); std[(nm, t)] = float(sd[i]) * sq
            mu, sd = moments(cnd, sel_u(t), np.zeros(nu))
            for i, nm in enumerate(sol["u_names"]):
                med[(nm, t)] = float(mu[i])
            mu, sd = moments(cnd, sel_w(t), np.zeros(nw))
            for i, nm in enumerate(sol["w_names"]):
                med[(nm, t)] = float(mu[i])
            if kind == "predict":
                mu, sd = moments(cnd, Ly[t], cy[t])
                for j, nm in enumerate(sol["y_names"]):
                    med[(nm, t)] = float(mu[j])
        ref[kind + "_med"] = med; ref[kind + "_std"] = std
    return ref


def generated_measurement_block(case: dict, sol: dict) -> tuple:
    """(Za, H, D) of the observation equation  y_t = Za alpha_t + D + H w_t  derived from the measurement equations AS
    GENERATED (gen_model: y = c + Dl xi + Fc y + S w in equation space, solved for y), not from the solution object's
    Z / H / D; only the similarity transform Ua and the ordering of the vectors are taken from the solution."""
    model = case["model"]
    P = model["params"]
    ynames, wnames, xi = sol["y_names"], sol["w_names"], sol["xi_tokens"]
    m = len(ynames)
    col = {nm: i for i, (nm, sh) in enumerate(xi) if sh == 0}
    Dl = np.zeros((m, len(xi))); S = np.zeros((m, len(wnames))); c = np.zeros(m); Fc = np.zeros((m, m))
    for r, yn in enumerate(ynames):
        j = model["mnames"].index(yn)
        c[r] = P[f"c{j+1}"]
        for i, tn in enumerate(model["tnames"]):
            d = P.get(f"d{j+1}_{i+1}")
            if d is not None:
                Dl[r, col[tn]] = d
        for l, on in enumerate(model["mnames"]):
            f = P.get(f"f{j+1}_{l+1}")
            if f is not None:
                Fc[r, ynames.index(on)] = f
        if f"w{j+1}" in wnames:
            S[r, wnames.index(f"w{j+1}")] = 1.0
    A = np.eye(m) - Fc
    return np.linalg.solve(A, Dl) @ sol["Ua"], np.linalg.solve(A, S), np.linalg.solve(A, c)


def public_solution(m) -> dict:
    sol = m.get_solution()
    vec = m._get_dynamic_solution_vectors()
    curr_qids, curr_idx = vec.get_curr_transition_indexes()
    q2n = m.create_qid_to_name()
    return {
        "Ta": np.array(sol.Ta), "Pa": np.array(sol.Pa), "Ka": np.array(sol.Ka).reshape(-1), "Za": np.array(sol.Za),
        "H": np.array(sol.H), "D": np.array(sol.D).reshape(-1), "Ua": np.array(sol.Ua),
        "curr_idx": list(curr_idx), "curr_names": [q2n[q] for q in curr_qids],
        "y_names": [q2n[t.qid] for t in vec.measurement_variables],
        "u_names": [q2n[t.qid] for t in vec.transition_shocks],
        "w_names": [q2n[t.qid] for t in vec.measurement_shocks],
        "num_unit_roots": int(sol.num_unit_roots),
        "T_square": np.array(sol.T), "xi_tokens": [(q2n[t.qid], int(t.shift)) for t in vec.transition_variables],
    }


def falsify_c03_case(case: dict, tol=1e-7) -> list[Failure]:
    """C03 on one case: the filter's output against dense Gaussian conditioning."""
    fails: list[Failure] = []
    model = case["model"]
    repro = "harness.kalman_common.falsify_c03_case(case)  # case = the 'input' of this record"
    try:
        m = build_model(model)
    except Exception as e:  # noqa
        return [Failure("build:raises", f"building/solving the model raises {type(e).__name__}: {e}", case, repr(e)[:300],
                        "a solved model", repro)]
    db, span = input_databox(m, case)
    opts = kf_options(case)
    try:
        out, info = m.kalman_filter(db, span, return_info=True, **opts)
    except Exception as e:  # noqa
        if isinstance(e, np.linalg.LinAlgError) and degenerate_case(case):
            return []
        return [Failure("kalman_filter:raises", f"kalman_filter raises {type(e).__name__}: {e}", case, repr(e)[:300],
                        "filter output", repro)]
    sol = public_solution(m)
    if sol["num_unit_roots"] != model["num_unit_roots"]:
        return [Failure("solution:unit-roots", f"the solution reports {sol['num_unit_roots']} unit roots, the model has "
                        f"{model['num_unit_roots']}", case, sol["num_unit_roots"], model["num_unit_roots"], repro)]
    sol["db"], sol["span"] = db, span
    sol["v_impact"] = anticipated_impact(case, sol)
    pin = period_inputs(case, sol)
    # the observation equation of the reference comes from the generated measurement equations, not from the Z/H/D of
    # the solution object (a wrongly solved measurement block then shows as a difference from exact conditioning)
    sol["Za"], sol["H"], sol["D"] = generated_measurement_block(case, sol)
    try:
        ref = batch_reference(case, sol, pin)
    except np.linalg.LinAlgError:
        return []                      # singular stacked covariance: outside the tolerance regime
    if max([ref["cond"]] + ref["conds"]) > COND_MAX or not np.isfinite(ref["nll"]):
        return []
    T = case["nper"]
    tag = ":rescale_variance" if case["rescale_variance"] else ""
    nll = float(info["neg_log_likelihood"])
    if not close(nll, ref["nll"], tol):
        fails.append(Failure("likelihood:total" + tag,
                             "neg_log_likelihood is not the negative log density of the observed data under the joint "
                             "Gaussian", case, nll, ref["nll"], repro))
    if not close(float(info["var_scale"]), ref["var_scale"], tol):
        fails.append(Failure("likelihood:var_scale", "var_scale is not sum pe'F^-1 pe / number of observations", case,
                             float(info["var_scale"]), ref["var_scale"], repro))
    contrib = _arr(info["neg_log_likelihood_contributions"], span)
    if not close(float(np.sum(contrib)), nll, tol):
        fails.append(Failure("contributions:sum" + tag, "per-period likelihood contributions do not sum to the total",
                             case, {"sum": float(np.sum(contrib)), "contributions": contrib.tolist()}, nll, repro))
    for t in range(T):
        if not any(pin[t]["mask"]) and contrib[t] != 0:
            fails.append(Failure("contributions:empty-period", "a period without observations contributes to the likelihood",
                                 case, {"t": t, "contribution": float(contrib[t])}, 0.0, repro))
            break
    bad = [t for t in range(T) if not close(float(contrib[t]), ref["contributions"][t], 10 * tol)]
    if bad:
        fails.append(Failure("contributions:value" + tag,
                             "a likelihood contribution is not -log p(y_t | y_1..t-1)"
                             + (" under the variance-rescaled model" if tag else ""), case,
                             {"t": bad[0], "contribution": float(contrib[bad[0]])}, ref["contributions"][bad[0]], repro))
    for kind in ("predict", "update", "smooth"):
        for what in ("med", "std"):
            box = out[f"{kind}_{what}"]
            want = ref[f"{kind}_{what}"]
            for (nm, t), w in want.items():
                ln = log_name(case, nm)
                if nm in sol["y_names"] and not pin[t]["mask"][sol["y_names"].index(nm)]:
                    continue            # predicted observables are reported on observed rows only
                if ln not in box.keys():
                    continue
                g = float(_arr(box[ln], span)[t])
                # standard deviations are compared as variances (a std of 0 is only accurate to sqrt(eps))
                same = close(g * g, w * w, 10 * tol) if what == "std" else close(g, w, 10 * tol)
                if not same:
                    fails.append(Failure(f"{kind}_{what}" + (":shock" if nm in sol["u_names"] + sol["w_names"] else ""),
                                         f"{kind}_{what}[{ln}] is not the conditional "
                                         f"{'mean' if what == 'med' else 'standard deviation'} given the data "
                                         f"{'up to t-1' if kind == 'predict' else 'up to t' if kind == 'update' else 'of all periods'}",
                                         case, {"name": ln, "t": t, "got": g}, w, repro))
                    break
    # a model with two parameter variants (the second with all stds multiplied by 1.5): each variant must
    # return what the corresponding single-variant model returns
    try:
        mdl2 = dict(model); mdl2["stds"] = {k: v * 1.5 for k, v in model["stds"].items()}
        mb = build_model(mdl2)
        dbv = db.copy()
        for k in model["stds"]:
            if k not in case["tv_stds"] and k in dbv.keys():
                del dbv[k]                      # let the std values come from the model (per variant)
        outs, infos = [], []
        for mm in (m, mb):
            o, i = mm.kalman_filter(dbv, span, return_info=True, **opts)
            outs.append(o); infos.append(i)
        mv = m.copy()
        mv.alter_num_variants(2)
        mv.assign(**{k: [v, v * 1.5] for k, v in model["stds"].items()})
        mv.solve()
        ov, iv = mv.kalman_filter(dbv, span, return_info=True, **opts)
        for vid in (0, 1):
            bad = None
            if not close(float(iv[vid]["neg_log_likelihood"]), float(infos[vid]["neg_log_likelihood"]), tol):
                bad = ("neg_log_likelihood", float(iv[vid]["neg_log_likelihood"]), float(infos[vid]["neg_log_likelihood"]))
            elif not close(float(iv[vid]["var_scale"]), float(infos[vid]["var_scale"]), tol):
                bad = ("var_scale", float(iv[vid]["var_scale"]), float(infos[vid]["var_scale"]))
            else:
                for boxname in ("smooth_med", "smooth_std", "predict_std"):
                    for nm in model["tnames"]:
                        ln = log_name(case, nm)
                        a = np.asarray(ov[boxname][ln].get_data(span), dtype=float)[:, vid]
                        b = _arr(outs[vid][boxname][ln], span)
                        if not all(close(float(x), float(y), tol) for x, y in zip(a, b)):
                            bad = (f"{boxname}[{ln}]", a.tolist(), b.tolist())
                            break
                    if bad:
                        break
            if bad:
                fails.append(Failure("variants:filter", f"variant {vid} of a two-variant model returns a different {bad[0]} than the "
                                     f"single-variant model with the same parameters", case, bad[1], bad[2], repro))
                break
    except Exception as e:  # noqa
        fails.append(Failure("variants:raises", f"filtering a two-variant model raises {type(e).__name__}: {e}", case, repr(e)[:300]))
    # non-default ways of asking for the same thing
    try:
        v = float(m.neg_log_likelihood(db, span, **opts))
        if not close(v, nll, tol):
            fails.append(Failure("options:neg_log_likelihood-method",
                                 "Simultaneous.neg_log_likelihood differs from kalman_filter(...)[1]['neg_log_likelihood']",
                                 case, v, nll, repro))
        o2, i2 = m.kalman_filter(db, span, return_info=True, return_=("smooth", ), **opts)
        d = None
        for nm in model["tnames"] + model["shocks"] + model["mshocks"]:
            a = _arr(out["smooth_med"][nm], span); b = _arr(o2["smooth_med"][nm], span)
            if not all(close(float(y), float(x), tol) for x, y in zip(a, b)):
                d = nm
                break
        if d or not close(float(i2["neg_log_likelihood"]), nll, tol):
            fails.append(Failure("options:return_smooth_only",
                                 "kalman_filter(return_=('smooth',)) differs from the smoothing step of the full run",
                                 case, d or "neg_log_likelihood", "equal results", repro))
        if not model["num_unit_roots"]:
            for dm in ("fixed_zero", "approx_diffuse"):
                _, i3 = m.kalman_filter(db, span, return_info=True, diffuse_method=dm, **opts)
                if not close(float(i3["neg_log_likelihood"]), nll, tol):
                    fails.append(Failure("options:diffuse_method",
                                         f"diffuse_method={dm!r} changes the likelihood of a model without unit roots",
                                         case, float(i3["neg_log_likelihood"]), nll, repro))
                    break
    except Exception as e:  # noqa
        fails.append(Failure("options:raises", f"an equivalent call raises {type(e).__name__}: {e}", case, repr(e)[:300]))
    seen = set(); uniq = []
    for f in fails:
        if f.key not in seen:
            seen.add(f.key); uniq.append(f)
    return uniq
