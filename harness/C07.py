"""C07  Simulation plans hit exogenized points exactly; swaps invert a simulation.

Ties:
  (a) plan bookkeeping: random histories of exogenize_*/endogenize_*/swap_* calls (valid and invalid names / dates,
      `...`, lists, status False) on a real irispie.SimulationPlan; the registers and the views the simulators read
      (get_register_as_bool_array, get_<register>(), get_*_in_period, is_empty, any_endogenized_*_except_start)
      are compared EXACTLY with model/Plans.v Part A evaluated by vm_compute;
  (b) conditional simulation: random determinate models (generator of C01), random exactly identified plans
      (unanticipated / anticipated / anticipated block followed by unanticipated dates) with a well conditioned
      impact matrix, Simultaneous.simulate(db, span, plan=plan, method="first_order") against the model of the frame
      loop + Kalman smoother on the augmented state (lib/PlansCase.v over model/Plans.v Part B and model/Kalman.v)
      evaluated in 2^-384 fixed point, within 1e-7*(1+|x|); on exactly linear models the same numbers are required
      from method="stacked_time".
  (c) translator/planloop.py regenerates gen/PlanLoopGen.v on every run: the element formula of
      get_register_as_bool_array and _is_active_status, and what the frame loop of variant k of Inlay.simulate receives
      (model variant, input_data_array, working data); model/SimVariants.v and proofs/PlanLoopProofs.v are stated over
      these fragments; in (b) a share of the plans is built by call histories with status=False (points switched off,
      on/off/on) and a share of the simulations is ONE call on a model with 2-3 parameter variants and a databox with
      one column per variant (own initial conditions, shocks, stds, targets): variant k of the output is compared with
      the model evaluated on variant k's solution matrices and variant k's input columns.
Falsifier (public API only): exogenized cells keep their input values, only endogenized shocks at endogenized dates
change, the result satisfies the model equations (residual evaluator of C01), a swap round trip recovers the driving
shocks and the whole path; both modes, both methods, plus nonlinear stacked-time round trips on the models of C06.
The plan the property speaks about is the EFFECTIVE plan (the points whose last write had status=True): plans are also
built by histories in which points are switched on, off and on again, and decoy points that end switched off must
behave as never planned.  Models with several parameter variants / databoxes with several columns: every variant is
checked against its own inputs (Failure.key carries "+status-off" / "+variants" when the case uses the dimension).
"""
from __future__ import annotations

import contextlib
import io
import json
import math
import re
from fractions import Fraction

import numpy as np

from vf import core
from vf.core import CorrResult, Disagreement, Failure
from translator import frames as trf
from translator import planloop as trpl
from harness import C01
from harness import kalman_common as KC

ID = "C07"
PROPS = "props/C07.v"
GENERATED = [trf.OUT, trpl.OUT]
CASE_DEPS = ["lib/CaseUtil.vo", "lib/PlansCase.vo"]
ALLOWED_AXIOMS: set = set()
TRUSTED = [
    "the first-order solution matrices T, P, K, X, J, Ru, Z, H, D returned by Simultaneous._gets_solution (their "
    "correctness is C01) and the solution-vector descriptors (token order, true_initials, curr_xi_indexes)",
    "the Kalman model model/Kalman.v and its theorems (C03/C08), the frame model model/Frames.v (C06)",
    "float arithmetic of the implementation is compared with a 2^-384 fixed-point evaluation of the model within "
    "1e-7*(1+|x|); theorems are over an arbitrary real field",
]
ASSUMPTIONS = [
    "exogenized_hit needs every prediction MSE matrix F_t of the run to be invertible (all_unit), as numpy.linalg.inv "
    "needs; it is not derived from the non-singularity of the impact matrix",
    "non-singular impact matrix = trivial kernel of the linear map (increments on endogenized cells) -> (response of "
    "exogenized cells), stated with the model's own homogeneous recursion",
    "mixed plans are generated only where the frame loop is exact: every unanticipated break point lies after the last "
    "anticipated target/instrument (earlier break points make irispie re-solve the anticipated instruments frame by "
    "frame, which is outside the property's single-mode quantifier)",
    "stacked_time: Newton solver is an oracle (C06); compared with the model on exactly linear models only",
]
MANIFEST = {
    "technique": "machine-checked proof (Coq 8.16, MathComp) of the conditional-simulation model built on the C03/C08 "
                 "Kalman model + exact/tolerance correspondence with the implementation + public-API falsifier",
    "level_text": "proof, partial",
    "level_note": "Proved for every dimension, number of periods and plan pattern: exogenized cells are hit (given "
                  "invertible F_t), only endogenized shocks change, the result is the ordinary first-order simulation "
                  "of the returned shocks (including _generate_R = anticipated impact of the endogenized increments), "
                  "swap inverts a simulation under a non-singular impact map; plan registers = last write wins over "
                  "any call history, and the boolean incidence the simulators read = points whose last write was "
                  "status=True (element formula regenerated from the source); the loop over variants is pointwise "
                  "(variant k = one-variant simulation of model variant k on input column k; generated from the "
                  "source), so every variant hits its own inputs. Not proved: invertibility of F_t from the impact matrix; stacked_time relies on "
                  "C06's theorems (unknown cells, stacked residual) with Newton as oracle. Array plumbing of "
                  "_simulate_conditional and the frame loop are modelled and tied by correspondence only.",
}

TOL = 1e-7
START = C01.START


def translate(ctx):
    trf.run()
    trpl.run()


# =====================================================================================
# 1. models, plans, cases
# =====================================================================================

_MODELS: dict = {}


def get_model(spec):
    """(model, acc) for a C01 spec, or None when it cannot be built / is not determinate at its steady state"""
    key = json.dumps(spec, sort_keys=True)
    if key in _MODELS:
        return _MODELS[key]
    res = None
    try:
        acc = C01._accept(spec)
        if acc is not None:
            with contextlib.redirect_stdout(io.StringIO()):
                m, _rec = C01.build_model(spec)
            acc = C01.accept_at_model_steady(spec, m, acc)
            if acc is not None and acc[3] == acc[2] and acc[4] > 0.03:
                res = (m, acc)
    except Exception:  # noqa -- a model irispie cannot build is not a case
        res = None
    _MODELS[key] = res
    return res


def truly_linear(spec) -> bool:
    return not any(spec["logs"]) and not any(e["nl"] for e in spec["eqs"]) and not any(mm["log"] for mm in spec["meas"])


def sv(db, name, p) -> float:
    item = db[name]
    if isinstance(item, (int, float)):        # std_<shock> is a plain number in Databox.steady
        return float(item)
    return C01.series_value(db, name, p)


def periods_of(nper):
    import irispie as ir
    start = ir.qq(*START)
    return start, start >> (start + nper - 1)


def shock_name(kind, s):
    return {"u": C01.ename(s), "v": "ant_" + C01.ename(s), "w": C01.wname(s)}[kind]


def impulse(m, spec, nper, kind, s, t) -> np.ndarray:
    """response (in V-units: logs of log-variables) of every transition variable to a unit shock, n x nper"""
    import irispie as ir
    start, span = periods_of(nper)
    db = ir.Databox.steady(m, span, deviation=True)
    db[shock_name(kind, s)][start + t] = 1.0
    out = m.simulate(db, span, method="first_order", deviation=True)
    R = np.zeros((spec["n"], nper))
    for j in range(spec["n"]):
        for k, p in enumerate(span):
            v = sv(out, C01.vname(j), p)
            R[j, k] = (math.log(v) if v > 0 else float("nan")) if spec["logs"][j] else v
    return R


def _well_conditioned(M) -> bool:
    if M.size == 0 or not np.all(np.isfinite(M)):
        return False
    sg = np.linalg.svd(M, compute_uv=False)
    return bool(sg[-1] > 2e-2 and sg[0] / sg[-1] < 3e2)


def gen_plan(rng, spec, m, nper, mode):
    """exactly identified instruments [(kind, shock, t)] and targets [(variable, t, kind)]"""
    n, ns = spec["n"], spec["nshocks"]
    inst, targ = [], []
    tA_end = -1
    if mode in ("A", "M"):
        hiA = nper if mode == "A" else max(1, nper - 2)
        k = rng.randint(1, min(3, ns * hiA, n * hiA))
        cellsI = [(s, t) for s in range(ns) for t in range(hiA)]
        cellsT = [(j, t) for j in range(n) for t in range(hiA)]
        for _try in range(30):
            I = rng.sample(cellsI, k)
            Tg = rng.sample(cellsT, k)
            imp = {c: impulse(m, spec, nper, "v", *c) for c in I}
            M = np.array([[imp[c][j, t] for c in I] for (j, t) in Tg])
            if _well_conditioned(M):
                inst += [("v", s, t) for (s, t) in I]
                targ += [(j, t, "a") for (j, t) in Tg]
                tA_end = max([t for _, t in I] + [t for _, t in Tg])
                break
        else:
            return None
    if mode in ("U", "M"):
        dates = [t for t in range(tA_end + 1, nper) if rng.random() < 0.4]
        if not dates and tA_end + 1 < nper:
            dates = [rng.randrange(tA_end + 1, nper)]
        for t in dates:
            k = rng.randint(1, min(ns, n, 2))
            for _try in range(20):
                S = rng.sample(range(ns), k)
                J = rng.sample(range(n), k)
                imp = {s: impulse(m, spec, nper, "u", s, t) for s in S}
                M = np.array([[imp[s][j, t] for s in S] for j in J])
                if _well_conditioned(M):
                    inst += [("u", s, t) for s in S]
                    targ += [(j, t, "u") for j in J]
                    break
    if not inst:
        return None
    return {"inst": inst, "targ": targ, "tA_end": tA_end}


def n_frames(case) -> int:
    """number of frames of the first-order simulator: split only when an anticipated shock is endogenized after the
    first period, then at every non-zero unanticipated shock and every endogenized unanticipated date"""
    if not any(k == "v" and t > 0 for k, _s, t in case["inst"]):
        return 1
    bp = {0} | {t for k, _s, t, v in case["bg"] if k == "u" and v != 0} | {t for k, _s, t in case["inst"] if k == "u"}
    return len(bp)


def gen_case(rng, spec, m, method="first_order", mode=None, p_hist=0.0, p_var=0.0):
    nper = rng.randint(2, 8)
    mode = mode or rng.choice(["U", "A", "A", "M"])
    pl = gen_plan(rng, spec, m, nper, mode)
    if pl is None:
        return None
    r = lambda lo, hi: C01._r(rng, lo, hi, 3)  # noqa
    icells = {tuple(c) for c in pl["inst"]}
    estar = [[k, s, t, r(-1, 1)] for (k, s, t) in pl["inst"]]
    bg = []
    for s in range(spec["nshocks"]):
        for t in range(nper):
            if ("v", s, t) not in icells and rng.random() < 0.2:
                bg.append(["v", s, t, r(-1, 1)])
            # unanticipated background shocks: anywhere when nothing anticipated is endogenized, otherwise only after
            # the anticipated block or in the first period (no break point inside the block)
            ok_u = (pl["tA_end"] < 0) or t > pl["tA_end"] or t == 0
            if ("u", s, t) not in icells and ok_u and rng.random() < 0.2:
                bg.append(["u", s, t, r(-1, 1)])
    for s in range(spec["nw"]):
        for t in range(nper):
            if rng.random() < 0.3:
                bg.append(["w", s, t, r(-1, 1)])
    lo, _hi = C01._shift_ranges(spec)
    init = [[j, back, r(-0.3, 0.3)] for j in range(spec["n"]) for back in range(1, -lo[j] + 2) if rng.random() < 0.7]
    kind = "swap" if rng.random() < 0.6 else "free"
    noise = [r(-0.2, 0.2) for _ in pl["targ"]]
    stds = {str(s): rng.choice([0.5, 1.0, 1.0, 2.0]) for s in range(spec["nshocks"])}
    dev = (rng.random() < 0.5) if method == "first_order" else False
    case = {"spec": spec, "nper": nper, "deviation": dev, "mode": mode, "method": method, "kind": kind,
            "inst": [list(c) for c in pl["inst"]], "targ": [list(c) for c in pl["targ"]], "tA_end": pl["tA_end"],
            "estar": estar, "bg": bg, "init": init, "noise": noise, "stds": stds}
    if rng.random() < p_hist:
        case["hist"] = gen_hist(rng, case)
    if rng.random() < p_var:
        vs = gen_variants(rng, case, m)
        if vs:
            case["variants"] = vs
            # same parameters in every variant: the model object keeps ONE variant and the number of variants is given
            # by simulate(..., num_variants=) (the model variant is then repeated by iter_variants)
            if all(v["factor"] is None for v in vs) and rng.random() < 0.4:
                case["nv_kwarg"] = True
    return case


# ---- call histories: the plan is built by a sequence of calls in which points are switched on, off (status=False)
# and on again; `inst`/`targ` are the points whose LAST write has status=True (the effective plan the property is
# about); the other points of the history ("decoys") must behave as if they had never been planned

def gen_hist(rng, case) -> list:
    spec, nper = case["spec"], case["nper"]
    n, ns = spec["n"], spec["nshocks"]
    seqs = []
    eff_x = {(j, t) for (j, t, _k) in case["targ"]}
    eff_e = {(k, s, t) for (k, s, t) in case["inst"]}
    for (k, s, t) in case["inst"]:
        reg = "endogenized_unanticipated" if k == "u" else "endogenized_anticipated"
        seqs.append([["w", reg, s, t, b] for b in rng.choice([[True], [True], [True, False, True], [False, True]])])
    for (j, t, k) in case["targ"]:
        reg = "exogenized_unanticipated" if k == "u" else "exogenized_anticipated"
        seqs.append([["w", reg, j, t, b] for b in rng.choice([[True], [True], [True, False, True], [False, True]])])
    used = set()
    for _ in range(rng.randint(1, 3)):
        t = rng.randrange(nper)
        ant = rng.random() < 0.5
        j, sh = rng.randrange(n), rng.randrange(ns)
        # a variable is not a decoy at a date at which it is a target (in either mode); likewise a shock cell
        okx = (j, t) not in eff_x and ("x", j, t) not in used
        oke = (("v" if ant else "u"), sh, t) not in eff_e and ("e", ant, sh, t) not in used
        r = rng.random()
        rx = "exogenized_anticipated" if ant else "exogenized_unanticipated"
        re_ = "endogenized_anticipated" if ant else "endogenized_unanticipated"
        if r < 0.4 and okx and oke:
            seqs.append([["s", ant, j, sh, t, True], ["s", ant, j, sh, t, False]])
            used |= {("x", j, t), ("e", ant, sh, t)}
        elif r < 0.7 and okx:
            seqs.append([["w", rx, j, t, b] for b in rng.choice([[True, False], [False], [True, False, False]])])
            used.add(("x", j, t))
        elif oke:
            seqs.append([["w", re_, sh, t, b] for b in rng.choice([[True, False], [False], [True, True, False]])])
            used.add(("e", ant, sh, t))
    # random interleaving that keeps the order of the writes to one point
    out = []
    seqs = [q for q in seqs if q]
    while seqs:
        q = rng.choice(seqs)
        out.append(q.pop(0))
        seqs = [q for q in seqs if q]
    return out


def hist_has_off(case) -> bool:
    return any(op[-1] is False for op in case.get("hist", []))


# ---- variants: one model object with several parameter variants (or one parameterisation altered to several
# variants), one plan, an input databox whose series carry one column per variant with variant-specific initial
# conditions, background shocks, std_ values and targets

def scale_spec(spec, f):
    sp = json.loads(json.dumps(spec))
    q = lambda c: round(c * f, 4)  # noqa
    for e in sp["eqs"]:
        e["terms"] = [[j, sh, q(c)] for (j, sh, c) in e["terms"]]
        e["const"] = q(e["const"])
    for mm in sp["meas"]:
        mm["terms"] = [[j, sh, q(c)] for (j, sh, c) in mm["terms"]]
        mm["const"] = q(mm["const"])
    return sp


def gen_variants(rng, case, m) -> list:
    spec, nper = case["spec"], case["nper"]
    nv = rng.choice([2, 2, 3])
    r = lambda lo, hi: C01._r(rng, lo, hi, 3)  # noqa
    src0, params = C01.render_source(spec)
    par_ok = bool(params) and not spec.get("growth") and not any(e["nl"] for e in spec["eqs"])
    icells = {tuple(c) for c in case["inst"]}
    bgcells = {(k, s, t) for (k, s, t, _v) in case["bg"]}
    out = []
    for k in range(1, nv):
        f = None
        if par_ok and rng.random() < 0.7:
            f = rng.choice([0.97, 0.95, 0.92, 1.03])
            sk = scale_spec(spec, f)
            got = get_model(sk)
            if got is None or C01.render_source(sk)[0] != src0 or not plan_ok(case, sk, got[0]):
                f = None
        # background shocks: the unanticipated ones stay at the dates of variant 0 or are dropped (same rule on break
        # points as in gen_case); new values everywhere
        bg = [[kk, s, t, r(-1, 1)] for (kk, s, t, _v) in case["bg"] if rng.random() < 0.8]
        out.append({"factor": f,
                    "estar": [[kk, s, t, r(-1, 1)] for (kk, s, t, _v) in case["estar"]],
                    "bg": bg,
                    "init": [[j, back, r(-0.3, 0.3)] for (j, back, _v) in case["init"]],
                    "noise": [r(-0.2, 0.2) for _ in case["targ"]],
                    "stds": {s: rng.choice([0.5, 1.0, 2.0]) for s in case["stds"]}})
    return out


def plan_ok(case, spec_k, m_k) -> bool:
    """the impact matrices of the plan of `case` are well conditioned on the model of another variant as well"""
    nper = case["nper"]
    try:
        I = [(s, t) for (k, s, t) in case["inst"] if k == "v"]
        Tg = [(j, t) for (j, t, k) in case["targ"] if k == "a"]
        if I:
            imp = {c: impulse(m_k, spec_k, nper, "v", *c) for c in I}
            if not _well_conditioned(np.array([[imp[c][j, t] for c in I] for (j, t) in Tg])):
                return False
        for t in sorted({t for (k, _s, t) in case["inst"] if k == "u"}):
            S = [s for (k, s, tt) in case["inst"] if k == "u" and tt == t]
            J = [j for (j, tt, k) in case["targ"] if k == "u" and tt == t]
            imp = {s_: impulse(m_k, spec_k, nper, "u", s_, t) for s_ in S}
            if not _well_conditioned(np.array([[imp[s_][j, t] for s_ in S] for j in J])):
                return False
    except Exception:  # noqa
        return False
    return True


def variant_case(case, k) -> dict:
    """the single-variant case that variant k of a multi-variant case must reproduce"""
    base = {kk: v for kk, v in case.items() if kk != "variants"}
    if k == 0:
        return base
    v = case["variants"][k - 1]
    base.update({kk: v[kk] for kk in ("estar", "bg", "init", "noise", "stds")})
    if v.get("factor") is not None:
        base["spec"] = scale_spec(case["spec"], v["factor"])
    return base


_NV_MODELS: dict = {}


def nv_model(case, singles):
    """ONE model object with len(singles) variants; variant k carries the parameters of singles[k]"""
    import irispie as ir
    spec = case["spec"]
    factors = [None] + [v.get("factor") for v in case["variants"]]
    key = json.dumps([spec, factors], sort_keys=True)
    if key in _NV_MODELS:
        return _NV_MODELS[key]
    nv = len(factors)
    with contextlib.redirect_stdout(io.StringIO()):
        if all(f is None for f in factors):
            mm = singles[0].copy()
            mm.alter_num_variants(nv)
        else:
            src, _p0 = C01.render_source(spec)
            pk = [C01.render_source(variant_case(case, k)["spec"])[1] for k in range(nv)]
            mm = ir.Simultaneous.from_string(src, linear=spec["linear"], flat=spec["flat"])
            mm.alter_num_variants(nv)
            mm.assign(**{nm: [pk[k][nm] for k in range(nv)] for nm in pk[0]})
            mm.steady()
            mm.solve()
    _NV_MODELS[key] = mm
    return mm


def merge_dbs(dbs):
    """single-variant databoxes -> one databox whose series have one column per variant"""
    import irispie as ir
    out = ir.Databox()
    for nm in dbs[0].keys():
        items = [d[nm] for d in dbs]
        if isinstance(items[0], ir.Series):
            st = min((x.start for x in items), key=lambda p: p.serial)
            en = max((x.start + (x.data.shape[0] - 1) for x in items), key=lambda p: p.serial)
            A = np.full((en - st + 1, len(items)), np.nan)
            for k, x in enumerate(items):
                o = x.start - st
                A[o:o + x.data.shape[0], k] = np.asarray(x.data, dtype=float)[:, 0]
            out[nm] = ir.Series(start=st, values=A)
        else:
            out[nm] = [float(np.asarray(x).ravel()[0]) for x in items]
    return out


def split_db(db, k, nv):
    """variant k of a databox returned by a multi-variant simulation, as a single-variant databox"""
    import irispie as ir
    out = ir.Databox()
    for nm in db.keys():
        x = db[nm]
        if isinstance(x, ir.Series):
            D = np.asarray(x.data, dtype=float)
            if D.shape[1] != nv:
                raise ValueError(f"output series {nm} has {D.shape[1]} columns for {nv} variants")
            out[nm] = ir.Series(start=x.start, values=D[:, k].copy())
        elif isinstance(x, (list, tuple)):
            out[nm] = x[k] if len(x) == nv else x[0]
        else:
            out[nm] = x
    return out


# =====================================================================================
# 2. running the implementation (public API)
# =====================================================================================

def make_db(m, spec, case, shocks):
    import irispie as ir
    start, span = periods_of(case["nper"])
    db = ir.Databox.steady(m, span, deviation=case["deviation"])
    for s, val in case["stds"].items():
        db["std_" + C01.ename(int(s))] = float(val)
    for (kind, s, t, val) in shocks:
        db[shock_name(kind, s)][start + t] = float(val)
    for (j, back, dv) in case["init"]:
        p = start - back
        nm = C01.vname(j)
        try:
            base = sv(db, nm, p)
        except Exception:  # noqa
            continue
        if base != base:
            continue
        db[nm][p] = base * math.exp(dv) if spec["logs"][j] else base + dv
    return db


def make_plan(m, case):
    import irispie as ir
    start, span = periods_of(case["nper"])
    p = ir.SimulationPlan(m, span)
    if case.get("hist"):
        for op in case["hist"]:
            if op[0] == "w":
                _w, reg, i, t, b = op
                nm = C01.vname(i) if reg.startswith("exog") else \
                    (C01.ename(i) if reg == "endogenized_unanticipated" else "ant_" + C01.ename(i))
                getattr(p, _METHOD[reg])(start + t, nm, status=bool(b))
            else:
                _s, ant, j, sh, t, b = op
                if ant:
                    p.swap_anticipated(start + t, (C01.vname(j), "ant_" + C01.ename(sh)), status=bool(b))
                else:
                    p.swap_unanticipated(start + t, (C01.vname(j), C01.ename(sh)), status=bool(b))
        return p
    for (kind, s, t) in case["inst"]:
        if kind == "u":
            p.endogenize_unanticipated(start + t, C01.ename(s))
        else:
            p.endogenize_anticipated(start + t, "ant_" + C01.ename(s))
    for (j, t, kind) in case["targ"]:
        if kind == "u":
            p.exogenize_unanticipated(start + t, C01.vname(j))
        else:
            p.exogenize_anticipated(start + t, C01.vname(j))
    return p


def sim_kwargs(case):
    if case["method"] == "first_order":
        return {"method": "first_order", "deviation": case["deviation"]}
    return {"method": "stacked_time", "solver_settings": {"step_tolerance": 1e10}}


def prepare(case, m) -> dict:
    """the driving simulation (shocks e* + background) and the input databox of the planned simulation"""
    spec = case["spec"]
    start, span = periods_of(case["nper"])
    db1 = make_db(m, spec, case, case["estar"] + case["bg"])
    with contextlib.redirect_stdout(io.StringIO()):
        drive = m.simulate(db1, span, method="first_order", deviation=case["deviation"])
    db2 = make_db(m, spec, case, case["bg"])
    for (j, t, _k), eps in zip(case["targ"], case["noise"]):
        v = sv(drive, C01.vname(j), start + t)
        if case["kind"] == "free":
            v = v * math.exp(eps) if spec["logs"][j] else v + eps
        db2[C01.vname(j)][start + t] = v
    return {"db1": db1, "drive": drive, "db2": db2, "span": span, "start": start, "plan": None, "out": None, "error": None}


def run_multi(case, m) -> dict:
    """a case with parameter/data variants: ONE simulate call on the multi-variant model with the multi-column
    databox; rec["per_variant"] = [(single-variant case, its model, acc, its rec with variant k of the output)]"""
    nv = 1 + len(case["variants"])
    start, span = periods_of(case["nper"])
    per = []
    for k in range(nv):
        ck = variant_case(case, k)
        got = (m, None) if (k == 0 or ck["spec"] == case["spec"]) else get_model(ck["spec"])
        if got is None:
            return {"error": None, "skip": True, "per_variant": []}
        per.append([ck, got[0], got[1], prepare(ck, got[0])])
    rec = {"per_variant": per, "span": span, "start": start, "error": None, "out": None, "nv": nv}
    try:
        with contextlib.redirect_stdout(io.StringIO()):
            mm = per[0][1] if case.get("nv_kwarg") else nv_model(case, [p_[1] for p_ in per])
            db2 = merge_dbs([p_[3]["db2"] for p_ in per])
            plan = make_plan(mm, case)
        rec["db2"], rec["plan"] = db2, plan
        kw = dict(sim_kwargs(case), **({"num_variants": nv} if case.get("nv_kwarg") else {}))
    except Exception as e:  # noqa -- the multi-variant object could not be set up: not a case
        rec["skip"] = True
        rec["setup_error"] = f"{type(e).__name__}: {str(e)[:300]}"
        return rec
    try:
        with contextlib.redirect_stdout(io.StringIO()):
            rec["out"] = mm.simulate(db2, span, plan=plan, **kw)
        for k, p_ in enumerate(per):
            p_[3]["out"] = split_db(rec["out"], k, nv)
            p_[3]["plan"] = plan
    except Exception as e:  # noqa
        rec["error"] = f"{type(e).__name__}: {str(e)[:300]}"
    return rec


def run_case(case, m) -> dict:
    """the driving simulation (shocks e* + background), the targets, the planned simulation"""
    if case.get("variants"):
        return run_multi(case, m)
    rec = prepare(case, m)
    db2, span = rec["db2"], rec["span"]
    plan = rec["plan"] = make_plan(m, case)
    try:
        with contextlib.redirect_stdout(io.StringIO()):
            rec["out"] = m.simulate(db2, span, plan=plan, **sim_kwargs(case))
    except Exception as e:  # noqa
        rec["error"] = f"{type(e).__name__}: {str(e)[:300]}"
    return rec


# =====================================================================================
# 3. the property on the public API
# =====================================================================================

def case_input(case):
    c = {k: v for k, v in case.items() if k != "spec"}
    return {"source": C01.render_source(case["spec"])[0], "spec": case["spec"], "case": c}


REPRO = ("harness.C07: m, _ = get_model(spec); rec = run_case(case, m); check_property(case, m, rec)  "
         "# SimulationPlan(m, span); plan.exogenize_*/endogenize_*; m.simulate(db, span, plan=plan, method=...)")


def shape_of(case) -> str:
    return (f"{case['method']}:{case['mode']}" + ("+status-off" if hist_has_off(case) else "")
            + ("+variants" if case.get("variants") else "") + ("(num_variants=)" if case.get("nv_kwarg") else ""))


def check_property(case, m, rec, acc=None) -> list[Failure]:
    if case.get("variants"):
        if rec.get("skip"):
            return []
        inp = case_input(case)
        if rec["error"]:
            return [Failure(f"simulate:raises:{shape_of(case)}", "simulate with an exactly identified plan on a model "
                            f"with {rec['nv']} variants raises {rec['error']}", inp, rec["error"], "a simulation", REPRO)]
        fails = []
        for k, (ck, mk, acck, reck) in enumerate(rec["per_variant"]):
            if acck is None and ck["spec"] == case["spec"]:
                acck = acc
            for f in check_property(ck, mk, reck, acck):
                key = f.key.replace(shape_of(ck), shape_of(case))
                if all(g.key != key for g in fails):
                    fails.append(Failure(key, f"variant {k} of {rec['nv']} (columns of the input databox / parameter "
                                         f"variants of the model): {f.what}", inp, {"variant": k, "cells": f.observed},
                                         f.required, REPRO))
        return fails
    spec = case["spec"]
    shape = shape_of(case)
    inp = case_input(case)
    if rec["error"]:
        return [Failure(f"simulate:raises:{shape}", f"simulate with an exactly identified plan raises {rec['error']}",
                        inp, rec["error"], "a simulation", REPRO)]
    out, db2, db1, drive, start = rec["out"], rec["db2"], rec["db1"], rec["drive"], rec["start"]
    nper = case["nper"]
    fails = []
    icells = {tuple(c) for c in case["inst"]}
    # (1) every exogenized variable equals its input value at every exogenized date
    bad = []
    for (j, t, _k) in case["targ"]:
        a, b = sv(out, C01.vname(j), start + t), sv(db2, C01.vname(j), start + t)
        if not abs(a - b) <= 1e-9 * (1 + abs(b)):
            bad.append({"name": C01.vname(j), "t": t, "observed": a, "input": b})
    if bad:
        fails.append(Failure(f"exogenized-hit:{shape}", "an exogenized variable does not equal its input value at an "
                             "exogenized date", inp, bad[:4], "equal within 1e-9*(1+|x|)", REPRO))
    # (2) only endogenized shocks at endogenized dates differ from their input values
    bad = []
    names = [("u", s, C01.ename(s)) for s in range(spec["nshocks"])] + \
            [("v", s, "ant_" + C01.ename(s)) for s in range(spec["nshocks"])] + \
            [("w", s, C01.wname(s)) for s in range(spec["nw"])]
    for (k, s, nm) in names:
        for t in range(nper):
            if (k, s, t) in icells:
                continue
            a, b = sv(out, nm, start + t), sv(db2, nm, start + t)
            if a != b and not (a != a and b != b):
                bad.append({"name": nm, "t": t, "observed": a, "input": b})
    if bad:
        fails.append(Failure(f"only-endogenized-change:{shape}", "a shock that is not endogenized (or at a date where it "
                             "is not) differs from its input value", inp, bad[:4], "bit-identical to the input", REPRO))
    # (3) the result satisfies the model equations (C01's residual evaluator; leads from the model-consistent continuation)
    vals = [sv(out, C01.vname(j), start + t) for j in range(spec["n"]) for t in range(nper)]
    if not all(np.isfinite(vals)):
        fails.append(Failure(f"path:non-finite:{shape}", "planned simulation returns non-finite values", inp))
        return fails
    if any(spec["logs"][j] and not sv(out, C01.vname(j), start + t) > 0 for j in range(spec["n"]) for t in range(nper)):
        fails.append(Failure(f"path:non-positive:{shape}", "planned simulation returns a non-positive log-variable", inp))
        return fails
    if acc is not None:
        V, Jc = acc[0], acc[1]
        r = C01.property_residual(spec, m, {"deviation": case["deviation"], "nper": nper}, out, rec["span"], Jc, V)
        if case["method"] != "first_order":        # stacked_time does not simulate the measurement block
            r = [x for x in r if not x.startswith("measurement")]
        if r:
            fails.append(Failure(f"equations:{shape}", "the planned simulation does not satisfy the model equations",
                                 inp, r[:4], "|linearised residual| <= 2e-6", REPRO))
    # (4) swap round trip: the driving shocks and the whole path are recovered
    if case["kind"] == "swap":
        bad = []
        for (k, s, t) in case["inst"]:
            nm = shock_name(k, s)
            a, e = sv(out, nm, start + t), sv(db1, nm, start + t)
            if not abs(a - e) <= TOL * (1 + abs(e)):
                bad.append({"shock": nm, "t": t, "recovered": a, "driving": e})
        for j in range(spec["n"]):
            for t in range(nper):
                a, b = sv(out, C01.vname(j), start + t), sv(drive, C01.vname(j), start + t)
                if not abs(a - b) <= TOL * (1 + abs(b)):
                    bad.append({"variable": C01.vname(j), "t": t, "recovered": a, "driving": b})
        if bad:
            fails.append(Failure(f"swap-inverts:{shape}", "exogenizing the simulated values and endogenizing the driving "
                                 "shocks at the same dates does not recover the shocks / the path", inp, bad[:6],
                                 "recovered within 1e-7*(1+|x|)", REPRO))
    return fails


# =====================================================================================
# 4. Coq rendering of a first-order case (lib/PlansCase.v)
# =====================================================================================

HEADER = """From Coq Require Import List ZArith Bool.
From Verif Require Import lib.MatOps model.Kalman model.Plans lib.PlansCase.
Import ListNotations.
Open Scope Z_scope.
Notation C := CFX.
Notation D := (PlansCase.D C).
Set Printing Width 1000000.
Set Printing Depth 1000000.
"""


def _zl(xs):
    return "[" + "; ".join(f"({int(x)})" if x < 0 else f"{int(x)}" for x in xs) + "]"


def _nl(xs):
    return "[" + "; ".join(f"{int(x)}%nat" for x in xs) + "]"


def _bl(xs):
    return "[" + "; ".join("true" if b else "false" for b in xs) + "]"


def _mat(A, rows, colsn):
    A = np.asarray(A, dtype=float).reshape(rows, colsn)
    if colsn == 0:
        return "[" + "; ".join("[]" for _ in range(rows)) + "]"
    return KC.q_mat(A) if rows else "[]"


def layout(case, m):
    """everything the model needs to know about the model object: solution matrices, vector descriptors, row numbering"""
    spec = case["spec"]
    dev = case["deviation"]
    sol = m._gets_solution(deviation=dev)
    vec = m._get_dynamic_solution_vectors()
    q2n = m.create_qid_to_name()
    logly = m.create_qid_to_logly()
    curr_qids, curr_idx = vec.get_curr_transition_indexes()
    tv = [(q2n[t.qid], int(t.shift or 0)) for t in vec.transition_variables]
    u_names = [q2n[t.qid] for t in vec.transition_shocks]
    v_names = [q2n[t.qid] for t in vec.anticipated_shock_values]
    w_names = [q2n[t.qid] for t in vec.measurement_shocks]
    y_names = [q2n[t.qid] for t in vec.measurement_variables]
    curr_names = [q2n[q] for q in curr_qids]
    std_names = ["std_" + nm for nm in u_names]
    names = []
    for nm in [x for x, _ in tv] + curr_names + u_names + v_names + w_names + y_names + std_names:
        if nm not in names:
            names.append(nm)
    n2q = {v: k for k, v in q2n.items()}
    return {
        "sol": sol, "names": names, "row": {nm: i for i, nm in enumerate(names)},
        "log": {nm: bool(logly.get(n2q[nm], False)) if nm in n2q else False for nm in names},
        "tv": tv, "true_init": [bool(b) for b in vec.true_initials], "curr_idx": [int(i) for i in curr_idx],
        "curr_names": curr_names, "u_names": u_names, "v_names": v_names, "w_names": w_names, "y_names": y_names,
        "std_names": std_names,
    }


def coq_case(idx, case, m, rec, outs) -> tuple[str, dict] | None:
    """Definition of case idx and the evaluation of its failing cells, for each expected array in `outs`
    ({label: (databox, row names compared)}); None when the case cannot be expressed (missing data)."""
    spec = case["spec"]
    L = layout(case, m)
    sol = L["sol"]
    nper = case["nper"]
    start = rec["start"]
    lag = 1 - min(min(sh for _, sh in L["tv"]), 0)
    ncols = lag + nper
    T = np.array(sol.T, dtype=float)
    n = T.shape[0]
    nu, nw, ny = len(L["u_names"]), len(L["w_names"]), len(L["y_names"])
    P = np.array(sol.P, dtype=float).reshape(n, nu)
    nf = int(np.array(sol.J).shape[0]) if np.array(sol.J).ndim == 2 else 0
    X = np.array(sol.X, dtype=float).reshape(n, nf)
    J = np.array(sol.J, dtype=float).reshape(nf, nf)
    Ru = np.array(sol.Ru, dtype=float).reshape(nf, nu)
    K = np.array(sol.K, dtype=float).reshape(n)
    Z = np.array(sol.Z, dtype=float).reshape(ny, n)
    H = np.array(sol.H, dtype=float).reshape(ny, nw)
    Dm = np.zeros(ny) if case["deviation"] else np.array(sol.D, dtype=float).reshape(ny)
    # the data array in logs, columns start-lag .. end
    db2 = rec["db2"]
    A = np.zeros((len(L["names"]), ncols))
    needed = set()
    for (nm, sh), ti in zip(L["tv"], L["true_init"]):
        if ti:
            needed.add((nm, lag - 1 + sh))
    for nm in L["names"]:
        for c in range(ncols):
            try:
                v = sv(db2, nm, start - lag + c)
            except Exception:  # noqa
                v = float("nan")
            if L["log"][nm] and v == v:
                v = math.log(v) if v > 0 else float("nan")
            if v != v or math.isinf(v):
                if (nm, c) in needed or (c >= lag and nm in L["u_names"] + L["v_names"] + L["w_names"] + L["std_names"]):
                    return None
                v = 0.0
            A[L["row"][nm], c] = v
    # the registers in the order of the names of the model source
    var_names = [C01.vname(j) for j in range(spec["n"])]
    sh_names = [C01.ename(s) for s in range(spec["nshocks"])]

    def reg(rows, cells):
        R = [[False] * nper for _ in rows]
        for (i, t) in cells:
            R[i][t] = True
        return "[" + "; ".join(_bl(r) for r in R) + "]"
    exog_ant = reg(var_names, [(j, t) for (j, t, k) in case["targ"] if k == "a"])
    exog_un = reg(var_names, [(j, t) for (j, t, k) in case["targ"] if k == "u"])
    endog_un = reg(sh_names, [(s, t) for (k, s, t) in case["inst"] if k == "u"])
    endog_ant = reg(sh_names, [(s, t) for (k, s, t) in case["inst"] if k == "v"])
    row = L["row"]
    toks = "[" + "; ".join(f"({row[nm]}, ({sh}))" for nm, sh in L["tv"]) + "]"
    txt = (f"Definition case_{idx} := @mkCase C {n} {nu} {nw} {nf} {ny}\n"
           f"  {_mat(T, n, n)} {_mat(P, n, nu)} {KC.q_col(K)} {_mat(X, n, nf)} {_mat(J, nf, nf)} {_mat(Ru, nf, nu)}\n"
           f"  {_mat(Z, ny, n)} {_mat(H, ny, nw)} {KC.q_col(Dm) if ny else '[]'}\n"
           f"  {_nl(L['curr_idx'])} {toks} {_bl(L['true_init'])}\n"
           f"  {_zl(row[x] for x in L['curr_names'])} {_zl(row[x] for x in L['u_names'])} {_zl(row[x] for x in L['v_names'])} "
           f"{_zl(row[x] for x in L['w_names'])} {_zl(row[x] for x in L['y_names'])} {_zl(row[x] for x in L['std_names'])}\n"
           f"  {lag} {nper}%nat {exog_ant} {exog_un} {endog_un} {endog_ant}\n"
           f"  {KC.q_mat(A)}.\n")
    labels = {}
    cmps = []
    for lab, (box, cmp_names) in outs.items():
        rows, exps = [], []
        for nm in cmp_names:
            vals = []
            for t in range(nper):
                try:
                    v = sv(box, nm, start + t)
                except Exception:  # noqa
                    v = float("nan")
                if L["log"][nm] and v == v:
                    v = math.log(v) if v > 0 else float("nan")
                vals.append("None" if (v != v or math.isinf(v)) else f"(Some {KC.q_lit(v)})")
            rows.append(row[nm])
            exps.append("[" + "; ".join(vals) + "]")
        cmps.append(f"({_zl(rows)}, [{'; '.join(exps)}])")
        labels[lab] = cmp_names
    txt += f"Eval vm_compute in (check_case C case_{idx} [{'; '.join(cmps)}]).\n"
    return txt, {"layout": L, "lag": lag, "labels": labels}


def parse_cells(body: str) -> list[list[tuple[int, int]]]:
    """[[ (r, c); ... ]; ...] -> one list of cells per compared output"""
    out = []
    for part in _ints(body):
        out.append([tuple(x) for x in part])
    return out


# =====================================================================================
# 5. plan bookkeeping: histories of calls on a real SimulationPlan vs model/Plans.v Part A
# =====================================================================================

_REG = ["exogenized_anticipated", "exogenized_unanticipated", "endogenized_unanticipated", "endogenized_anticipated"]
_RCOQ = {"exogenized_anticipated": "ExogAnt", "exogenized_unanticipated": "ExogUnant",
         "endogenized_unanticipated": "EndogUnant", "endogenized_anticipated": "EndogAnt"}
_METHOD = {"exogenized_anticipated": "exogenize_anticipated", "exogenized_unanticipated": "exogenize_unanticipated",
           "endogenized_unanticipated": "endogenize_unanticipated", "endogenized_anticipated": "endogenize_anticipated"}

_BOOK_MODEL = """!transition-variables
  x1, x2, x3
!transition-shocks
  e1, e2
!transition-equations
  x1 = 0.5*x1{-1} + 0.1*x2{+1} + e1;
  x2 = 0.4*x2{-1} + 0.2*x1 + e2;
  x3 = 0.3*x3{-1} + x1;
"""
_BOOK = {}


def book_model():
    import irispie as ir
    if "m" not in _BOOK:
        with contextlib.redirect_stdout(io.StringIO()):
            m = ir.Simultaneous.from_string(_BOOK_MODEL, linear=True)
            m.steady()
            m.solve()
        _BOOK["m"] = m
    return _BOOK["m"]


def gen_history(rng) -> dict:
    nper = rng.randint(1, 7)
    s0 = rng.randint(8000, 8100)
    nvar, nsh = 3, 2
    calls = []
    for _ in range(rng.randint(0, 9)):
        def dates():
            r = rng.random()
            if r < 0.15:
                return None                                   # `...`
            k = rng.choice([1, 1, 2, 3])
            lo, hi = (s0 - 2, s0 + nper + 1) if rng.random() < 0.2 else (s0, s0 + nper - 1)
            return [rng.randint(lo, hi) for _ in range(k)]
        if rng.random() < 0.25:
            ant = rng.random() < 0.5
            pairs = [[rng.randrange(nvar + (1 if rng.random() < 0.1 else 0)), rng.randrange(nsh + (1 if rng.random() < 0.1 else 0))]
                     for _ in range(rng.choice([0, 1, 1, 2]))]
            calls.append({"op": "swap", "ant": ant, "dates": dates(), "pairs": pairs, "status": rng.random() < 0.85})
        else:
            reg = rng.choice(_REG)
            cnt = nvar if reg.startswith("exog") else nsh
            r = rng.random()
            if r < 0.15:
                names = None
            else:
                names = [rng.randrange(cnt + (1 if rng.random() < 0.12 else 0)) for _ in range(rng.choice([1, 1, 2]))]
            calls.append({"op": "write", "reg": reg, "dates": dates(), "names": names, "single": bool(names and len(names) == 1 and rng.random() < 0.5),
                          "status": rng.random() < 0.8})
    probes = [rng.randint(s0 - 2, s0 + nper + 1) for _ in range(4)]
    return {"start": s0, "nper": nper, "calls": calls, "probes": probes}


def _name(reg, i):
    if reg.startswith("exog"):
        return f"x{i + 1}"
    return f"e{i + 1}" if reg == "endogenized_unanticipated" else f"ant_e{i + 1}"


def run_history(h) -> dict:
    """apply the calls to a real plan; returns registers, results and views in canonical form"""
    import irispie as ir
    from irispie import wrongdoings as wd
    from harness.C06 import _qq
    m = book_model()
    s0, nper = h["start"], h["nper"]
    span = ir.Span(_qq(s0), _qq(s0 + nper - 1))
    plan = ir.SimulationPlan(m, span)
    results = []
    for c in h["calls"]:
        dts = ... if c["dates"] is None else [_qq(d) for d in c["dates"]]
        try:
            if c["op"] == "write":
                if c["names"] is None:
                    nms = ...
                elif c["single"]:
                    nms = _name(c["reg"], c["names"][0])
                else:
                    nms = [_name(c["reg"], i) for i in c["names"]]
                getattr(plan, _METHOD[c["reg"]])(dts, nms, status=c["status"])
            else:
                rx = "exogenized_anticipated" if c["ant"] else "exogenized_unanticipated"
                rn = "endogenized_anticipated" if c["ant"] else "endogenized_unanticipated"
                pairs = [(_name(rx, a), _name(rn, b)) for a, b in c["pairs"]]
                (plan.swap_anticipated if c["ant"] else plan.swap_unanticipated)(dts, pairs, status=c["status"])
            results.append(0)
        except wd.IrisPieCritical:
            results.append(1)
        except wd.IrisPieError:
            results.append(2)
    code = {None: 0, False: 1, True: 2}
    regs = {}
    for r in _REG:
        d = plan.get_register_by_name(r)
        regs[r] = [[code[x] if (x is None or isinstance(x, bool)) else 9 for x in d[k]] for k in d.keys()]
    probes = [_qq(d) for d in h["probes"]]
    views = {"bool": {}, "periods": {}, "in_period": {}}
    for r in _REG:
        views["bool"][r] = plan.get_register_as_bool_array(r, ..., probes).astype(int).tolist()
        got = getattr(plan, "get_" + r)()
        views["periods"][r] = [[int(p.serial) for p in got[k]] for k in got.keys()]
        if r != "endogenized_anticipated":       # get_endogenized_anticipated_in_period reads the wrong register (reported)
            keys = list(plan.get_register_by_name(r).keys())
            views["in_period"][r] = [[keys.index(nm) for nm in getattr(plan, f"get_{r}_in_period")(_qq(s0 + k))]
                                     for k in range(nper)]
    views["is_empty"] = bool(plan.is_empty)
    views["ant_except_start"] = bool(plan.any_endogenized_anticipated_except_start)
    views["unant_except_start"] = bool(plan.any_endogenized_unanticipated_except_start)
    return {"registers": regs, "results": results, "views": views}


BOOK_HEADER = """From Coq Require Import List ZArith Bool.
From Verif Require Import lib.CaseUtil model.Plans.
Import ListNotations.
Open Scope Z_scope.
Set Printing Width 1000000.
Set Printing Depth 1000000.
Definition scode (s : status) : Z := match s with SNone => 0 | SFalse => 1 | STrue => 2 end.
Definition rcode (r : result) : Z := match r with ROk => 0 | RInvalidNames => 1 | RInvalidPeriods => 2 end.
Definition bz (b : bool) : Z := if b then 1 else 0.
Definition regs := [ExogAnt; ExogUnant; EndogUnant; EndogAnt].
Definition observe (p0 : plan) (cs : list call) (probes : list Z) :=
  let '(p, rs) := apply_calls p0 cs in
  (map (fun r => map (map scode) (get_register p r)) regs, map rcode rs,
   map (fun r => map (map bz) (bool_array_all p r probes)) regs,
   map (fun r => registered_periods p r) regs,
   map (fun r => map (fun k => map Z.of_nat (names_in_period p r (pl_start p + Z.of_nat k))) (seq 0 (pl_nper p))) [ExogAnt; ExogUnant; EndogUnant],
   [bz (plan_is_empty p); bz (any_except_start p EndogAnt); bz (any_except_start p EndogUnant)]).
"""


def coq_history(idx, h) -> str:
    def sel(xs, nat=False):
        if xs is None:
            return "All"
        return "(These " + (_nl(xs) if nat else _zl(xs)) + ")"
    cs = []
    for c in h["calls"]:
        if c["op"] == "write":
            cs.append(f"Write {_RCOQ[c['reg']]} {sel(c['dates'])} {sel(c['names'], True)} {core.coq_bool(c['status'])}")
        else:
            pairs = "[" + "; ".join(f"({a}%nat, {b}%nat)" for a, b in c["pairs"]) + "]"
            cs.append(f"Swap {core.coq_bool(c['ant'])} {sel(c['dates'])} {pairs} {core.coq_bool(c['status'])}")
    return (f"Eval vm_compute in (observe (new_plan {h['start']} {h['nper']}%nat 3%nat 2%nat) "
            f"[{'; '.join(cs)}] {_zl(h['probes'])}).\n")


def _ints(body):
    """nested Coq lists / tuples of integers -> nested Python lists"""
    s = re.sub(r"%[A-Za-z]+", "", body)
    s = s.replace(";", ",").replace("(", "[").replace(")", "]")
    s = re.sub(r"\s+", "", s)
    return json.loads(s)


def expected_observation(r) -> list:
    v = r["views"]
    return [[r["registers"][x] for x in _REG], r["results"], [v["bool"][x] for x in _REG], [v["periods"][x] for x in _REG],
            [v["in_period"][x] for x in _REG[:3]], [int(v["is_empty"]), int(v["ant_except_start"]), int(v["unant_except_start"])]]


def book_correspondence(ctx, n_hist) -> tuple[int, int, list, dict]:
    hs = [gen_history(ctx.rng) for _ in range(n_hist)]
    impl = []
    for h in hs:
        try:
            impl.append(run_history(h))
        except Exception as e:  # noqa
            impl.append({"error": f"{type(e).__name__}: {e}"[:300]})
    per = 250
    shards, owners = [], []
    for a in range(0, len(hs), per):
        shards.append(BOOK_HEADER + "".join(coq_history(i, h) for i, h in enumerate(hs[a:a + per])))
        owners.append(list(range(a, min(a + per, len(hs)))))
    res = core.run_cases(ctx, shards, prefix="book")
    dis = []
    dist = {"histories": len(hs), "calls": sum(len(h["calls"]) for h in hs), "raising_calls": 0, "swap_calls": 0}
    nontrivial = 0
    for (ok, out), own in zip(res, owners):
        if not ok:
            dis.append(Disagreement("bookkeeping:coq-error", None, out[-600:], None))
            continue
        bodies = core.parse_eval_lists(out)
        if len(bodies) != len(own):
            dis.append(Disagreement("bookkeeping:parse", None, f"{len(bodies)} results for {len(own)} histories", None))
            continue
        for body, i in zip(bodies, own):
            if "error" in impl[i]:
                dis.append(Disagreement("bookkeeping:impl-raises", hs[i], None, impl[i]["error"]))
                continue
            model = _ints(body)
            want = expected_observation(impl[i])
            dist["raising_calls"] += sum(1 for x in impl[i]["results"] if x)
            dist["swap_calls"] += sum(1 for c in hs[i]["calls"] if c["op"] == "swap")
            nontrivial += bool(hs[i]["calls"])
            if model != want:
                part = next((k for k, (a, b) in enumerate(zip(model, want)) if a != b), -1)
                what = ["registers", "results", "bool_array", "get_<register>", "get_*_in_period", "flags"][part]
                dis.append(Disagreement(f"bookkeeping:{what}", hs[i], model[part], want[part]))
    return len(hs), nontrivial, dis, dist


# =====================================================================================
# 6. correspondence
# =====================================================================================

def collect_cases(ctx, n_cases, method_share=0.25):
    """(case, model, acc, rec) for first-order cases; a share of exactly linear ones is also run with stacked_time"""
    rng = ctx.rng
    out = []
    tries = 0
    while len(out) < n_cases and tries < 40 * n_cases:
        tries += 1
        spec, _acc = C01.gen_determinate(rng, ctx.scale(8, 10))
        got = get_model(spec)
        if got is None:
            continue
        m, acc = got
        try:
            case = gen_case(rng, spec, m, "first_order", p_hist=0.35, p_var=0.25)
        except Exception:  # noqa -- the plain simulations used to pick a plan failed: not a plan case
            case = None
        if case is None:
            continue
        rec = run_case(case, m)
        if case.get("variants"):
            # one entry per variant: variant k of the output of the ONE multi-variant call against the model of the
            # frame loop evaluated on variant k's parameters (solution matrices) and variant k's input columns
            if rec.get("skip"):
                continue
            if rec["error"]:
                out.append((case, m, acc, rec, None, None))
                continue
            for k, (ck, mk, acck, reck) in enumerate(rec["per_variant"]):
                out.append((ck, mk, acck or acc, reck, None, (case, k)))
            continue
        rec2 = None
        if truly_linear(spec) and rng.random() < method_share * 2.5:
            c2 = dict(case, method="stacked_time", deviation=False)
            if not case["deviation"]:
                rec2 = (c2, run_case(c2, m))
        out.append((case, m, acc, rec, rec2, None))
    return out


def correspondence(ctx) -> CorrResult:
    res = CorrResult(rule="(a) a history of plan calls on a fresh SimulationPlan: registers, raised errors and views equal the "
                          "model's exactly; (b) one planned simulation: every returned cell of the transition variables, "
                          "shocks, anticipated shocks, measurement shocks and measurement variables over the span equals "
                          "the model within 1e-7*(1+|x|) (non-trivial = at least one endogenized cell; distinct = distinct "
                          "model x plan)")
    # (a) bookkeeping
    nh, nontriv_h, dis_h, dist_h = book_correspondence(ctx, ctx.scale(600, 20000))
    res.disagreements += dis_h
    res.shards += max(1, (nh + 249) // 250)
    # (b) conditional simulation
    cases = collect_cases(ctx, ctx.scale(150, 3500))
    per = 6
    shards, owners = [], []
    metas = {}
    cur, own = HEADER, []
    dist = {"mode": {}, "kind": {}, "deviation": 0, "log_models": 0, "frames>1": 0, "stacked_time_also": 0,
            "endogenized_cells": 0, "anticipated_cells": 0, "not_expressible": 0, "impl_errors": 0,
            "variant_entries": 0, "variant_entries_own_parameters": 0, "status_off_histories": 0}
    for i, (case, m, acc, rec, rec2, parent) in enumerate(cases):
        if parent is not None:
            dist["variant_entries"] += 1
            dist["variant_entries_own_parameters"] += bool(parent[1] > 0 and parent[0]["variants"][parent[1] - 1].get("factor"))
        dist["status_off_histories"] += bool(hist_has_off(case) and (parent is None or parent[1] == 0))
        if rec["error"]:
            dist["impl_errors"] += 1
            res.disagreements.append(Disagreement("simulate:raises", case_input(case), None, rec["error"]))
            continue
        L0 = layout(case, m)
        all_names = L0["curr_names"] + L0["u_names"] + L0["v_names"] + L0["w_names"] + L0["y_names"]
        outs = {"first_order": (rec["out"], all_names)}
        if rec2 is not None and rec2[1]["error"] is None:
            outs["stacked_time"] = (rec2[1]["out"], L0["curr_names"] + L0["u_names"] + L0["v_names"])
            dist["stacked_time_also"] += 1
        elif rec2 is not None:
            res.disagreements.append(Disagreement("simulate:raises:stacked_time", case_input(rec2[0]), None, rec2[1]["error"]))
        got = coq_case(i, case, m, rec, outs)
        if got is None:
            dist["not_expressible"] += 1
            continue
        txt, meta = got
        metas[i] = meta
        cur += txt
        own.append((i, list(outs.keys())))
        dist["mode"][case["mode"]] = dist["mode"].get(case["mode"], 0) + 1
        dist["kind"][case["kind"]] = dist["kind"].get(case["kind"], 0) + 1
        dist["deviation"] += bool(case["deviation"])
        dist["log_models"] += bool(any(case["spec"]["logs"]))
        dist["endogenized_cells"] += len(case["inst"])
        dist["anticipated_cells"] += sum(1 for k, _, _ in case["inst"] if k == "v")
        dist["frames>1"] += n_frames(case) > 1
        if len(own) >= per:
            shards.append(cur); owners.append(own); cur, own = HEADER, []
    if own:
        shards.append(cur); owners.append(own)
    # 2^-384 fixed-point Kalman runs: 10-20 s of CPU per shard; the default 600 s per file is too short when the machine
    # is heavily loaded by other checks (a timed-out shard would be reported as a coq-error disagreement)
    results = core.run_cases(ctx, shards, prefix="cond", timeout=2400)
    evaluated = 0
    for (ok, out), own in zip(results, owners):
        if not ok:
            res.disagreements.append(Disagreement("conditional:coq-error", None, out[-800:], None))
            continue
        bodies = core.parse_eval_lists(out)
        if len(bodies) != len(own):
            res.disagreements.append(Disagreement("conditional:parse", None, f"{len(bodies)} results", None))
            continue
        for body, (i, labs) in zip(bodies, own):
            case, m, acc, rec, rec2, parent = cases[i]
            per_out = parse_cells(body)
            for lab, cells in zip(labs, per_out):
                evaluated += 1
                if not cells:
                    continue
                # re-check the property itself on the implementation's output before reporting
                c_used, r_used = (case, rec) if lab == "first_order" else rec2
                fs = check_property(c_used, m, r_used, acc)
                names = metas[i]["layout"]["names"]
                lag = metas[i]["lag"]
                where = f"conditional:{lab}:{case['mode']}"
                d_inp = case_input(c_used)
                if parent is not None:       # the falsifier re-runs the whole multi-variant call
                    where += f":variant-{'0' if parent[1] == 0 else 'k'}-of-multi-variant-call"
                    d_inp = case_input(parent[0])
                res.disagreements.append(Disagreement(
                    where, d_inp,
                    {"cells_differing": [(names[r], c - lag) for r, c in cells[:8]]},
                    {"property_failures": [f.key for f in fs], "variant": None if parent is None else parent[1]}))
    res.evaluations = nh + evaluated
    res.distinct_nontrivial = nontriv_h + len({json.dumps([case_input(c[0])["case"], c[0]["spec"]], sort_keys=True, default=str) for c in cases})
    res.shards += len(shards)
    res.distribution = {"bookkeeping": dist_h, "conditional": dist}
    res.samples = [{"plan_history": gen_history(ctx.rng)}] + [
        {"source": C01.render_source(c[0]["spec"])[0], "case": {k: v for k, v in c[0].items() if k != "spec"}}
        for c in cases[:2]]
    return res


# =====================================================================================
# 7. falsifier
# =====================================================================================

def nonlinear_round_trip(rng) -> tuple[list[Failure], int]:
    """stacked_time on a nonlinear model of C06: simulate with one shock, exogenize the simulated variable and endogenize
    the shock at the same date (unanticipated, or anticipated in the first period), recover shock and path"""
    from harness import C06
    spec = C06.gen_model(rng, rng.choice(["nonlinear", "nonlinear", "linear"]))
    # C07 uses the single-variant, current-dated-shock core of C06's generator: parameter variants, lagged shocks and
    # deep exogenous shifts are C06's own test classes (lagged shocks are mistimed by the first-order guess/terminal,
    # see the KNOWN-FINDING of C01) and would only add noise to the swap round trip
    spec["nv"] = 1
    spec["rho_v"] = spec["rho_v"][:1]
    for e_ in spec["eqs"]:
        e_["sl"] = None
        e_["ws"] = 0
    cand = [i for i in range(spec["n"]) if spec["eqs"][i]["shock"]]
    i = rng.choice(cand)
    T = rng.randint(2, 7)
    ant = rng.random() < 0.4
    inp = {"nonlinear": True, "spec": spec, "shock": ("ant_" if ant else "") + f"e{i}", "variable": f"x{i}",
           "offset": 0 if ant else rng.randrange(T), "value": round(rng.uniform(0.05, 0.3) * rng.choice([-1, 1]), 3),
           "start": 8000 + rng.randint(0, 40), "nper": T}
    return run_nonlinear(inp)


def run_nonlinear(inp) -> tuple[list[Failure], int]:
    import irispie as ir
    from harness import C06
    spec = inp["spec"]
    spec["eqs"] = [dict(e, terms=[dict(t, f=[tuple(x) for x in t["f"]]) for t in e["terms"]],
                        sq=[tuple(x) for x in e["sq"]]) for e in spec["eqs"]]
    m = C06.build_model(spec)
    if m is None:
        return [], 0
    n = spec["n"]
    sh, var, t, val, s0, T = inp["shock"], inp["variable"], inp["offset"], inp["value"], inp["start"], inp["nper"]
    ant = sh.startswith("ant_")
    span = ir.Span(C06._qq(s0), C06._qq(s0 + T - 1))
    inp = dict(inp, model=C06.model_source(spec))
    kw = dict(method="stacked_time", when_fails="silent", return_info=True, solver_settings={"step_tolerance": 1e10})
    try:
        with contextlib.redirect_stdout(io.StringIO()):
            db = ir.Databox.steady(m, span, deviation=False)
            db[sh][C06._qq(s0 + t)] = val
            drive, info1 = m.simulate(db, span, **kw)
            if not all(st.is_success for st in info1["exit_status"]):
                return [], 0
            db2 = ir.Databox.steady(m, span, deviation=False)
            db2[var][C06._qq(s0 + t)] = C06._val(drive[var], s0 + t)
            plan = ir.SimulationPlan(m, span)
            if ant:
                plan.swap_anticipated(C06._qq(s0 + t), (var, sh))
            else:
                plan.swap_unanticipated(C06._qq(s0 + t), (var, sh))
            out, info2 = m.simulate(db2, span, plan=plan, **kw)
    except Exception as e:  # noqa
        return [Failure("simulate:raises:stacked_time:nonlinear", f"stacked_time swap raises {type(e).__name__}: {e}"[:300], inp)], 1
    if not all(st.is_success for st in info2["exit_status"]):
        return [], 1          # the property is conditional on the solver reporting success
    bad = []
    a = C06._val(out[sh], s0 + t)
    if not abs(a - val) <= 1e-6 * (1 + abs(val)):
        bad.append({"shock": sh, "recovered": a, "driving": val})
    a, b = C06._val(out[var], s0 + t), C06._val(db2[var], s0 + t)
    if not abs(a - b) <= 1e-9 * (1 + abs(b)):
        bad.append({"exogenized": var, "observed": a, "input": b})
    for j in range(n):
        for k in range(T):
            a, b = C06._val(out[f"x{j}"], s0 + k), C06._val(drive[f"x{j}"], s0 + k)
            if not abs(a - b) <= 1e-6 * (1 + abs(b)):
                bad.append({"variable": f"x{j}", "offset": k, "recovered": a, "driving": b})
    for j in range(n):
        if spec["eqs"][j]["shock"]:
            for k in range(T):
                for nm in (f"e{j}", f"ant_e{j}"):
                    if nm == sh and k == t:
                        continue
                    a, b = C06._val(out[nm], s0 + k), C06._val(db2[nm], s0 + k)
                    if a != b and not (a != a and b != b):
                        bad.append({"shock": nm, "offset": k, "observed": a, "input": b})
    if bad:
        return [Failure("swap-inverts:stacked_time:nonlinear", "nonlinear stacked-time swap does not recover the shock / "
                        "the path, misses the exogenized value, or changes another shock", inp, bad[:5],
                        "recovered within 1e-6*(1+|x|)",
                        "harness.C07.run_nonlinear(input)  # plan.swap_*(date, (variable, shock)); simulate(method='stacked_time')")], 1
    return [], 1


def falsify(ctx, hints):
    rng = ctx.rng
    fails: list[Failure] = []
    info = {"cases": {}, "checks": 0, "skipped": 0, "nonlinear_stacked_round_trips": 0, "status_off_histories": 0,
            "multi_variant_cases": 0, "variants_with_own_parameters": 0}

    def add(fs):
        for f in fs:
            if all(g.key != f.key for g in fails):
                fails.append(f)
    # inputs on which the correspondence disagreed come first
    for d in hints.get("disagreements", []):
        inp = d.get("input") or {}
        if isinstance(inp, dict) and "spec" in inp and "case" in inp:
            case = dict(inp["case"], spec=inp["spec"])
            got = get_model(case["spec"])
            if got is None:
                continue
            m, acc = got
            add(check_property(case, m, run_case(case, m), acc))
    plan_ = [("first_order", None, ctx.scale(70, 2500)), ("stacked_time", None, ctx.scale(30, 800))]
    for method, mode, count in plan_:
        done = tries = 0
        while done < count and tries < 60 * count and len(fails) < 8:
            tries += 1
            spec, _a = C01.gen_determinate(rng, ctx.scale(8, 10))
            if method == "stacked_time" and not truly_linear(spec):
                continue
            got = get_model(spec)
            if got is None:
                info["skipped"] += 1
                continue
            m, acc = got
            try:
                case = gen_case(rng, spec, m, method, mode, p_hist=0.4, p_var=0.35)
            except Exception:  # noqa
                case = None
            if case is None:
                info["skipped"] += 1
                continue
            rec = run_case(case, m)
            if rec.get("skip"):
                info["skipped"] += 1
                continue
            add(check_property(case, m, rec, acc))
            done += 1
            info["status_off_histories"] += hist_has_off(case)
            info["multi_variant_cases"] += bool(case.get("variants"))
            info["variants_with_own_parameters"] += sum(1 for v in case.get("variants", []) if v.get("factor"))
            key = f"{shape_of(case)}:{case['kind']}"
            info["cases"][key] = info["cases"].get(key, 0) + 1
            info["checks"] += 4 if case["kind"] == "swap" else 3
    for _ in range(ctx.scale(25, 600)):
        fs, k = nonlinear_round_trip(rng)
        info["nonlinear_stacked_round_trips"] += k
        add(fs)
    return fails, info


def replay(ctx, failure: dict):
    inp = failure.get("input") or {}
    if inp.get("nonlinear"):
        fs, _ = run_nonlinear({k: v for k, v in inp.items() if k != "model"})
        return fs[0] if fs else None
    if "case" in inp and "spec" in inp:
        case = dict(inp["case"], spec=inp["spec"])
        got = get_model(case["spec"])
        if got is None:
            return None
        m, acc = got
        fs = check_property(case, m, run_case(case, m), acc)
        for f in fs:
            if f.key == failure.get("key"):
                return f
        return fs[0] if fs else None
    return None
