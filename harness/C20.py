"""C20  Copies, pickles and parameter variants are independent, equivalent models.

Three Coq models (model/Heap.v, model/Variants.v, model/Portable.v) with theorems restated in props/C20.v, tied to
the implementation by
  (a) the REAL object graphs of an original model and its copy / pickle / dill / file round trip, extracted with
      gc.get_referents and evaluated by the proved checker `no_shared_mutable` inside Coq (vm_compute);
  (b) histories of alter_num_variants / assign (exhaust-then-last broadcasting) replayed on real models and on
      model/Variants.v::run, compared exactly;
  (c) the JSON value produced by Simultaneous.to_portable compared with model/Portable.v::encode of the description read
      through the public getters, and decode of it compared with the description of the model rebuilt by from_portable.
The behavioural half of the property ("behaves identically", "mutating either never affects the other", "variant k =
single-variant model") is differential testing against the same implementation on random interleavings of public
operations (the falsifier); no independent model of steady/solve/simulate is claimed here (C01/C03/C05/C06).
"""
from __future__ import annotations

import contextlib
import copy as _copy
import enum
import gc
import io
import json
import math
import os
import pickle
import sys
import tempfile
import types

import numpy as np

from vf import core
from vf.core import CorrResult, Disagreement, Failure
from translator import portable as trp

ID = "C20"
PROPS = "props/C20.v"
GENERATED = [trp.OUT]
CASE_DEPS = ["model/Heap.vo", "model/Variants.vo", "model/Portable.vo"]
ALLOWED_AXIOMS: set = set()
TRUSTED = [
    "translator/portable.py (kind codes, kind order, format tag and dictionary keys of to_portable -> gen/PortableGen.v)",
    "object-graph extraction in harness/C20.py: gc.get_referents closure from the two roots; modules, classes and module "
    "dictionaries are cut; immutable leaves (str, numbers, None, enum members, Period, code objects, numpy scalars/dtypes) "
    "are dropped; tuple/frozenset/function/method/cell are immutable containers; dict/list/set/ndarray/instances are mutable",
    "the private globals dictionary of a function compiled by irispie.makers.make_function (reachable only as __globals__/"
    "__builtins__ of compiled functions) is classified immutable-by-contract; the harness checks after every history that "
    "its keys and value identities are unchanged",
    "CPython pickle/dill/copy/json as executed",
]
ASSUMPTIONS = [
    "the heap theorems quantify over in-place writes and allocations by a party that holds one root; Python-level "
    "mutation through other channels (ctypes, gc, frame inspection, monkey patching of classes/modules) is outside",
    "'behaves identically' and 'variant k equals the single-variant model' are checked differentially (exact equality "
    "between original and copy, 1e-12 relative between variant k and the singleton); solve/steady/simulate themselves are "
    "the subject of C01/C05/C06",
    "context functions are not part of the portable representation (contexts.py writes the names only)",
]
MANIFEST = {
    "technique": "Coq proof of a heap non-interference theorem with a verified executable checker run on the real object "
                 "graphs; Coq model of variant broadcasting / alter_num_variants and of the portable codec; differential "
                 "testing of copies, pickles and variants on random operation interleavings",
    "level_text": "Theorems (props/C20.v): (1) if the verified checker finds no mutable object reachable from both roots, then no "
                  "sequence and no interleaving of in-place writes and allocations through one root changes any local observation "
                  "from the other (induction over the run; guard shown necessary and satisfiable); (2) after ANY history of assign "
                  "(exhaust-then-last), per-variant operations and alter_num_variants, variant k equals its projected history run on "
                  "a single-variant model; alter_num_variants laws; (3) decode(encode m) = m for the portable codec (names, kinds, "
                  "log status, descriptions, equations, flags, context names, level/change values), with the needed guard shown "
                  "necessary.  Ties: real object graphs of Simultaneous/Sequential/RedVAR and their copy()/deepcopy/pickle/dill/"
                  "save-load clones evaluated by the checker in Coq; assign/alter histories and to_portable/from_portable compared "
                  "exactly with the models.",
    "level_note": "partial: behavioural equivalence of copies and of variant k vs singleton is differential testing against the same "
                  "implementation; mutability is by type; JSON text syntax and float printing are trusted glue.",
}



def translate(ctx):
    trp.run()



@contextlib.contextmanager
def quiet():
    buf = io.StringIO()
    with contextlib.redirect_stdout(buf):
        yield


# =============================================================================================== model families

def ctx_pw(x, e):
    """context function used by template N2 (must be importable for plain pickle)"""
    return x ** e


SIM_TEMPLATES = {
    # linear, forward-looking, measurement block
    "L1": dict(src="""
!transition-variables
  "Driver" x, "Follower" y
!transition-shocks
  ex, ey
!parameters
  rho, ss, a, b
!transition-equations
  "AR" x = rho*x[-1] + (1-rho)*ss + ex;
  y = a*x[+1] + b*y[-1] + ey;
!measurement-variables
  ox, oy
!measurement-shocks
  w
!measurement-equations
  ox = x + w;
  oy = y;
""", flags=dict(linear=True), base=dict(rho=0.8, ss=2.0, a=0.3, b=0.5), vary=dict(rho=(0.1, 0.9), ss=(0.5, 3.0), a=(-0.4, 0.4), b=(0.1, 0.8)),
               init={}, shock="ex", watch=("x", "y", "ox", "oy"), portable=True, filterable=True),
    # linear, three variables, two leads, no measurement
    "L2": dict(src="""
!transition-variables
  p, q, r
!transition-shocks
  ep, eq
!parameters
  c1, c2, c3, m
!transition-equations
  p = c1*p[-1] + c2*q + ep;
  q = c3*q[+1] + (1-c3)*q[-1] - 0.1*(r - m) + eq !! q = q[-1] - 0.1*(r - m);
  r = m + 0.5*p;
""", flags=dict(linear=True), base=dict(c1=0.6, c2=0.2, c3=0.4, m=1.0), vary=dict(c1=(0.1, 0.9), c2=(-0.3, 0.3), c3=(0.1, 0.45), m=(0.0, 2.0)),
               init={}, shock="ep", watch=("p", "q", "r"), portable=True),
    # nonlinear, log variables, growth (non-flat)
    "N1": dict(src="""
!transition-variables
  k, c, z
!log-variables
  k, c
!transition-shocks
  ek
!parameters
  a, kss, s, g
!transition-equations
  log(k) = a*log(k[-1]) + (1-a)*log(kss) + ek !! k = kss;
  c = (1-s)*k^0.3;
  z = z[-1] + g;
!measurement-variables
  oc
!measurement-equations
  oc = c;
""", flags=dict(linear=False), base=dict(a=0.7, kss=3.0, s=0.2, g=0.1), vary=dict(a=(0.2, 0.9), kss=(1.0, 5.0), s=(0.1, 0.5), g=(-0.2, 0.2)),
               init=dict(k=3.0, c=1.0, z=(1.0, 0.1)), shock="ek", watch=("k", "c", "z", "oc"), portable=True),
    # nonlinear flat model with a context function
    "N2": dict(src="""
!transition-variables
  k, c
!log-variables
  k
!transition-shocks
  ek
!parameters
  a, kss, s
!transition-equations
  log(k) = a*log(k[-1]) + (1-a)*log(kss) + ek;
  c = (1-s)*pw(k, 0.5);
""", flags=dict(linear=False, flat=True), base=dict(a=0.6, kss=2.0, s=0.3), vary=dict(a=(0.2, 0.9), kss=(1.0, 4.0), s=(0.1, 0.5)),
               init=dict(k=2.0, c=1.0), shock="ek", watch=("k", "c"), portable=False, context=True),
    # linear flat model with a !steady_autovalues section (parameters updated from the steady state by steady())
    "A1": dict(src="""
!transition_variables
  x, y
!transition_shocks
  ex
!parameters
  rho, ssx, ssy, ytox
!transition_equations
  x = rho*x[-1] + (1-rho)*ssx + ex;
  y = 0.5*y[-1] + x;
!measurement_variables
  oy
!measurement_equations
  oy = y - ssy;
!steady_autovalues
  ssy = y;
  ytox = y / x[-1];
""", flags=dict(linear=True, flat=True), base=dict(rho=0.5, ssx=3.0), vary=dict(rho=(0.1, 0.9), ssx=(0.5, 4.0)),
               init={}, shock="ex", watch=("x", "y", "oy"), portable=True),
    # nonlinear, non-flat; every kind of quantity with both log statuses (exogenous log variable with growth), descriptions
    "X1": dict(src="""
!transition-variables
  "Output" y, "Consumption" c, k
!measurement-variables
  "Observed output" oy, ok
!exogenous-variables
  "Productivity" z, g
!log-variables
  y, c, z, oy
!transition-shocks
  "Consumption shock" ec
!measurement-shocks
  "Noise" w
!parameters
  "Persistence" rho, ssc
!transition-equations
  log(c) = rho*log(c[-1]) + (1-rho)*log(ssc) + ec;
  y = c * z;
  k = k[-1] + g;
!measurement-equations
  log(oy) = log(y) + w;
  ok = k;
""", flags=dict(linear=False), base=dict(rho=0.8, ssc=2.0), vary=dict(rho=(0.2, 0.9), ssc=(1.0, 3.0)),
               init=dict(z=(1.5, 1.01), g=(0.3, 0), c=(2.0, 1), y=(3.0, 1.01), oy=(3.0, 1.01), k=(10.0, 0.3), ok=(10.0, 0.3)),
               shock="ec", watch=("y", "c", "k", "oy", "ok"), portable=True),
    # deterministic linear model (no std parameters)
    "D1": dict(src="""
!transition-variables
  x, y
!transition-shocks
  ex
!parameters
  rho, mu
!transition-equations
  x = rho*x[-1] + (1-rho)*mu + ex;
  y = 0.5*y[-1] + 0.5*x;
""", flags=dict(linear=True, deterministic=True), base=dict(rho=0.5, mu=1.0), vary=dict(rho=(0.1, 0.9), mu=(0.0, 2.0)),
               init={}, shock="ex", watch=("x", "y"), portable=True),
}

SEQ_TEMPLATES = {
    # written in non-sequential order: reorder_equations / sequentialize renumber the quantities
    "S3": dict(src="""
!equations
  z = x + 2*y + p;
  y = q*x + 1;
  x = 0.5*x[-1] + 10;
!parameters
  p, q
""", params=("p", "q"), names=("x", "y", "z", "res_x", "res_y", "res_z"), watch=("x", "y", "z"), neq=3),
    "S1": dict(src="""
!equations
  a = 0.5*a[-1] + p*b[-1] + res_a;
  b = q*b[-1] + 1 + res_b;
  c === a + b;
!parameters
  p, q
""", params=("p", "q"), names=("a", "b", "c", "res_a", "res_b"), watch=("a", "b", "c")),
    "S2": dict(src="""
!equations
  diff(u) = r*diff(u[-1]) + res_u;
  log(v) = s*log(v[-1]) + 0.1*u[-1] + res_v;
!parameters
  r, s
""", params=("r", "s"), names=("u", "v", "res_u", "res_v"), watch=("u", "v")),
}

START = ("qq", 2020, 1)
NPER = 8


def _rnd(rng, lo, hi):
    return round(rng.uniform(lo, hi), 3)


def gen_spec(rng, kind=None) -> dict:
    kind = kind or rng.choice(["sim", "sim", "sim", "seq", "var"])
    nv = rng.choice([1, 2, 2, 3, 4])
    if kind == "sim":
        t = rng.choice(list(SIM_TEMPLATES))
        T = SIM_TEMPLATES[t]
        params = {}
        for n, (lo, hi) in T["vary"].items():
            k = rng.choice([1, nv, max(1, nv - 1)])
            params[n] = [_rnd(rng, lo, hi) for _ in range(k)]
        spec = {"kind": "sim", "template": t, "nv": nv, "params": params, "description": rng.choice(["", "model A", "x"]),
                "solved": rng.random() < 0.8}
        # non-default settings that every clone has to carry: tolerances, default std, an extra flag, a near-unit root that
        # only the custom eigenvalue tolerance classifies as a unit root
        if rng.random() < 0.5:
            spec["tolerance"] = {"eigenvalue": rng.choice([1e-6, 1e-5, 1e-9]), "equality": rng.choice([1e-5, 1e-8, 1e-10])}
            if "rho" in T["vary"] and T["flags"].get("linear") and rng.random() < 0.6:
                params["rho"] = [1 - 1e-8] + params["rho"][1:]
                spec["tolerance"]["eigenvalue"] = 1e-6
        if rng.random() < 0.3 and not T["flags"].get("deterministic"):
            spec["default_std"] = rng.choice([0.5, 2.0, 0.1])
        if rng.random() < 0.15 and T["flags"].get("linear") and not T["flags"].get("flat"):
            spec["flat"] = True
        return spec
    if kind == "seq":
        t = rng.choice(list(SEQ_TEMPLATES))
        T = SEQ_TEMPLATES[t]
        params = {n: [_rnd(rng, 0.05, 0.9) for _ in range(nv)] for n in T["params"]}
        return {"kind": "seq", "template": t, "nv": nv, "params": params, "description": rng.choice(["", "seq"]),
                "data_seed": rng.randint(0, 10 ** 6)}
    ny = rng.choice([1, 2, 3])
    return {"kind": "var", "ny": ny, "order": rng.choice([1, 2]), "intercept": rng.choice([True, True, False]), "nv": rng.choice([1, 1, 2]),
            "nx": rng.choice([0, 0, 1]), "data_seed": rng.randint(0, 10 ** 6), "nobs": rng.randint(25, 40),
            "description": rng.choice(["", "var"])}


def _period(off=0):
    import irispie as ir
    return ir.qq(START[1], START[2]) + off


def _span(a=0, b=NPER - 1):
    import irispie as ir
    return ir.Span(_period(a), _period(b))


def var_data(spec, seed_shift=0, nv=None):
    import irispie as ir
    rng = np.random.default_rng(spec["data_seed"] + seed_shift)
    nv = nv or spec["nv"]
    n = spec["nobs"] + 12
    db = ir.Databox()
    for i in range(spec["ny"]):
        e = rng.standard_normal((n, nv))
        x = np.zeros((n, nv))
        for t in range(1, n):
            x[t] = 0.6 * x[t - 1] + e[t]
        db[f"y{i}"] = ir.Series(start=_period(-4), values=np.round(x, 6))
    for i in range(spec["nx"]):
        db[f"x{i}"] = ir.Series(start=_period(-4), values=np.round(rng.standard_normal((n, nv)), 6))
    return db


def seq_data(spec, T, nv=1):
    import irispie as ir
    rng = np.random.default_rng(spec["data_seed"])
    db = ir.Databox()
    for n in T["names"]:
        vals = np.round(rng.uniform(0.5, 1.5, size=(NPER + 4, nv)), 6)
        if n.startswith("res_"):
            vals = np.round(vals * 0.01, 6)
        db[n] = ir.Series(start=_period(-4), values=vals)
    return db


def build(spec):
    import irispie as ir
    with quiet():
        if spec["kind"] == "sim":
            T = SIM_TEMPLATES[spec["template"]]
            kw = dict(T["flags"])
            if T.get("context"):
                kw["context"] = {"pw": ctx_pw}
            if spec.get("flat"):
                kw["flat"] = True
            if spec.get("default_std") is not None:
                kw["default_std"] = spec["default_std"]
            m = ir.Simultaneous.from_string(T["src"], description=spec["description"], **kw)
            if spec.get("tolerance"):
                m.override_tolerance(**spec["tolerance"])
            m.assign(**T["base"])
            if T["init"]:
                m.assign(**T["init"])
            m.alter_num_variants(spec["nv"])
            m.assign(**{k: list(v) for k, v in spec["params"].items()})
            if spec.get("solved", True):
                m.steady()
                m.solve()
            return m
        if spec["kind"] == "seq":
            T = SEQ_TEMPLATES[spec["template"]]
            m = ir.Sequential.from_string(T["src"], description=spec["description"])
            m.assign(**{k: v[0] for k, v in spec["params"].items()})
            m.alter_num_variants(spec["nv"])
            for k in range(spec["nv"]):
                m[k].assign(**{n: v[k] for n, v in spec["params"].items()})
            return m
        ynames = [f"y{i}" for i in range(spec["ny"])]
        xnames = [f"x{i}" for i in range(spec["nx"])]
        m = ir.RedVAR(ynames, xnames or None, order=spec["order"], intercept=spec["intercept"], num_variants=spec["nv"])
        if spec["description"]:
            m.set_description(spec["description"])
        m.estimate(var_data(spec), ir.Span(_period(0), _period(spec["nobs"] - 1)))
        return m


# =============================================================================================== clones

CLONE_METHODS = ("copy", "deepcopy", "pickle", "dill", "file", "pickle_file")


def clone(m, how: str, work):
    import irispie as ir
    import dill
    if how == "copy":
        return m.copy()
    if how == "deepcopy":
        return _copy.deepcopy(m)
    if how == "pickle":
        return pickle.loads(pickle.dumps(m))
    if how == "dill":
        return dill.loads(dill.dumps(m))
    os.makedirs(work, exist_ok=True)
    fn = os.path.join(str(work), f"clone_{os.getpid()}.bin")
    if how == "file":
        ir.save(fn, m)
        return ir.load(fn)
    if how == "pickle_file":
        if hasattr(m, "to_pickle_file"):
            m.to_pickle_file(fn)
            return type(m).from_pickle_file(fn)
        from irispie import file_io
        file_io.save_pickle(m, fn)
        return file_io.load_pickle(fn)
    raise ValueError(how)


# =============================================================================================== observations

def _f(x):
    """canonical JSON-able scalar: floats exactly (hex), None, ints, strings"""
    if x is None or isinstance(x, (str, bool)):
        return x
    if isinstance(x, (int, np.integer)):
        return int(x)
    if isinstance(x, (float, np.floating)):
        x = float(x)
        return "nan" if x != x else x.hex()
    if isinstance(x, (complex, np.complexfloating)):
        return [_f(x.real), _f(x.imag)]
    if isinstance(x, np.ndarray):
        return [_f(v) for v in x.tolist()] if x.ndim else _f(x.item())
    if isinstance(x, (list, tuple)):
        return [_f(v) for v in x]
    if isinstance(x, dict):
        return {str(k): _f(v) for k, v in x.items()}
    if isinstance(x, enum.Enum):
        return str(x)
    return repr(x)


def _databox_values(db):
    return {k: _f(db[k]) for k in db.keys()}


def observe(m) -> dict:
    """everything the public getters show (no simulation)"""
    kind = type(m).__name__
    try:
        descr = m.get_description()
    except AttributeError as e:       # RedVAR without a description (no default is set); not this property's concern
        descr = f"<{type(e).__name__}>"
    out = {"class": kind, "num_variants": m.num_variants, "description": descr}
    if kind == "Simultaneous":
        out["flags"] = int(m.get_flags())
        out["tolerance"] = _f(dict(m.get_tolerance()))
        out["log_status"] = {k: v for k, v in dict(m.get_log_status()).items()}
        out["shifts"] = [int(m.max_lag), int(m.max_lead)]
        out["context_names"] = sorted(k for k in m.get_context().keys() if k != "__builtins__")
        out["quantities"] = [[q.human, str(q.kind), q.logly, q.description] for q in m.get_quantities()]
        out["equations"] = list(m.get_equations())
        out["parameters"] = _databox_values(m.get_parameters(unpack_singleton=False))
        out["stds"] = _databox_values(m.get_stds(unpack_singleton=False))
        out["levels"] = _databox_values(m.get_steady_levels(unpack_singleton=False))
        out["changes"] = _databox_values(m.get_steady_changes(unpack_singleton=False))
        sols = []
        for s in m.get_solution(unpack_singleton=False):
            if s is None:
                sols.append(None)
                continue
            d = {n: _f(getattr(s, n)) for n in ("T", "P", "K", "Z", "H", "D", "Ta", "Pa", "Ka", "Za", "Ua", "eigenvalues")}
            d["num_unit_roots"] = int(s.num_unit_roots)
            for n in ("eigenvalues_stability", "system_stability", "transition_vector_stability", "measurement_vector_stability"):
                v = getattr(s, n, None)
                d[n] = [str(i) for i in v] if isinstance(v, (tuple, list)) else (None if v is None else str(v))
            sols.append(d)
        out["solutions"] = sols
    elif kind == "Sequential":
        out["equations"] = list(m.get_equations())
        out["parameters"] = _databox_values(m.get_parameters(unpack_singleton=False))
        out["lhs_names"] = list(m.lhs_names)
        out["equation_strings"] = list(m.equation_strings)
        out["is_sequential"] = bool(m.is_sequential)
    else:
        out["names"] = list(m.get_names())
        out["order"] = m.order
        out["has_intercept"] = bool(m.has_intercept)
        out["has_exogenous"] = bool(m.has_exogenous)
        out["kinds"] = [str(q.kind) for q in m.get_quantities()]
        sys_ = []
        for s in m.get_system_matrices(unpack_singleton=False):
            sys_.append({n: _f(getattr(s, n)) for n in ("A", "B", "c", "cov_residuals")})
        out["systems"] = sys_
        out["fitted"] = [[str(p) for p in v.fitted_periods] for v in m._variants]
    return out


def seq_simulation(m, spec):
    T = SEQ_TEMPLATES[spec["template"]]
    span = _span()
    res = m.simulate(seq_data(spec, T), span, when_nonfinite="silent")
    res = res[0] if isinstance(res, tuple) else res
    return _sim_out(res, T["watch"], span)


def var_simulation(m, spec):
    import irispie as ir
    a = spec["nobs"]
    span = ir.Span(_period(a), _period(a + 3))
    res = m.simulate(var_data(spec), span)
    res = res[0] if isinstance(res, tuple) else res
    return _sim_out(res, [f"y{i}" for i in range(spec["ny"])], span)


def observe_full(m, spec) -> dict:
    """the getters plus, where it is cheap (Sequential, RedVAR), what the model simulates on fixed data"""
    out = observe(m)
    try:
        with quiet():
            if spec["kind"] == "seq":
                out["simulation"] = seq_simulation(m, spec)
            elif spec["kind"] == "var":
                out["simulation"] = var_simulation(m, spec)
    except Exception as e:  # noqa
        out["simulation"] = f"<{type(e).__name__}: {str(e)[:80]}>"
    return out


def first_diff(a, b, path=""):
    """path of the first difference between two observation structures, or None"""
    if type(a) is not type(b):
        return path or "/"
    if isinstance(a, dict):
        if list(a.keys()) != list(b.keys()):
            return path + "/<keys>"
        for k in a:
            d = first_diff(a[k], b[k], f"{path}/{k}")
            if d:
                return d
        return None
    if isinstance(a, list):
        if len(a) != len(b):
            return path + "/<len>"
        for i, (x, y) in enumerate(zip(a, b)):
            d = first_diff(x, y, f"{path}/{i}")
            if d:
                return d
        return None
    return None if a == b else (path or "/")


def _sim_out(db, names, span):
    out = {}
    for n in names:
        out[n] = _f(np.asarray(db[n].get_data(span)))
    return out


# =============================================================================================== operations

def gen_ops(rng, spec, n, nv_now=None) -> list:
    ops = []
    kind = spec["kind"]
    for _ in range(n):
        r = rng.random()
        if kind == "sim":
            T = SIM_TEMPLATES[spec["template"]]
            if r < 0.35:
                names = rng.sample(list(T["vary"]), rng.randint(1, min(2, len(T["vary"]))))
                vals = {}
                for nm in names:
                    lo, hi = T["vary"][nm]
                    k = rng.choice([0, 1, 1, 2, 3])
                    vals[nm] = _rnd(rng, lo, hi) if k == 0 else [_rnd(rng, lo, hi) for _ in range(k)]
                if rng.random() < 0.2 and not T["flags"].get("deterministic"):
                    vals["std_" + T["shock"]] = [_rnd(rng, 0.1, 2.0) for _ in range(rng.randint(1, 2))]
                ops.append({"op": "assign", "values": vals})
            elif r < 0.47:
                ops.append({"op": "steady"})
            elif r < 0.60:
                ops.append({"op": "solve"})
            elif r < 0.72:
                ops.append({"op": "alter", "n": rng.choice([1, 2, 3, 4])})
            elif r < 0.76:
                ops.append({"op": "tolerance", "values": {rng.choice(["eigenvalue", "equality"]): rng.choice([1e-6, 1e-4, 1e-9, 1e-12])}})
            elif r < 0.80:
                ops.append({"op": "check_steady", "bump": rng.choice([0.0, 2e-6, 1e-9, 1e-3])})
            elif r < 0.82:
                ops.append({"op": "reset_stds"})
            elif r < 0.90:
                ops.append({"op": "simulate", "size": _rnd(rng, -1, 1), "ant": rng.random() < 0.4, "at": rng.randint(0, 3)})
            elif r < 0.95 and T.get("filterable"):
                ops.append({"op": "filter", "size": _rnd(rng, -1, 1)})
            else:
                ops.append({"op": "describe", "text": rng.choice(["changed", "", "other text"])})
        elif kind == "seq":
            T = SEQ_TEMPLATES[spec["template"]]
            if r < 0.4:
                nm = rng.choice(T["params"])
                ops.append({"op": "assign", "values": {nm: _rnd(rng, 0.05, 0.9)}, "variant": rng.choice([None, 0, 0, 1, 2])})
            elif r < 0.55:
                ops.append({"op": "alter", "n": rng.choice([1, 2, 3])})
            elif r < 0.75:
                ops.append({"op": "simulate"})
            elif r < 0.85:
                ops.append({"op": "reorder", "seed": rng.randint(0, 10 ** 6)})
            elif r < 0.92:
                ops.append({"op": "sequentialize"})
            else:
                ops.append({"op": "describe", "text": rng.choice(["changed", "", "other text"])})
        else:
            if r < 0.3:
                ops.append({"op": "estimate", "shift": rng.randint(1, 5), "len": rng.randint(20, spec["nobs"])})
            elif r < 0.45:
                ops.append({"op": "alter", "n": rng.choice([1, 2, 3])})
            elif r < 0.65:
                ops.append({"op": "simulate"})
            elif r < 0.85:
                ops.append({"op": "moments"})
            else:
                ops.append({"op": "describe", "text": rng.choice(["changed", "", "other text"])})
    return ops


def apply_op(m, op, spec):
    """apply one public operation; returns a JSON-able result (what the call shows) or {'raises': ...}"""
    import irispie as ir
    kind = spec["kind"]
    try:
        with quiet():
            o = op["op"]
            if o == "describe":
                m.set_description(op["text"])
                return None
            if o == "alter":
                m.alter_num_variants(op["n"])
                return None
            if kind == "sim":
                T = SIM_TEMPLATES[spec["template"]]
                if o == "assign":
                    m.assign(**{k: (list(v) if isinstance(v, list) else v) for k, v in op["values"].items()})
                    return None
                if o == "steady":
                    m.steady()
                    return None
                if o == "tolerance":
                    return _f(dict(m.override_tolerance(**op["values"])))
                if o == "reset_stds":
                    m.reset_stds()
                    return None
                if o == "check_steady":
                    # the verdict depends on the equality tolerance the model carries
                    nm = T["watch"][0]
                    lev = m.get_steady_levels(unpack_singleton=False)[nm]
                    m.assign(**{nm: [None if v is None else v + op["bump"] for v in lev]})
                    ok = m.check_steady(when_fails="silent")
                    return {"ok": _f(ok if not isinstance(ok, tuple) else ok[0])}
                if o == "solve":
                    m.solve()
                    return None
                if o == "simulate":
                    span = _span()
                    db = ir.Databox.steady(m, span)
                    nm = ("ant_" if op["ant"] else "") + T["shock"]
                    db[nm][_period(op["at"])] = op["size"]
                    res = m.simulate(db, span)
                    res = res[0] if isinstance(res, tuple) else res
                    return _sim_out(res, T["watch"], span)
                if o == "filter":
                    span = _span()
                    db = ir.Databox.steady(m, span)
                    db[T["shock"]][_period(1)] = op["size"]
                    res = m.simulate(db, span)
                    res = res[0] if isinstance(res, tuple) else res
                    out, info = m.kalman_filter(res, span, return_info=True)
                    info = info if isinstance(info, list) else [info]
                    return {"nll": _f([i["neg_log_likelihood"] for i in info]),
                            "smooth": _sim_out(out["smooth_med"], T["watch"][:2], span)}
            elif kind == "seq":
                T = SEQ_TEMPLATES[spec["template"]]
                if o == "assign":
                    v = op.get("variant")
                    if v is None or v >= m.num_variants:
                        m.assign(**op["values"])
                    else:
                        m[v].assign(**op["values"])
                    return None
                if o == "simulate":
                    return seq_simulation(m, spec)
                if o == "reorder":
                    import random as _random
                    n = m.num_equations
                    order = _random.Random(op["seed"]).sample(range(n), n)
                    m.reorder_equations(order)
                    return order
                if o == "sequentialize":
                    return [int(i) for i in m.sequentialize()]
            else:
                if o == "estimate":
                    db = var_data(spec, op["shift"], nv=m.num_variants)
                    m.estimate(db, ir.Span(_period(0), _period(op["len"] - 1)))
                    return None
                if o == "simulate":
                    return var_simulation(m, spec)
                if o == "moments":
                    return {"acov": _f([np.asarray(a) for a in m.get_acov(up_to_order=1, unpack_singleton=False)[0]]),
                            "eig": _f(m.get_eigenvalues(unpack_singleton=False)),
                            "mean": _f(m.get_mean(unpack_singleton=False))}
            raise ValueError(f"unknown op {op}")
    except Exception as e:  # noqa
        return {"raises": f"{type(e).__name__}: {str(e)[:160]}"}


# =============================================================================================== object graphs

_LEAF_TYPES = None


def _leaf_types():
    global _LEAF_TYPES
    if _LEAF_TYPES is None:
        from irispie import dates as _d
        import re
        _LEAF_TYPES = (str, bytes, int, float, complex, bool, type(None), type(...), type(NotImplemented), range, slice,
                       types.BuiltinFunctionType, types.CodeType, enum.Enum, np.generic, np.dtype, _d.Period,
                       types.MethodWrapperType, types.WrapperDescriptorType, types.MethodDescriptorType,
                       types.GetSetDescriptorType, types.MemberDescriptorType, re.Pattern, np.ufunc)
    return _LEAF_TYPES


_IMMUT_CONTAINERS = (tuple, frozenset, types.FunctionType, types.MethodType, types.CellType)

KIND_CODES: dict = {}


def _kind_code(name: str) -> int:
    if name not in KIND_CODES:
        KIND_CODES[name] = len(KIND_CODES) + 1
    return KIND_CODES[name]


class Graph:
    """joint object graph of two roots: nodes 1..n, node = (kind name, mutable, children indices)"""

    def __init__(self, r1, r2):
        leaf = _leaf_types()
        moddicts = {id(vars(mod)) for mod in list(sys.modules.values()) if hasattr(mod, "__dict__")}

        def cut(o):
            return isinstance(o, (type, types.ModuleType)) or id(o) in moddicts

        self.objs = []          # keeps every object alive: ids stay valid
        index = {}
        raw_children = {}
        fglobals = set()        # ids of dictionaries that are __globals__/__builtins__ of functions
        stack = [r1, r2]
        self.dropped_leaves = 0
        while stack:
            o = stack.pop()
            if id(o) in index or cut(o):
                continue
            index[id(o)] = len(self.objs) + 1
            self.objs.append(o)
            refs = [c for c in gc.get_referents(o) if not cut(c)]
            ch = [c for c in refs if not isinstance(c, leaf)]
            self.dropped_leaves += len(refs) - len(ch)
            if isinstance(o, types.FunctionType):
                for d in (o.__globals__, getattr(o, "__builtins__", None)):
                    if isinstance(d, dict) and id(d) not in moddicts:
                        fglobals.add(id(d))
            raw_children[id(o)] = ch
            stack.extend(ch)
        # a dictionary is "function globals" only if every referrer inside the graph is a function or itself
        referrers: dict = {}
        for o in self.objs:
            for c in raw_children[id(o)]:
                referrers.setdefault(id(c), []).append(o)
        self.frozen_globals = []
        for o in self.objs:
            if id(o) in fglobals:
                rs = referrers.get(id(o), [])
                if all(isinstance(r, types.FunctionType) or id(r) in fglobals for r in rs):
                    self.frozen_globals.append(o)
        frozen_ids = {id(o) for o in self.frozen_globals}
        nodes = []
        for o in self.objs:
            ch = sorted({index[id(c)] for c in raw_children[id(o)] if id(c) in index})
            if id(o) in frozen_ids:
                kind, mut = "function-globals", False
            else:
                kind = type(o).__name__
                mut = not isinstance(o, _IMMUT_CONTAINERS)
            nodes.append((kind, mut, ch))
        # prune what can never matter: nodes from which no mutable node can be reached (they are never written and
        # lead to nothing that is); the roots are kept
        rev: dict = {}
        for i, (_, _, ch) in enumerate(nodes, 1):
            for c in ch:
                rev.setdefault(c, []).append(i)
        keep = set()
        st = [i for i, nd in enumerate(nodes, 1) if nd[1]]
        while st:
            i = st.pop()
            if i in keep:
                continue
            keep.add(i)
            st.extend(rev.get(i, ()))
        keep |= {index[id(r1)], index[id(r2)]}
        self.total_objects = len(nodes)
        order = sorted(keep)
        renum = {old: new for new, old in enumerate(order, 1)}
        self.nodes = [(nodes[i - 1][0], nodes[i - 1][1], [renum[c] for c in nodes[i - 1][2] if c in keep]) for i in order]
        self.objs = [self.objs[i - 1] for i in order] + [self.objs]      # keep everything alive
        self.r1 = renum[index[id(r1)]]
        self.r2 = renum[index[id(r2)]]

    def reach(self, r):
        seen, st = set(), [r]
        while st:
            i = st.pop()
            if i in seen:
                continue
            seen.add(i)
            st.extend(self.nodes[i - 1][2])
        return seen

    def verdict(self):
        """the harness' own evaluation of the checker (compared with Coq's)"""
        s1, s2 = self.reach(self.r1), self.reach(self.r2)
        both = s1 & s2
        bad = sorted(i for i in both if self.nodes[i - 1][1])
        return {"ok": not bad, "n1": len(s1), "n2": len(s2), "shared": len(both), "shared_mutable": bad}

    def describe(self, idx):
        o = self.objs[idx - 1]
        return f"{type(o).__name__}: {repr(o)[:80]}"

    def frozen_snapshot(self):
        return [(id(d), tuple((k, id(v)) for k, v in d.items())) for d in self.frozen_globals]

    def coq(self) -> str:
        items = []
        for kind, mut, ch in self.nodes:
            items.append(str(2 * _kind_code(kind) + (1 if mut else 0)))
            items.append(str(len(ch)))
            items.extend(map(str, ch))
        return "[" + ";".join(items) + "]"


# =============================================================================================== the interleaving flow

def run_flow(spec, how, hist, work, graphs: list, stats: dict):
    """original + clone, common history, divergent histories; returns failures (dict) found on the way"""
    fails = []

    def fail(key, what, observed=None, required=None, extra=None):
        fails.append({"key": key, "what": what,
                      "input": {"spec": spec, "clone": how, "history": hist, **(extra or {})},
                      "observed": observed, "required": required})

    cls = {"sim": "Simultaneous", "seq": "Sequential", "var": "RedVAR"}[spec["kind"]]
    m = build(spec)
    try:
        c = clone(m, how, work)
    except Exception as e:  # noqa
        fail(f"clone:{cls}:{how.replace('_file', '')}:raises", f"{cls}: {how} round trip raises {type(e).__name__}: {str(e)[:150]}",
             f"{type(e).__name__}: {e}"[:300], "an equivalent model")
        return fails
    g0 = Graph(m, c)
    graphs.append({"where": f"{cls}:{how}:fresh", "spec": spec, "graph": g0})
    frozen0 = g0.frozen_snapshot()
    d = first_diff(observe_full(m, spec), observe_full(c, spec))
    stats["equiv_checks"] += 1
    if d:
        fail(f"equivalence:{cls}:{how}:fresh", f"{cls}: the {how} clone differs from the original at {d}", d, "identical observables")
    sides = {"orig": m, "clone": c}
    # phase 1: the same history on both sides, in random order per operation
    for step, (op, first) in enumerate(zip(hist["common"], hist["order"])):
        order = ("orig", "clone") if first == 0 else ("clone", "orig")
        res = {}
        for who in order:
            other = "clone" if who == "orig" else "orig"
            before = observe_full(sides[other], spec)
            res[who] = apply_op(sides[who], op, spec)
            after = observe_full(sides[other], spec)
            stats["interference_checks"] += 1
            dd = first_diff(before, after)
            if dd:
                fail(f"independence:{cls}:{how}:{op['op']}",
                     f"{cls}: {op['op']} on the {who} changed the {other} (clone by {how}) at {dd}", dd,
                     "no change of the other model", {"step": step, "op": op, "acted_on": who})
        stats["ops"][op["op"]] = stats["ops"].get(op["op"], 0) + 2
        if isinstance(res["orig"], dict) and "raises" in res["orig"]:
            stats["op_errors"] += 1
        dd = first_diff(res["orig"], res["clone"])
        if dd is None:
            dd = first_diff(observe_full(m, spec), observe_full(c, spec))
        stats["equiv_checks"] += 1
        if dd:
            fail(f"equivalence:{cls}:{how}:{op['op']}",
                 f"{cls}: after the same history the {how} clone differs from the original at {dd} (last op {op['op']})", dd,
                 "identical results and observables", {"step": step, "op": op})
            break
    # phase 2: divergent histories
    for who, ops in (("orig", hist["only_orig"]), ("clone", hist["only_clone"])):
        other = "clone" if who == "orig" else "orig"
        for step, op in enumerate(ops):
            before = observe_full(sides[other], spec)
            apply_op(sides[who], op, spec)
            after = observe_full(sides[other], spec)
            stats["interference_checks"] += 1
            stats["ops"][op["op"]] = stats["ops"].get(op["op"], 0) + 1
            dd = first_diff(before, after)
            if dd:
                fail(f"independence:{cls}:{how}:{op['op']}",
                     f"{cls}: {op['op']} on the {who} changed the {other} (clone by {how}) at {dd}", dd,
                     "no change of the other model", {"phase": 2, "step": step, "op": op, "acted_on": who})
    g1 = Graph(m, c)
    graphs.append({"where": f"{cls}:{how}:after-history", "spec": spec, "graph": g1})
    if g0.frozen_snapshot() != frozen0:
        fail(f"independence:{cls}:{how}:function-globals-written",
             f"{cls}: the globals dictionary of a compiled function was modified by a public operation", None, "unchanged")
    return fails


def gen_history(rng, spec, scale=1.0) -> dict:
    n1 = rng.randint(3, max(3, int(8 * scale)))
    h = {"common": gen_ops(rng, spec, n1), "order": [rng.randint(0, 1) for _ in range(n1)],
         "only_orig": gen_ops(rng, spec, rng.randint(2, max(2, int(6 * scale)))),
         "only_clone": gen_ops(rng, spec, rng.randint(2, max(2, int(6 * scale))))}
    if spec["kind"] == "seq":
        # structural operations on ONE side only: the other side must keep its equation order and its simulation
        for side in ("only_orig", "only_clone"):
            extra = {"op": "sequentialize"} if rng.random() < 0.4 else {"op": "reorder", "seed": rng.randint(0, 10 ** 6)}
            h[side].insert(rng.randint(0, len(h[side])), extra)
    return h


def _flow_all(ctx):
    """run the interleaving flow once per check (memoised on ctx)"""
    if getattr(ctx, "_c20_flow", None) is not None:
        return ctx._c20_flow
    rng = ctx.rng
    n = ctx.scale(66, 1500)
    stats = {"equiv_checks": 0, "interference_checks": 0, "ops": {}, "op_errors": 0, "models": {}, "clones": {}}
    graphs, fails, cases = [], [], []
    kinds = ["sim"] * 6 + ["seq"] * 2 + ["var"] * 3
    combos = [(k, h) for k in ("sim", "seq", "var") for h in CLONE_METHODS]     # every class x clone method at least once
    for i in range(n):
        if i < len(combos):
            kind_i, how = combos[i]
        else:
            kind_i = kinds[i % len(kinds)]
            how = rng.choice(CLONE_METHODS + (("copy", "copy", "deepcopy") if kind_i == "seq" else ()))
        spec = gen_spec(rng, kind_i)
        if kind_i == "seq" and i < len(combos):
            spec = dict(spec, template="S3")     # written in non-sequential order
            spec["params"] = {n: [_rnd(rng, 0.05, 0.9) for _ in range(spec["nv"])] for n in SEQ_TEMPLATES["S3"]["params"]}
        hist = gen_history(rng, spec)
        nm = spec.get("template", "RedVAR")
        stats["models"][nm] = stats["models"].get(nm, 0) + 1
        stats["clones"][how] = stats["clones"].get(how, 0) + 1
        keep = graphs if (ctx.thorough is False or i % 8 == 0) else []
        try:
            fs = run_flow(spec, how, hist, ctx.work, keep, stats)
        except Exception as e:  # noqa
            fs = [{"key": f"harness:{type(e).__name__}", "what": f"flow raised {type(e).__name__}: {str(e)[:200]}",
                   "input": {"spec": spec, "clone": how, "history": hist}, "observed": None, "required": None}]
        fails += fs
        cases.append({"spec": spec, "clone": how, "history": hist})
    ctx._c20_flow = {"stats": stats, "graphs": graphs, "fails": fails, "cases": cases}
    return ctx._c20_flow


# =============================================================================================== Coq case files

GRAPH_HEADER = """From Coq Require Import ZArith List Bool PArith FMapPositive Uint63.
From Verif Require Import model.Heap.
Import ListNotations.
Set Printing Width 1000000.
Set Printing Depth 1000000.
(* a graph is written as a flat list of machine integers (cheap to parse): for every node, in the order 1, 2, ...,
   2*kind+mutable, number of children, the children *)
Definition P (x : int) : positive := Z.to_pos (Uint63.to_Z x).
Fixpoint dec (fuel : nat) (l : list int) (i : positive) : list (positive * node) :=
  match fuel with
  | O => []
  | S f =>
      match l with
      | h :: n :: r =>
          let k := Z.to_nat (Uint63.to_Z n) in
          (i, mkNode (Uint63.to_Z (h / 2)%uint63) (Uint63.eqb (h mod 2)%uint63 1%uint63) [] (map P (firstn k r)))
            :: dec f (skipn k r) (Pos.succ i)
      | _ => []
      end
  end.
Definition G (l : list int) : hmap := of_list (dec (length l) l 1%positive).
Definition subset (a b : list positive) : bool := forallb (fun x => existsb (Pos.eqb x) b) a.
Definition same (a : bool * (nat * nat * nat) * list positive) (b : bool * (int * int * int) * list int) : bool :=
  match a, b with
  | (v1, (p1, q1, s1), l1), (v2, (p2, q2, s2), l2) =>
      Bool.eqb v1 v2 && Z.eqb (Z.of_nat p1) (Uint63.to_Z p2) && Z.eqb (Z.of_nat q1) (Uint63.to_Z q2)
      && Z.eqb (Z.of_nat s1) (Uint63.to_Z s2) && subset l1 (map P l2) && subset (map P l2) l1
  end.
Fixpoint failing (cs : list (list int * int * int * (bool * (int * int * int) * list int))) (i : nat) : list nat :=
  match cs with
  | [] => []
  | (g, r1, r2, e) :: r => if same (graph_report (G g) (P r1) (P r2)) e then failing r (S i) else i :: failing r (S i)
  end.
Open Scope uint63_scope.
"""


def graph_shard(items) -> str:
    lines = [GRAPH_HEADER, "Definition cases : list (list int * int * int * (bool * (int * int * int) * list int)) := ["]
    body = []
    for it in items:
        g = it["graph"]
        v = it["verdict"]
        exp = (f"({'true' if v['ok'] else 'false'}, ({v['n1']}, {v['n2']}, {v['shared']}), "
               f"[{';'.join(map(str, v['shared_mutable']))}])")
        body.append(f"  ({g.coq()}, {g.r1}, {g.r2}, {exp})")
    lines.append(";\n".join(body))
    lines.append("].")
    lines.append("Eval vm_compute in (failing cases 0).")
    return "\n".join(lines) + "\n"


VAR_HEADER = """From Coq Require Import ZArith List Bool Arith.
From Verif Require Import model.Variants.
Import ListNotations.
Set Printing Width 1000000.
Set Printing Depth 1000000.
Definition X := (nat * option Z)%type.
Fixpoint set_nth (j : nat) (z : Z) (v : list Z) : list Z :=
  match v with
  | [] => []
  | x :: r => match j with O => z :: r | S j' => x :: set_nth j' z r end
  end.
Definition assign1 (_ : unit) (x : X) (v : list Z) : list Z :=
  match snd x with Some z => set_nth (fst x) z v | None => v end.
Definition A (j : nat) (zs : list Z) : op unit (list Z) X := OAssign (map (fun z => (j, Some z)) zs) (j, None).
Definition Id : op unit (list Z) X := OMap (fun _ v => v).
Definition R (ops : list (op unit (list Z) X)) (v0 : list Z) := run unit (list Z) X [] assign1 tt ops [v0].
Definition zl_eqb (a b : list Z) : bool := (length a =? length b)%nat && forallb (fun p => Z.eqb (fst p) (snd p)) (combine a b).
Definition zll_eqb (a b : list (list Z)) : bool := (length a =? length b)%nat && forallb (fun p => zl_eqb (fst p) (snd p)) (combine a b).
Definition same (a b : option (list (list Z))) : bool :=
  match a, b with Some x, Some y => zll_eqb x y | None, None => true | _, _ => false end.
Fixpoint failing (cs : list (option (list (list Z)) * option (list (list Z)))) (i : nat) : list nat :=
  match cs with
  | [] => []
  | (m, e) :: r => if same m e then failing r (S i) else i :: failing r (S i)
  end.
"""

VAR_PARAMS = ("rho", "ss", "a", "b")          # template L1


def gen_variant_case(rng) -> dict:
    ops = []
    for _ in range(rng.randint(3, 12)):
        r = rng.random()
        if r < 0.5:
            names = rng.sample(range(4), rng.randint(1, 2))
            ops.append({"op": "assign", "values": {VAR_PARAMS[j]: [rng.randint(1, 15) for _ in range(rng.choice([0, 1, 1, 2, 3, 5]))]
                                                   for j in names}})
        elif r < 0.85:
            ops.append({"op": "alter", "n": rng.choice([1, 1, 2, 3, 4, 5]) if rng.random() < 0.93 else 0})
        else:
            ops.append({"op": rng.choice(["solve", "steady"])})
    return {"init": [rng.randint(1, 15) for _ in range(4)], "ops": ops, "target": rng.choice(["sim", "sim", "seq", "var"])}


def run_variant_case_impl(case):
    """the history on a real Simultaneous model (template L1); parameter values are z/16"""
    import irispie as ir
    T = SIM_TEMPLATES["L1"]
    with quiet():
        m = ir.Simultaneous.from_string(T["src"], linear=True)
        m.assign(**{n: z / 16 for n, z in zip(VAR_PARAMS, case["init"])})
        done = 0
        for op in case["ops"]:
            try:
                if op["op"] == "assign":
                    m.assign(**{n: [z / 16 for z in zs] for n, zs in op["values"].items()})
                elif op["op"] == "alter":
                    m.alter_num_variants(op["n"])
                elif op["op"] == "solve":
                    m.solve()
                else:
                    m.steady()
            except Exception as e:  # noqa
                return {"raises": f"{type(e).__name__}: {str(e)[:100]}", "at": done}
            done += 1
        p = m.get_parameters(unpack_singleton=False)
        nv = m.num_variants
        rows = []
        for k in range(nv):
            rows.append([p[n][k] * 16 for n in VAR_PARAMS])
        return {"ok": rows}


def coq_variant_case(case, out) -> str:
    ops = []
    for i, op in enumerate(case["ops"]):
        if "raises" in out and i > out["at"]:
            break
        if op["op"] == "assign":
            for n, zs in op["values"].items():
                ops.append(f"A {VAR_PARAMS.index(n)} [{';'.join(str(z) for z in zs)}]%Z")
        elif op["op"] == "alter":
            ops.append(f"OAlter {op['n']}")
        else:
            ops.append("Id")
    init = "[" + ";".join(str(z) for z in case["init"]) + "]%Z"
    if "raises" in out:
        exp = "None"
    else:
        ok = all(float(v).is_integer() for row in out["ok"] for v in row)
        if not ok:
            return None
        exp = "(Some [" + ";".join("[" + ";".join(str(int(v)) for v in row) + "]%Z" for row in out["ok"]) + "])"
    return f"  (R [{'; '.join(ops)}] {init}, {exp})"


def variant_shard(lines) -> str:
    return VAR_HEADER + "Definition cases : list (option (list (list Z)) * option (list (list Z))) := [\n" + ";\n".join(lines) + "\n].\nEval vm_compute in (failing cases 0).\n"


PORT_HEADER = """From Coq Require Import String List Bool.
From Verif Require Import model.Portable.
Import ListNotations.
Open Scope string_scope.
Set Printing Width 1000000.
Set Printing Depth 1000000.
Notation J := (json string).
Fixpoint json_eqb (a b : J) {struct a} : bool :=
  match a, b with
  | JNull, JNull => true
  | JBool x, JBool y => Bool.eqb x y
  | JNum x, JNum y => String.eqb x y
  | JStr x, JStr y => String.eqb x y
  | JList l1, JList l2 =>
      (fix go (l1 l2 : list J) {struct l1} : bool :=
         match l1, l2 with
         | [], [] => true
         | x :: r1, y :: r2 => json_eqb x y && go r1 r2
         | _, _ => false
         end) l1 l2
  | JObj o1, JObj o2 =>
      (fix go (o1 o2 : list (string * J)) {struct o1} : bool :=
         match o1, o2 with
         | [], [] => true
         | (k1, x) :: r1, (k2, y) :: r2 => String.eqb k1 k2 && json_eqb x y && go r1 r2
         | _, _ => false
         end) o1 o2
  | _, _ => false
  end.
(* to_portable lists the quantities kind by kind *)
Definition enc (m : mdesc string) : J :=
  encode string (mkD string (d_descr string m) (d_linear string m) (d_flat string m) (d_determ string m)
                     (by_kind (d_quantities string m)) (d_equations string m) (d_context string m) (d_variants string m)).
Definition check_enc (m : mdesc string) (lit : J) : bool := json_eqb (enc m) lit.
Definition check_dec (lit : J) (m : mdesc string) : bool :=
  match decode string lit with Some d => json_eqb (encode string d) (enc m) | None => false end.
Fixpoint failing (cs : list bool) (i : nat) : list nat :=
  match cs with [] => [] | b :: r => if b then failing r (S i) else i :: failing r (S i) end.
"""


def cstr(s) -> str:
    return '"' + str(s).replace('"', '""') + '"'


def coq_json(x) -> str:
    if x is None:
        return "JNull"
    if isinstance(x, bool):
        return f"(JBool {'true' if x else 'false'})"
    if isinstance(x, (int, float)):
        return f"(JNum {cstr(json.dumps(x))})"
    if isinstance(x, str):
        return f"(JStr {cstr(x)})"
    if isinstance(x, (list, tuple)):
        return "(JList [" + "; ".join(coq_json(v) for v in x) + "])"
    if isinstance(x, dict):
        return "(JObj [" + "; ".join(f"({cstr(k)}, {coq_json(v)})" for k, v in x.items()) + "])"
    raise TypeError(type(x))


_QK = {"TRANSITION_VARIABLE": "QX", "MEASUREMENT_VARIABLE": "QY", "TRANSITION_SHOCK": "QU", "ANTICIPATED_SHOCK_VALUE": "QV",
       "MEASUREMENT_SHOCK": "QW", "PARAMETER": "QP", "EXOGENOUS_VARIABLE": "QZ"}
_EK = {"TRANSITION_EQUATION": "ET", "MEASUREMENT_EQUATION": "EM", "STEADY_AUTOVALUES": "EA"}


def _copt(x, f):
    return "None" if x is None else f"(Some {f(x)})"


def coq_mdesc(m) -> str:
    """description of a real Simultaneous model, read through its getters (variants through the stored values)"""
    qs = []
    for q in m.get_quantities():
        if q.kind.name not in _QK:
            continue            # std_ parameters are not listed among the portable quantities
        qs.append(f"mkQ {_QK[q.kind.name]} {cstr(q.human)} {_copt(q.logly, lambda b: 'true' if b else 'false')} "
                  f"{_copt(q.description, cstr)} {cstr(' '.join(q.attributes or ()))}")
    es = []
    for d, s_ in zip(m.get_dynamic_equation_objects(), m.get_steady_equation_objects()):
        es.append(f"mkE {_EK[d.kind.name]} {cstr(d.human)} {cstr(s_.human)} {_copt(d.description, cstr)} "
                  f"{cstr(' '.join(d.attributes or ()))}")
    ctx = [k for k in m.get_context().keys() if k != "__builtins__"]
    qid_to_name = m.create_qid_to_name()
    vs = []
    for v in m._variants:
        items = []
        for qid, lev in v.levels.items():
            ch = v.changes[qid]
            items.append(f"({cstr(qid_to_name[qid])}, mkV string {_copt(lev, lambda x: cstr(json.dumps(x)))} "
                         f"{_copt(ch, lambda x: cstr(json.dumps(x)))})")
        vs.append("[" + "; ".join(items) + "]")
    b = lambda x: "true" if x else "false"
    return (f"(mkD string {cstr(m.get_description())} {b(m.is_linear)} {b(m.is_flat)} {b(m.is_deterministic)}\n"
            f"    [{'; '.join(qs)}]\n    [{'; '.join(es)}]\n    [{'; '.join(cstr(k) for k in ctx)}]\n    [{'; '.join(vs)}])")


def portable_shard(items) -> str:
    lines = [PORT_HEADER, "Definition cases : list bool := ["]
    lines.append(";\n".join(items))
    lines.append("].")
    lines.append("Eval vm_compute in (failing cases 0).")
    return "\n".join(lines) + "\n"


def _run_shards(ctx, texts, prefix, res: CorrResult, describe):
    """compile case files; append disagreements; describe(shard index, case index) -> (where, input, impl)"""
    results = core.run_cases(ctx, texts, prefix=prefix)
    res.shards += len(texts)
    for k, (ok, out) in enumerate(results):
        if not ok:
            res.disagreements.append(Disagreement(f"{prefix} shard {k} does not evaluate", None, out[-600:], None))
            continue
        bodies = core.parse_eval_lists(out)
        if len(bodies) != 1:
            res.disagreements.append(Disagreement(f"{prefix} shard {k}: unparsable output", None, out[-600:], None))
            continue
        for i in core.parse_nat_list(bodies[0]):
            where, inp, impl = describe(k, i)
            res.disagreements.append(Disagreement(where, inp, "Coq model result differs", impl))


# =============================================================================================== correspondence

def correspondence(ctx) -> CorrResult:
    import time as _t
    res = CorrResult()
    t0 = _t.time()
    flow = _flow_all(ctx)
    ctx.log(f"flow: {len(flow['cases'])} original/clone histories, {len(flow['graphs'])} graphs, {_t.time() - t0:.1f}s")
    stats = flow["stats"]
    rng = ctx.rng
    # ---- (a) real object graphs through the verified checker
    items = []
    for g in flow["graphs"]:
        v = g["graph"].verdict()
        items.append({"graph": g["graph"], "verdict": v, "where": g["where"], "spec": g["spec"]})
    per = 8
    gshards = [items[i:i + per] for i in range(0, len(items), per)]
    _run_shards(ctx, [graph_shard(s) for s in gshards], "graphs", res,
                lambda k, i: (f"graph:{gshards[k][i]['where']}", {"spec": gshards[k][i]["spec"]}, gshards[k][i]["verdict"]))
    ctx.log(f"graphs: {len(items)} evaluated by the checker in Coq, cumulative {_t.time() - t0:.1f}s")
    rejected = [it for it in items if not it["verdict"]["ok"]]
    for it in rejected[:50]:
        g = it["graph"]
        res.disagreements.append(Disagreement(
            f"checker:{it['where']}", {"spec": it["spec"]},
            "no_shared_mutable = false: the non-interference theorem does not apply to this original/clone pair",
            {"shared_mutable": [g.describe(i) for i in it["verdict"]["shared_mutable"][:6]]}))
    # ---- (b) variant histories on model/Variants.v
    nvar = ctx.scale(300, 12000)
    vcases, vlines = [], []
    raises = 0
    for _ in range(nvar):
        c = gen_variant_case(rng)
        o = run_variant_case_impl(c)
        line = coq_variant_case(c, o)
        if line is None:
            res.disagreements.append(Disagreement("variants:non-integer", c, None, o))
            continue
        raises += "raises" in o
        vcases.append((c, o))
        vlines.append(line)
    perv = 300
    vsh = [list(range(i, min(i + perv, len(vlines)))) for i in range(0, len(vlines), perv)]
    _run_shards(ctx, [variant_shard([vlines[j] for j in idx]) for idx in vsh], "variants", res,
                lambda k, i: ("variants:history", vcases[vsh[k][i]][0], vcases[vsh[k][i]][1]))
    ctx.log(f"variants: {len(vlines)} histories, cumulative {_t.time() - t0:.1f}s")
    # ---- (c) portable codec
    nport = ctx.scale(40, 800)
    pitems, pmeta = [], []
    perr = 0
    for ip in range(nport):
        spec = gen_spec(rng, "sim")
        if ip % 4 == 0:
            spec = dict(spec, template="A1", params={})      # a model with !steady_autovalues (#A) equations
            spec.pop("flat", None)
        elif ip % 4 == 1:
            spec = dict(spec, template="X1", params={})      # every quantity kind x log status, exogenous log variable
            spec.pop("flat", None)
        if not SIM_TEMPLATES[spec["template"]]["portable"]:
            spec["template"] = "L1"
            spec["params"] = {}
        spec["solved"] = rng.random() < 0.5
        try:
            import irispie as ir
            m = build(spec)
            with quiet():
                p = m.to_portable()
                n = ir.Simultaneous.from_portable(json.loads(json.dumps(p)))
            lit = coq_json(json.loads(json.dumps(p)))
            pitems.append(f"  check_enc {coq_mdesc(m)}\n    {lit}")
            pmeta.append(("portable:encode", spec))
            pitems.append(f"  check_dec {lit}\n    {coq_mdesc(n)}")
            pmeta.append(("portable:decode", spec))
        except Exception as e:  # noqa
            perr += 1
            if perr <= 3:
                res.disagreements.append(Disagreement("portable:raises", {"spec": spec}, "a portable dictionary and a rebuilt model",
                                                      f"{type(e).__name__}: {str(e)[:200]}"))
    perp = 20
    psh = [list(range(i, min(i + perp, len(pitems)))) for i in range(0, len(pitems), perp)]
    _run_shards(ctx, [portable_shard([pitems[j] for j in idx]) for idx in psh], "portable", res,
                lambda k, i: (pmeta[psh[k][i]][0], {"spec": pmeta[psh[k][i]][1]}, None))
    ctx.log(f"portable: {len(pitems)} checks, cumulative {_t.time() - t0:.1f}s")
    # ---- evidence
    res.evaluations = len(items) + len(vlines) + len(pitems)
    res.distinct_nontrivial = (len({(it["where"], json.dumps(it["spec"], sort_keys=True)) for it in items if it["verdict"]["shared"] >= 0
                                    and it["verdict"]["n1"] > 5})
                               + len({json.dumps(c, sort_keys=True) for c, o in vcases if "ok" in o and len(o["ok"]) > 1})
                               + len(set(pitems)))
    res.rule = ("graphs: one per (model spec, clone method, before/after a random history of public operations), compared = checker "
                "verdict, sizes of both reachable sets, number of shared nodes, set of shared mutable nodes; non-trivial = more than 5 "
                "reachable non-leaf objects.  variants: random histories of assign(lists)/alter_num_variants/solve/steady on a real "
                "Simultaneous model vs Variants.run, compared = all parameter values of all variants exactly; non-trivial = more than "
                "one variant at the end.  portable: to_portable of a real model vs encode of its description, decode of the JSON value "
                "vs the description of the model rebuilt by from_portable; distinct = distinct case text")
    res.samples = [{"graph": items[0]["where"], "verdict": items[0]["verdict"]} if items else None,
                   {"variants": vcases[0][0], "impl": vcases[0][1]} if vcases else None,
                   {"portable_spec": pmeta[0][1]} if pmeta else None]
    res.distribution = {
        "graphs": len(items), "graph_nodes_mean": round(sum(len(it["graph"].nodes) for it in items) / max(1, len(items)), 1),
        "graph_nodes_max": max([len(it["graph"].nodes) for it in items] or [0]),
        "objects_before_pruning_mean": round(sum(it["graph"].total_objects for it in items) / max(1, len(items)), 1),
        "graphs_with_shared_immutable_nodes": sum(1 for it in items if it["verdict"]["shared"] > 0),
        "graphs_rejected": len(rejected),
        "leaf_objects_dropped_mean": round(sum(it["graph"].dropped_leaves for it in items) / max(1, len(items)), 1),
        "frozen_function_globals_mean": round(sum(len(it["graph"].frozen_globals) for it in items) / max(1, len(items)), 2),
        "variant_histories": len(vlines), "variant_histories_raising": raises,
        "portable_checks": len(pitems), "portable_errors": perr,
        "flow": stats,
    }
    res.notes = [f"kind codes: {len(KIND_CODES)} python types in the graphs"]
    return res


# =============================================================================================== falsifier

def _close(a, b, tol=1e-12):
    """structures produced by _f: numbers are hex strings; compare with relative tolerance"""
    if type(a) is not type(b):
        return False
    if isinstance(a, dict):
        return list(a.keys()) == list(b.keys()) and all(_close(a[k], b[k], tol) for k in a)
    if isinstance(a, list):
        return len(a) == len(b) and all(_close(x, y, tol) for x, y in zip(a, b))
    if isinstance(a, str) and isinstance(b, str):
        try:
            x = float("nan") if a == "nan" else float.fromhex(a)
            y = float("nan") if b == "nan" else float.fromhex(b)
        except ValueError:
            return a == b
        if x != x or y != y:
            return (x != x) and (y != y)
        if math.isinf(x) or math.isinf(y):
            return x == y
        return abs(x - y) <= tol * (1 + abs(y))
    return a == b


def _variant_k_of(obs: dict, k: int, nv: int) -> dict:
    """restrict an observation of a multi-variant model to variant k (as a singleton would show it)"""
    out = {}
    for key in ("parameters", "stds", "levels", "changes"):
        if key in obs:
            out[key] = {n: [v[k]] for n, v in obs[key].items()}
    if "solutions" in obs:
        out["solutions"] = [obs["solutions"][k]]
    if "systems" in obs:
        out["systems"] = [obs["systems"][k]]
    return out


def _col(simout: dict, k: int) -> dict:
    return {n: [[row[k]] for row in rows] for n, rows in simout.items()}


def gen_variant_check(rng):
    spec = gen_spec(rng, rng.choice(["sim", "sim", "sim", "seq", "var"]))
    spec["nv"] = rng.choice([2, 3, 4])
    spec["solved"] = True
    op = None
    if spec["kind"] == "sim":
        T = SIM_TEMPLATES[spec["template"]]
        for n in T["vary"]:
            spec["params"].setdefault(n, [T["base"][n]])
        op = {"op": "simulate", "size": _rnd(rng, -1, 1), "ant": rng.random() < 0.4, "at": rng.randint(0, 3)}
    elif spec["kind"] == "seq":
        spec["params"] = {n: [_rnd(rng, 0.05, 0.9) for _ in range(spec["nv"])] for n in SEQ_TEMPLATES[spec["template"]]["params"]}
    else:
        spec["nv"] = 2
    return spec, op


def check_variant_vs_singleton(spec, op, info) -> list:
    """variant k of a multi-variant model vs the single-variant model given variant k's parameter values"""
    import irispie as ir
    fails = []
    kind = spec["kind"]
    if kind == "sim":
        T = SIM_TEMPLATES[spec["template"]]
        m = build(spec)
        sim_m = apply_op(m, op, spec)
        flt_m = apply_op(m, {"op": "filter", "size": 0.5}, spec) if T.get("filterable") else None
        om = observe(m)
        for k in range(spec["nv"]):
            sk = dict(spec, nv=1, params={n: [v[min(k, len(v) - 1)]] for n, v in spec["params"].items()})
            s = build(sk)
            os_ = observe(s)
            info["variant_checks"] += 1
            want = _variant_k_of(om, k, spec["nv"])
            got = {key: os_[key] for key in want}
            sim_s = apply_op(s, op, sk)
            ok = _close(got, want)
            if ok and isinstance(sim_m, dict) and "raises" not in sim_m:
                ok = "raises" not in sim_s and _close(sim_s, _col(sim_m, k))
                where = "simulation"
            else:
                where = first_diff(got, want) or "steady/solution"
            if ok and flt_m and "raises" not in flt_m:
                flt_s = apply_op(s, {"op": "filter", "size": 0.5}, sk)
                ok = "raises" not in flt_s and _close(flt_s["nll"], [flt_m["nll"][k]]) and _close(flt_s["smooth"], _col(flt_m["smooth"], k))
                where = "filter"
            if not ok:
                fails.append(Failure(f"variant-vs-singleton:Simultaneous:{spec['template']}",
                                     f"variant {k} of a {spec['nv']}-variant model differs from the single-variant model "
                                     f"assigned its parameter values ({where})", {"spec": spec, "variant": k, "op": op},
                                     where, "equal steady state, solution, simulation (1e-12)"))
                break
    elif kind == "seq":
        m = build(spec)
        sim_m = apply_op(m, {"op": "simulate"}, spec)
        for k in range(spec["nv"]):
            sk = dict(spec, nv=1, params={n: [v[k]] for n, v in spec["params"].items()})
            s = build(sk)
            sim_s = apply_op(s, {"op": "simulate"}, sk)
            info["variant_checks"] += 1
            if "raises" in sim_m or "raises" in sim_s or not _close(sim_s, _col(sim_m, k)):
                fails.append(Failure(f"variant-vs-singleton:Sequential:{spec['template']}",
                                     f"variant {k} of a {spec['nv']}-variant Sequential model simulates differently from the "
                                     f"single-variant model with its parameters", {"spec": spec, "variant": k},
                                     {"multi": sim_m if 'raises' in sim_m else None, "single": sim_s if 'raises' in sim_s else None},
                                     "equal simulation (1e-12)"))
                break
    else:
        m = build(spec)
        om = observe(m)
        full = var_data(spec)
        for k in range(2):
            info["variant_checks"] += 1
            db = ir.Databox()
            for n in full.keys():
                x = full[n]
                sp = ir.Span(x.start, x.end)
                db[n] = ir.Series(start=x.start, values=np.asarray(x.get_data(sp))[:, k:k + 1])
            with quiet():
                ynames = [f"y{i}" for i in range(spec["ny"])]
                xnames = [f"x{i}" for i in range(spec["nx"])]
                s = ir.RedVAR(ynames, xnames or None, order=spec["order"], intercept=spec["intercept"])
                s.estimate(db, ir.Span(_period(0), _period(spec["nobs"] - 1)))
            os_ = observe(s)
            if not _close(os_["systems"], [om["systems"][k]]):
                fails.append(Failure("variant-vs-singleton:RedVAR", f"variant {k} of a 2-variant RedVAR estimate differs from the "
                                     "single-variant estimate on the same data column", {"spec": spec, "variant": k},
                                     first_diff(os_["systems"], [om["systems"][k]]), "equal system matrices (1e-12)"))
                break
    return fails


def _norm(p):
    return json.loads(json.dumps(p))


def check_portable(spec, work, info) -> list:
    import irispie as ir
    fails = []
    T = SIM_TEMPLATES[spec["template"]]
    if not T["portable"]:
        return fails
    info["portable_checks"] += 1
    # tolerances and the default std are not part of the portable representation: default settings here
    spec = {k: v for k, v in spec.items() if k not in ("tolerance", "default_std")}
    if spec.get("params", {}).get("rho", [0])[0] > 0.99:
        spec = dict(spec, params=dict(spec["params"], rho=[0.9] + list(spec["params"]["rho"][1:])))
    m = build(spec)
    inp = {"spec": spec}
    try:
        with quiet():
            p = m.to_portable()
    except Exception as e:  # noqa
        return [Failure("portable:to_portable:raises", f"Simultaneous.to_portable raises {type(e).__name__}: {str(e)[:120]}", inp,
                        f"{type(e).__name__}: {e}"[:300], "a portable dictionary",
                        "m = Simultaneous.from_string(<any model with shocks>); m.to_portable()")]
    for via in ("memory", "json-file"):
        try:
            with quiet():
                if via == "memory":
                    n = ir.Simultaneous.from_portable(p)
                else:
                    os.makedirs(str(work), exist_ok=True)
                    fn = os.path.join(str(work), f"portable_{os.getpid()}.json")
                    m.to_portable_file(fn)
                    n = ir.Simultaneous.from_portable_file(fn)
                q = n.to_portable()
        except Exception as e:  # noqa
            fails.append(Failure(f"portable:from_portable:{via}:raises",
                                 f"Simultaneous.from_portable ({via}) raises {type(e).__name__}: {str(e)[:120]}", inp,
                                 f"{type(e).__name__}: {e}"[:300], "the same model"))
            continue
        P, Q = _norm(p), _norm(q)
        # what the rebuilt model shows through its getters: names, kinds, log status, descriptions, equations of ALL kinds
        # (transition, measurement, steady autovalues), flags
        om, on = observe(m), observe(n)
        for part in ("description", "flags", "quantities", "log_status", "equations", "num_variants", "shifts", "context_names"):
            if om[part] != on[part]:
                missing = [e for e in om[part] if e not in on[part]] if isinstance(om[part], list) else None
                fails.append(Failure(f"portable:model-{part}:{via}",
                                     f"the {part} of the model rebuilt by from_portable ({via}) differ from the original's"
                                     + (f"; missing: {missing}" if missing else ""), inp, on[part], om[part]))
        for part, key in (("flags", "portable:flags"), ("quantities", "portable:quantities"), ("equations", "portable:equations"),
                          ("description", "portable:description"), ("context", "portable:context")):
            if P["source"][part] != Q["source"][part]:
                fails.append(Failure(f"{key}:{via}", f"the {part} of the model do not survive to_portable/from_portable ({via})", inp,
                                     Q["source"][part], P["source"][part]))
        if len(P["variants"]) != len(Q["variants"]):
            fails.append(Failure(f"portable:num-variants:{via}", "the number of variants does not survive the portable round trip",
                                 inp, len(Q["variants"]), len(P["variants"])))
        else:
            for vp, vq in zip(P["variants"], Q["variants"]):
                lev = {k: v[0] for k, v in vp.items()} == {k: v[0] for k, v in vq.items()}
                chg = {k: v[1] for k, v in vp.items()} == {k: v[1] for k, v in vq.items()}
                if list(vp.keys()) != list(vq.keys()) or not lev:
                    fails.append(Failure(f"portable:values:{via}", f"parameter values / steady levels do not survive the portable "
                                         f"round trip ({via})", inp, vq, vp))
                    break
                if not chg:
                    fails.append(Failure(f"portable:changes:{via}", f"steady-state changes stored in the portable representation are "
                                         f"lost by from_portable ({via})", inp, vq, vp))
                    break
        # the rebuilt model behaves like the original: assign new parameter values, steady, solve, simulate
        if not fails:
            a, b = m.copy(), n
            new_values = {nm: round((lo + hi) / 2 + 0.137 * (hi - lo) / 2, 3) for nm, (lo, hi) in T["vary"].items()}
            for op in ({"op": "steady"}, {"op": "solve"}, {"op": "assign", "values": new_values}, {"op": "steady"},
                       {"op": "solve"}, {"op": "simulate", "size": 0.5, "ant": False, "at": 1}):
                ra, rb = apply_op(a, op, spec), apply_op(b, op, spec)
                if first_diff(ra, rb):
                    fails.append(Failure(f"portable:behaviour:{via}", f"the model rebuilt from the portable representation ({via}) "
                                         f"gives a different {op['op']}", inp, first_diff(ra, rb), "identical results"))
                    break
            else:
                oa, ob = observe(a), observe(b)
                d = first_diff({k: oa[k] for k in ("parameters", "stds", "levels", "solutions")},
                               {k: ob[k] for k in ("parameters", "stds", "levels", "solutions")})
                if d:
                    fails.append(Failure(f"portable:behaviour:{via}", f"the model rebuilt from the portable representation ({via}) "
                                         f"differs after assign({new_values})+steady+solve at {d}", inp, d, "identical observables"))
    return fails


def check_sequential_structure(spec, how, seed, work, info) -> list:
    """reordering the equations of one of (original, clone) must leave the other's equations and simulation alone"""
    info["structure_checks"] = info.get("structure_checks", 0) + 1
    fails = []
    m = build(spec)
    try:
        c = clone(m, how, work)
    except Exception:  # reported by the flow
        return fails
    for actor, other, who in ((c, m, "clone"), (m, c, "original")):
        for op in ({"op": "sequentialize"}, {"op": "reorder", "seed": seed}, {"op": "assign", "values": {SEQ_TEMPLATES[spec["template"]]["params"][0]: 0.77}}):
            before = observe_full(other, spec)
            apply_op(actor, op, spec)
            d = first_diff(before, observe_full(other, spec))
            if d:
                fails.append(Failure(f"independence:Sequential:{how.replace('_file', '')}:{op['op']}",
                                     f"Sequential: {op['op']} on the {who} changed the other model (clone by {how}) at {d}",
                                     {"spec": spec, "clone": how, "seed": seed, "structure_check": True, "op": op, "acted_on": who},
                                     d, "no change of the other model's equations, names and simulation"))
                return fails
    return fails


def falsify(ctx, hints):
    import time as _t
    t0 = _t.time()
    flow = _flow_all(ctx)
    rng = ctx.rng
    fails = [Failure(f["key"], f["what"], f["input"], f["observed"], f["required"],
                     "see input: build(spec), clone by the given method, apply the history with the public API")
             for f in flow["fails"]]
    info = {"flows": len(flow["cases"]), "equivalence_checks": flow["stats"]["equiv_checks"],
            "interference_checks": flow["stats"]["interference_checks"], "variant_checks": 0, "portable_checks": 0}
    for _ in range(ctx.scale(40, 1200)):
        spec, op = gen_variant_check(rng)
        try:
            fails += check_variant_vs_singleton(spec, op, info)
        except Exception as e:  # noqa
            fails.append(Failure(f"harness:variant:{type(e).__name__}", f"variant check raised {type(e).__name__}: {str(e)[:200]}",
                                 {"spec": spec, "op": op}))
    for i in range(ctx.scale(18, 400)):
        spec = gen_spec(rng, "seq")
        if i % 2 == 0:
            spec = dict(spec, template="S3")
            spec["params"] = {n: [_rnd(rng, 0.05, 0.9) for _ in range(spec["nv"])] for n in SEQ_TEMPLATES["S3"]["params"]}
        how, seed = CLONE_METHODS[i % len(CLONE_METHODS)], rng.randint(0, 10 ** 6)
        try:
            fails += check_sequential_structure(spec, how, seed, ctx.work, info)
        except Exception as e:  # noqa
            fails.append(Failure(f"harness:structure:{type(e).__name__}", f"structure check raised {type(e).__name__}: {str(e)[:200]}",
                                 {"spec": spec, "clone": how, "seed": seed}))
    for i in range(ctx.scale(25, 600)):
        spec = gen_spec(rng, "sim")
        if i % 4 == 0:
            spec = dict(spec, template="A1", params={})      # steady autovalues
            spec.pop("flat", None)
        elif i % 4 == 1:
            spec = dict(spec, template="X1", params={})      # every quantity kind x log status, exogenous log variable
            spec.pop("flat", None)
        try:
            fails += check_portable(spec, ctx.work, info)
        except Exception as e:  # noqa
            fails.append(Failure(f"harness:portable:{type(e).__name__}", f"portable check raised {type(e).__name__}: {str(e)[:200]}",
                                 {"spec": spec}))
    ctx.log(f"falsifier: {info}, {_t.time() - t0:.1f}s")
    seen, uniq = set(), []
    for f in fails:
        if f.key not in seen:
            seen.add(f.key)
            uniq.append(f)
    return uniq, info


def replay(ctx, failure: dict):
    """re-run the recorded input"""
    inp = failure.get("input") or {}
    key = failure["key"]
    info = {"variant_checks": 0, "portable_checks": 0}
    fs = []
    if inp.get("structure_check"):
        fs = check_sequential_structure(inp["spec"], inp["clone"], inp["seed"], ctx.work, info)
    elif "history" in inp:
        stats = {"equiv_checks": 0, "interference_checks": 0, "ops": {}, "op_errors": 0}
        fs = [Failure(f["key"], f["what"], f["input"], f["observed"], f["required"])
              for f in run_flow(inp["spec"], inp["clone"], inp["history"], ctx.work, [], stats)]
    elif key.startswith("variant-vs-singleton") and "spec" in inp:
        fs = check_variant_vs_singleton(inp["spec"], inp.get("op"), info)
    elif key.startswith("portable") and "spec" in inp:
        fs = check_portable(inp["spec"], ctx.work, info)
    else:
        fs, _ = falsify(ctx, {})
    for f in fs:
        if f.key == key:
            return f
    return None
