"""C20  Copies, pickles and parameter variants are independent, equivalent models.

Three Coq models (model/Heap.v, model/Variants.v, model/Portable.v) with theorems restated in props/C20.v, tied to
the implementation by
  (a) the REAL object graphs of an original model and its copy / pickle / dill / file round trip, extracted with
      gc.get_referents and evaluated by the proved checker `no_shared_mutable` inside Coq (vm_compute);
  (b) histories of alter_num_variants / assign (exhaust-then-last broadcasting) replayed on real models and on
      model/Variants.v::run, compared exactly;
  (c) the JSON value produced by Simultaneous.to_portable compared with model/Portable.v::encode of the description read
      through the public getters, and decode of it compared with the description of the model rebuilt by from_portable.
The behavioural half of the property ("behaves identically", "mutating either never affects the other", "variant k =
single-variant model") is differential testing against the same implementation on random interleavings of public
operations (the falsifier); no independent model of steady/solve/simulate is claimed here (C01/C03/C05/C06).
"""
from __future__ import annotations

import contextlib
import copy as _copy
import enum
import gc
import io
import json
import math
import os
import pickle
import sys
import tempfile
import types

import numpy as np

from vf import core
from vf.core import CorrResult, Disagreement, Failure

ID = "C20"
PROPS = "props/C20.v"
GENERATED: list = []
CASE_DEPS = ["model/Heap.vo", "model/Variants.vo", "model/Portable.vo"]
ALLOWED_AXIOMS: set = set()
TRUSTED = [
    "object-graph extraction in harness/C20.py: gc.get_referents closure from the two roots; modules, classes and module "
    "dictionaries are cut; immutable leaves (str, numbers, None, enum members, Period, code objects, numpy scalars/dtypes) "
    "are dropped; tuple/frozenset/function/method/cell are immutable containers; dict/list/set/ndarray/instances are mutable",
    "the private globals dictionary of a function compiled by irispie.makers.make_function (reachable only as __globals__/"
    "__builtins__ of compiled functions) is classified immutable-by-contract; the harness checks after every history that "
    "its keys and value identities are unchanged",
    "CPython pickle/dill/copy/json as executed",
]
ASSUMPTIONS = [
    "the heap theorems quantify over in-place writes and allocations by a party that holds one root; Python-level "
    "mutation through other channels (ctypes, gc, frame inspection, monkey patching of classes/modules) is outside",
    "'behaves identically' and 'variant k equals the single-variant model' are checked differentially (exact equality "
    "between original and copy, 1e-12 relative between variant k and the singleton); solve/steady/simulate themselves are "
    "the subject of C01/C05/C06",
    "context functions are not part of the portable representation (contexts.py writes the names only)",
]
MANIFEST = {
    "technique": "Coq proof of a heap non-interference theorem with a verified executable checker run on the real object "
                 "graphs; Coq model of variant broadcasting / alter_num_variants and of the portable codec; differential "
                 "testing of copies, pickles and variants on random operation interleavings",
    "level_text": "Theorems (props/C20.v): (1) if the verified checker finds no mutable object reachable from both roots, then no "
                  "sequence and no interleaving of in-place writes and allocations through one root changes any local observation "
                  "from the other (induction over the run; guard shown necessary and satisfiable); (2) after ANY history of assign "
                  "(exhaust-then-last), per-variant operations and alter_num_variants, variant k equals its projected history run on "
                  "a single-variant model; alter_num_variants laws; (3) decode(encode m) = m for the portable codec (names, kinds, "
                  "log status, descriptions, equations, flags, context names, level/change values), with the needed guard shown "
                  "necessary.  Ties: real object graphs of Simultaneous/Sequential/RedVAR and their copy()/deepcopy/pickle/dill/"
                  "save-load clones evaluated by the checker in Coq; assign/alter histories and to_portable/from_portable compared "
                  "exactly with the models.",
    "level_note": "partial: behavioural equivalence of copies and of variant k vs singleton is differential testing against the same "
                  "implementation; mutability is by type; JSON text syntax and float printing are trusted glue.",
}

DEVNULL = io.StringIO()


@contextlib.contextmanager
def quiet():
    buf = io.StringIO()
    with contextlib.redirect_stdout(buf):
        yield


# =============================================================================================== model families

def ctx_pw(x, e):
    """context function used by template N2 (must be importable for plain pickle)"""
    return x ** e


SIM_TEMPLATES = {
    # linear, forward-looking, measurement block
    "L1": dict(src="""
!transition-variables
  "Driver" x, "Follower" y
!transition-shocks
  ex, ey
!parameters
  rho, ss, a, b
!transition-equations
  "AR" x = rho*x[-1] + (1-rho)*ss + ex;
  y = a*x[+1] + b*y[-1] + ey;
!measurement-variables
  ox, oy
!measurement-shocks
  w
!measurement-equations
  ox = x + w;
  oy = y;
""", flags=dict(linear=True), base=dict(rho=0.8, ss=2.0, a=0.3, b=0.5), vary=dict(rho=(0.1, 0.9), ss=(0.5, 3.0), a=(-0.4, 0.4), b=(0.1, 0.8)),
               init={}, shock="ex", watch=("x", "y", "ox", "oy"), portable=True),
    # linear, three variables, two leads, no measurement
    "L2": dict(src="""
!transition-variables
  p, q, r
!transition-shocks
  ep, eq
!parameters
  c1, c2, c3, m
!transition-equations
  p = c1*p[-1] + c2*q + ep;
  q = c3*q[+1] + (1-c3)*q[-1] - 0.1*(r - m) + eq !! q = q[-1] - 0.1*(r - m);
  r = m + 0.5*p;
""", flags=dict(linear=True), base=dict(c1=0.6, c2=0.2, c3=0.4, m=1.0), vary=dict(c1=(0.1, 0.9), c2=(-0.3, 0.3), c3=(0.1, 0.45), m=(0.0, 2.0)),
               init={}, shock="ep", watch=("p", "q", "r"), portable=True),
    # nonlinear, log variables, growth (non-flat)
    "N1": dict(src="""
!transition-variables
  k, c, z
!log-variables
  k, c
!transition-shocks
  ek
!parameters
  a, kss, s, g
!transition-equations
  log(k) = a*log(k[-1]) + (1-a)*log(kss) + ek !! k = kss;
  c = (1-s)*k^0.3;
  z = z[-1] + g;
!measurement-variables
  oc
!measurement-equations
  oc = c;
""", flags=dict(linear=False), base=dict(a=0.7, kss=3.0, s=0.2, g=0.1), vary=dict(a=(0.2, 0.9), kss=(1.0, 5.0), s=(0.1, 0.5), g=(-0.2, 0.2)),
               init=dict(k=3.0, c=1.0, z=(1.0, 0.1)), shock="ek", watch=("k", "c", "z", "oc"), portable=True),
    # nonlinear flat model with a context function
    "N2": dict(src="""
!transition-variables
  k, c
!log-variables
  k
!transition-shocks
  ek
!parameters
  a, kss, s
!transition-equations
  log(k) = a*log(k[-1]) + (1-a)*log(kss) + ek;
  c = (1-s)*pw(k, 0.5);
""", flags=dict(linear=False, flat=True), base=dict(a=0.6, kss=2.0, s=0.3), vary=dict(a=(0.2, 0.9), kss=(1.0, 4.0), s=(0.1, 0.5)),
               init=dict(k=2.0, c=1.0), shock="ek", watch=("k", "c"), portable=False, context=True),
    # deterministic linear model (no std parameters)
    "D1": dict(src="""
!transition-variables
  x, y
!transition-shocks
  ex
!parameters
  rho, mu
!transition-equations
  x = rho*x[-1] + (1-rho)*mu + ex;
  y = 0.5*y[-1] + 0.5*x;
""", flags=dict(linear=True, deterministic=True), base=dict(rho=0.5, mu=1.0), vary=dict(rho=(0.1, 0.9), mu=(0.0, 2.0)),
               init={}, shock="ex", watch=("x", "y"), portable=True),
}

SEQ_TEMPLATES = {
    "S1": dict(src="""
!equations
  a = 0.5*a[-1] + p*b[-1] + res_a;
  b = q*b[-1] + 1 + res_b;
  c === a + b;
!parameters
  p, q
""", params=("p", "q"), names=("a", "b", "c", "res_a", "res_b"), watch=("a", "b", "c")),
    "S2": dict(src="""
!equations
  diff(u) = r*diff(u[-1]) + res_u;
  log(v) = s*log(v[-1]) + 0.1*u[-1] + res_v;
!parameters
  r, s
""", params=("r", "s"), names=("u", "v", "res_u", "res_v"), watch=("u", "v")),
}

START = ("qq", 2020, 1)
NPER = 8


def _rnd(rng, lo, hi):
    return round(rng.uniform(lo, hi), 3)


def gen_spec(rng, kind=None) -> dict:
    kind = kind or rng.choice(["sim", "sim", "sim", "seq", "var"])
    nv = rng.choice([1, 2, 2, 3, 4])
    if kind == "sim":
        t = rng.choice(list(SIM_TEMPLATES))
        T = SIM_TEMPLATES[t]
        params = {}
        for n, (lo, hi) in T["vary"].items():
            k = rng.choice([1, nv, max(1, nv - 1)])
            params[n] = [_rnd(rng, lo, hi) for _ in range(k)]
        return {"kind": "sim", "template": t, "nv": nv, "params": params, "description": rng.choice(["", "model A", "x"]),
                "solved": rng.random() < 0.8}
    if kind == "seq":
        t = rng.choice(list(SEQ_TEMPLATES))
        T = SEQ_TEMPLATES[t]
        params = {n: [_rnd(rng, 0.05, 0.9) for _ in range(nv)] for n in T["params"]}
        return {"kind": "seq", "template": t, "nv": nv, "params": params, "description": rng.choice(["", "seq"]),
                "data_seed": rng.randint(0, 10 ** 6)}
    ny = rng.choice([1, 2, 3])
    return {"kind": "var", "ny": ny, "order": rng.choice([1, 2]), "intercept": True, "nv": rng.choice([1, 1, 2]),
            "nx": rng.choice([0, 0, 1]), "data_seed": rng.randint(0, 10 ** 6), "nobs": rng.randint(25, 40),
            "description": rng.choice(["", "var"])}


def _period(off=0):
    import irispie as ir
    return ir.qq(START[1], START[2]) + off


def _span(a=0, b=NPER - 1):
    import irispie as ir
    return ir.Span(_period(a), _period(b))


def var_data(spec, seed_shift=0, nv=None):
    import irispie as ir
    rng = np.random.default_rng(spec["data_seed"] + seed_shift)
    nv = nv or spec["nv"]
    n = spec["nobs"] + 12
    db = ir.Databox()
    for i in range(spec["ny"]):
        e = rng.standard_normal((n, nv))
        x = np.zeros((n, nv))
        for t in range(1, n):
            x[t] = 0.6 * x[t - 1] + e[t]
        db[f"y{i}"] = ir.Series(start=_period(-4), values=np.round(x, 6))
    for i in range(spec["nx"]):
        db[f"x{i}"] = ir.Series(start=_period(-4), values=np.round(rng.standard_normal((n, nv)), 6))
    return db


def seq_data(spec, T, nv=1):
    import irispie as ir
    rng = np.random.default_rng(spec["data_seed"])
    db = ir.Databox()
    for n in T["names"]:
        vals = np.round(rng.uniform(0.5, 1.5, size=(NPER + 4, nv)), 6)
        if n.startswith("res_"):
            vals = np.round(vals * 0.01, 6)
        db[n] = ir.Series(start=_period(-4), values=vals)
    return db


def build(spec):
    import irispie as ir
    with quiet():
        if spec["kind"] == "sim":
            T = SIM_TEMPLATES[spec["template"]]
            kw = dict(T["flags"])
            if T.get("context"):
                kw["context"] = {"pw": ctx_pw}
            m = ir.Simultaneous.from_string(T["src"], description=spec["description"], **kw)
            m.assign(**T["base"])
            if T["init"]:
                m.assign(**T["init"])
            m.alter_num_variants(spec["nv"])
            m.assign(**{k: list(v) for k, v in spec["params"].items()})
            if spec.get("solved", True):
                m.steady()
                m.solve()
            return m
        if spec["kind"] == "seq":
            T = SEQ_TEMPLATES[spec["template"]]
            m = ir.Sequential.from_string(T["src"], description=spec["description"])
            m.assign(**{k: v[0] for k, v in spec["params"].items()})
            m.alter_num_variants(spec["nv"])
            for k in range(spec["nv"]):
                m[k].assign(**{n: v[k] for n, v in spec["params"].items()})
            return m
        ynames = [f"y{i}" for i in range(spec["ny"])]
        xnames = [f"x{i}" for i in range(spec["nx"])]
        m = ir.RedVAR(ynames, xnames or None, order=spec["order"], intercept=spec["intercept"], num_variants=spec["nv"])
        if spec["description"]:
            m.set_description(spec["description"])
        m.estimate(var_data(spec), ir.Span(_period(0), _period(spec["nobs"] - 1)))
        return m


# =============================================================================================== clones

CLONE_METHODS = ("copy", "deepcopy", "pickle", "dill", "file", "pickle_file")


def clone(m, how: str, work):
    import irispie as ir
    import dill
    if how == "copy":
        return m.copy()
    if how == "deepcopy":
        return _copy.deepcopy(m)
    if how == "pickle":
        return pickle.loads(pickle.dumps(m))
    if how == "dill":
        return dill.loads(dill.dumps(m))
    os.makedirs(work, exist_ok=True)
    fn = os.path.join(str(work), f"clone_{os.getpid()}.bin")
    if how == "file":
        ir.save(fn, m)
        return ir.load(fn)
    if how == "pickle_file":
        if hasattr(m, "to_pickle_file"):
            m.to_pickle_file(fn)
            return type(m).from_pickle_file(fn)
        from irispie import file_io
        file_io.save_pickle(m, fn)
        return file_io.load_pickle(fn)
    raise ValueError(how)


# =============================================================================================== observations

def _f(x):
    """canonical JSON-able scalar: floats exactly (hex), None, ints, strings"""
    if x is None or isinstance(x, (str, bool)):
        return x
    if isinstance(x, (int, np.integer)):
        return int(x)
    if isinstance(x, (float, np.floating)):
        x = float(x)
        return "nan" if x != x else x.hex()
    if isinstance(x, (complex, np.complexfloating)):
        return [_f(x.real), _f(x.imag)]
    if isinstance(x, np.ndarray):
        return [_f(v) for v in x.tolist()] if x.ndim else _f(x.item())
    if isinstance(x, (list, tuple)):
        return [_f(v) for v in x]
    if isinstance(x, dict):
        return {str(k): _f(v) for k, v in x.items()}
    if isinstance(x, enum.Enum):
        return str(x)
    return repr(x)


def _databox_values(db):
    return {k: _f(db[k]) for k in db.keys()}


def observe(m) -> dict:
    """everything the public getters show (no simulation)"""
    kind = type(m).__name__
    try:
        descr = m.get_description()
    except AttributeError as e:       # RedVAR without a description (no default is set); not this property's concern
        descr = f"<{type(e).__name__}>"
    out = {"class": kind, "num_variants": m.num_variants, "description": descr}
    if kind == "Simultaneous":
        out["flags"] = int(m.get_flags())
        out["quantities"] = [[q.human, str(q.kind), q.logly, q.description] for q in m.get_quantities()]
        out["equations"] = list(m.get_equations())
        out["parameters"] = _databox_values(m.get_parameters(unpack_singleton=False))
        out["stds"] = _databox_values(m.get_stds(unpack_singleton=False))
        out["levels"] = _databox_values(m.get_steady_levels(unpack_singleton=False))
        out["changes"] = _databox_values(m.get_steady_changes(unpack_singleton=False))
        sols = []
        for s in m.get_solution(unpack_singleton=False):
            if s is None:
                sols.append(None)
                continue
            sols.append({n: _f(getattr(s, n)) for n in ("T", "P", "K", "Z", "H", "D", "Ta", "Pa", "Ka", "Za", "Ua", "eigenvalues")})
        out["solutions"] = sols
    elif kind == "Sequential":
        out["equations"] = list(m.get_equations())
        out["parameters"] = _databox_values(m.get_parameters(unpack_singleton=False))
        out["lhs_names"] = list(m.lhs_names)
    else:
        out["names"] = list(m.get_names())
        out["order"] = m.order
        sys_ = []
        for s in m.get_system_matrices(unpack_singleton=False):
            sys_.append({n: _f(getattr(s, n)) for n in ("A", "B", "c", "cov_residuals")})
        out["systems"] = sys_
        out["fitted"] = [[str(p) for p in v.fitted_periods] for v in m._variants]
    return out


def first_diff(a, b, path=""):
    """path of the first difference between two observation structures, or None"""
    if type(a) is not type(b):
        return path or "/"
    if isinstance(a, dict):
        if list(a.keys()) != list(b.keys()):
            return path + "/<keys>"
        for k in a:
            d = first_diff(a[k], b[k], f"{path}/{k}")
            if d:
                return d
        return None
    if isinstance(a, list):
        if len(a) != len(b):
            return path + "/<len>"
        for i, (x, y) in enumerate(zip(a, b)):
            d = first_diff(x, y, f"{path}/{i}")
            if d:
                return d
        return None
    return None if a == b else (path or "/")


def _sim_out(db, names, span):
    out = {}
    for n in names:
        out[n] = _f(np.asarray(db[n].get_data(span)))
    return out


# =============================================================================================== operations

def gen_ops(rng, spec, n, nv_now=None) -> list:
    ops = []
    kind = spec["kind"]
    for _ in range(n):
        r = rng.random()
        if kind == "sim":
            T = SIM_TEMPLATES[spec["template"]]
            if r < 0.35:
                names = rng.sample(list(T["vary"]), rng.randint(1, min(2, len(T["vary"]))))
                vals = {}
                for nm in names:
                    lo, hi = T["vary"][nm]
                    k = rng.choice([0, 1, 1, 2, 3])
                    vals[nm] = _rnd(rng, lo, hi) if k == 0 else [_rnd(rng, lo, hi) for _ in range(k)]
                if rng.random() < 0.2 and not T["flags"].get("deterministic"):
                    vals["std_" + T["shock"]] = [_rnd(rng, 0.1, 2.0) for _ in range(rng.randint(1, 2))]
                ops.append({"op": "assign", "values": vals})
            elif r < 0.5:
                ops.append({"op": "steady"})
            elif r < 0.65:
                ops.append({"op": "solve"})
            elif r < 0.8:
                ops.append({"op": "alter", "n": rng.choice([1, 2, 3, 4])})
            elif r < 0.93:
                ops.append({"op": "simulate", "size": _rnd(rng, -1, 1), "ant": rng.random() < 0.4, "at": rng.randint(0, 3)})
            else:
                ops.append({"op": "describe", "text": rng.choice(["changed", "", "other text"])})
        elif kind == "seq":
            T = SEQ_TEMPLATES[spec["template"]]
            if r < 0.4:
                nm = rng.choice(T["params"])
                ops.append({"op": "assign", "values": {nm: _rnd(rng, 0.05, 0.9)}, "variant": rng.choice([None, 0, 0, 1, 2])})
            elif r < 0.6:
                ops.append({"op": "alter", "n": rng.choice([1, 2, 3])})
            elif r < 0.9:
                ops.append({"op": "simulate"})
            else:
                ops.append({"op": "describe", "text": rng.choice(["changed", "", "other text"])})
        else:
            if r < 0.3:
                ops.append({"op": "estimate", "shift": rng.randint(1, 5), "len": rng.randint(20, spec["nobs"])})
            elif r < 0.45:
                ops.append({"op": "alter", "n": rng.choice([1, 2, 3])})
            elif r < 0.65:
                ops.append({"op": "simulate"})
            elif r < 0.85:
                ops.append({"op": "moments"})
            else:
                ops.append({"op": "describe", "text": rng.choice(["changed", "", "other text"])})
    return ops


def apply_op(m, op, spec):
    """apply one public operation; returns a JSON-able result (what the call shows) or {'raises': ...}"""
    import irispie as ir
    kind = spec["kind"]
    try:
        with quiet():
            o = op["op"]
            if o == "describe":
                m.set_description(op["text"])
                return None
            if o == "alter":
                m.alter_num_variants(op["n"])
                return None
            if kind == "sim":
                T = SIM_TEMPLATES[spec["template"]]
                if o == "assign":
                    m.assign(**{k: (list(v) if isinstance(v, list) else v) for k, v in op["values"].items()})
                    return None
                if o == "steady":
                    m.steady()
                    return None
                if o == "solve":
                    m.solve()
                    return None
                if o == "simulate":
                    span = _span()
                    db = ir.Databox.steady(m, span)
                    nm = ("ant_" if op["ant"] else "") + T["shock"]
                    db[nm][_period(op["at"])] = op["size"]
                    res = m.simulate(db, span)
                    res = res[0] if isinstance(res, tuple) else res
                    return _sim_out(res, T["watch"], span)
            elif kind == "seq":
                T = SEQ_TEMPLATES[spec["template"]]
                if o == "assign":
                    v = op.get("variant")
                    if v is None or v >= m.num_variants:
                        m.assign(**op["values"])
                    else:
                        m[v].assign(**op["values"])
                    return None
                if o == "simulate":
                    span = _span()
                    db = seq_data(spec, T)
                    res = m.simulate(db, span)
                    res = res[0] if isinstance(res, tuple) else res
                    return _sim_out(res, T["watch"], span)
            else:
                if o == "estimate":
                    db = var_data(spec, op["shift"], nv=m.num_variants)
                    m.estimate(db, ir.Span(_period(0), _period(op["len"] - 1)))
                    return None
                if o == "simulate":
                    db = var_data(spec)
                    a = spec["nobs"]
                    span = ir.Span(_period(a), _period(a + 3))
                    res = m.simulate(db, span)
                    res = res[0] if isinstance(res, tuple) else res
                    return _sim_out(res, [f"y{i}" for i in range(spec["ny"])], span)
                if o == "moments":
                    return {"acov": _f([np.asarray(a) for a in m.get_acov(up_to_order=1, unpack_singleton=False)[0]]),
                            "eig": _f(m.get_eigenvalues(unpack_singleton=False)),
                            "mean": _f(m.get_mean(unpack_singleton=False))}
            raise ValueError(f"unknown op {op}")
    except Exception as e:  # noqa
        return {"raises": f"{type(e).__name__}: {str(e)[:160]}"}


# =============================================================================================== object graphs

_LEAF_TYPES = None


def _leaf_types():
    global _LEAF_TYPES
    if _LEAF_TYPES is None:
        from irispie import dates as _d
        import re
        _LEAF_TYPES = (str, bytes, int, float, complex, bool, type(None), type(...), type(NotImplemented), range, slice,
                       types.BuiltinFunctionType, types.CodeType, enum.Enum, np.generic, np.dtype, _d.Period,
                       types.MethodWrapperType, types.WrapperDescriptorType, types.MethodDescriptorType,
                       types.GetSetDescriptorType, types.MemberDescriptorType, re.Pattern, np.ufunc)
    return _LEAF_TYPES


_IMMUT_CONTAINERS = (tuple, frozenset, types.FunctionType, types.MethodType, types.CellType)

KIND_CODES: dict = {}


def _kind_code(name: str) -> int:
    if name not in KIND_CODES:
        KIND_CODES[name] = len(KIND_CODES) + 1
    return KIND_CODES[name]


class Graph:
    """joint object graph of two roots: nodes 1..n, node = (kind name, mutable, children indices)"""

    def __init__(self, r1, r2):
        leaf = _leaf_types()
        moddicts = {id(vars(mod)) for mod in list(sys.modules.values()) if hasattr(mod, "__dict__")}

        def cut(o):
            return isinstance(o, (type, types.ModuleType)) or id(o) in moddicts

        self.objs = []          # keeps every object alive: ids stay valid
        index = {}
        raw_children = {}
        fglobals = set()        # ids of dictionaries that are __globals__/__builtins__ of functions
        stack = [r1, r2]
        self.dropped_leaves = 0
        while stack:
            o = stack.pop()
            if id(o) in index or cut(o):
                continue
            if isinstance(o, leaf):
                self.dropped_leaves += 1
                continue
            index[id(o)] = len(self.objs) + 1
            self.objs.append(o)
            ch = [c for c in gc.get_referents(o) if not cut(c) and not isinstance(c, leaf)]
            if isinstance(o, types.FunctionType):
                for d in (o.__globals__, getattr(o, "__builtins__", None)):
                    if isinstance(d, dict) and id(d) not in moddicts:
                        fglobals.add(id(d))
            raw_children[id(o)] = ch
            stack.extend(ch)
        # a dictionary is "function globals" only if every referrer inside the graph is a function or itself
        referrers: dict = {}
        for o in self.objs:
            for c in raw_children[id(o)]:
                referrers.setdefault(id(c), []).append(o)
        self.frozen_globals = []
        for o in self.objs:
            if id(o) in fglobals:
                rs = referrers.get(id(o), [])
                if all(isinstance(r, types.FunctionType) or id(r) in fglobals for r in rs):
                    self.frozen_globals.append(o)
        frozen_ids = {id(o) for o in self.frozen_globals}
        self.nodes = []
        for o in self.objs:
            ch = sorted({index[id(c)] for c in raw_children[id(o)] if id(c) in index})
            if id(o) in frozen_ids:
                kind, mut = "function-globals", False
            else:
                kind = type(o).__name__
                mut = not isinstance(o, _IMMUT_CONTAINERS)
            self.nodes.append((kind, mut, ch))
        self.r1 = index[id(r1)]
        self.r2 = index[id(r2)]

    def reach(self, r):
        seen, st = set(), [r]
        while st:
            i = st.pop()
            if i in seen:
                continue
            seen.add(i)
            st.extend(self.nodes[i - 1][2])
        return seen

    def verdict(self):
        """the harness' own evaluation of the checker (compared with Coq's)"""
        s1, s2 = self.reach(self.r1), self.reach(self.r2)
        both = s1 & s2
        bad = sorted(i for i in both if self.nodes[i - 1][1])
        return {"ok": not bad, "n1": len(s1), "n2": len(s2), "shared": len(both), "shared_mutable": bad}

    def describe(self, idx):
        o = self.objs[idx - 1]
        return f"{type(o).__name__}: {repr(o)[:80]}"

    def frozen_snapshot(self):
        return [(id(d), tuple((k, id(v)) for k, v in d.items())) for d in self.frozen_globals]

    def coq(self) -> str:
        items = []
        for i, (kind, mut, ch) in enumerate(self.nodes, 1):
            items.append(f"({i},N {_kind_code(kind)} {'true' if mut else 'false'} [{';'.join(map(str, ch))}])")
        return "(of_list [" + ";".join(items) + "]%positive)"


# =============================================================================================== the interleaving flow

def run_flow(spec, how, hist, work, graphs: list, stats: dict):
    """original + clone, common history, divergent histories; returns failures (dict) found on the way"""
    fails = []

    def fail(key, what, observed=None, required=None, extra=None):
        fails.append({"key": key, "what": what,
                      "input": {"spec": spec, "clone": how, "history": hist, **(extra or {})},
                      "observed": observed, "required": required})

    cls = {"sim": "Simultaneous", "seq": "Sequential", "var": "RedVAR"}[spec["kind"]]
    m = build(spec)
    try:
        c = clone(m, how, work)
    except Exception as e:  # noqa
        fail(f"clone:{cls}:{how}:raises", f"{cls}: {how} round trip raises {type(e).__name__}: {str(e)[:150]}",
             f"{type(e).__name__}: {e}"[:300], "an equivalent model")
        return fails
    g0 = Graph(m, c)
    graphs.append({"where": f"{cls}:{how}:fresh", "spec": spec, "graph": g0})
    frozen0 = g0.frozen_snapshot()
    d = first_diff(observe(m), observe(c))
    stats["equiv_checks"] += 1
    if d:
        fail(f"equivalence:{cls}:{how}:fresh", f"{cls}: the {how} clone differs from the original at {d}", d, "identical observables")
    sides = {"orig": m, "clone": c}
    # phase 1: the same history on both sides, in random order per operation
    for step, (op, first) in enumerate(zip(hist["common"], hist["order"])):
        order = ("orig", "clone") if first == 0 else ("clone", "orig")
        res = {}
        for who in order:
            other = "clone" if who == "orig" else "orig"
            before = observe(sides[other])
            res[who] = apply_op(sides[who], op, spec)
            after = observe(sides[other])
            stats["interference_checks"] += 1
            dd = first_diff(before, after)
            if dd:
                fail(f"independence:{cls}:{how}:{op['op']}",
                     f"{cls}: {op['op']} on the {who} changed the {other} (clone by {how}) at {dd}", dd,
                     "no change of the other model", {"step": step, "op": op, "acted_on": who})
        stats["ops"][op["op"]] = stats["ops"].get(op["op"], 0) + 2
        if isinstance(res["orig"], dict) and "raises" in res["orig"]:
            stats["op_errors"] += 1
        dd = first_diff(res["orig"], res["clone"])
        if dd is None:
            dd = first_diff(observe(m), observe(c))
        stats["equiv_checks"] += 1
        if dd:
            fail(f"equivalence:{cls}:{how}:{op['op']}",
                 f"{cls}: after the same history the {how} clone differs from the original at {dd} (last op {op['op']})", dd,
                 "identical results and observables", {"step": step, "op": op})
            break
    # phase 2: divergent histories
    for who, ops in (("orig", hist["only_orig"]), ("clone", hist["only_clone"])):
        other = "clone" if who == "orig" else "orig"
        for step, op in enumerate(ops):
            before = observe(sides[other])
            apply_op(sides[who], op, spec)
            after = observe(sides[other])
            stats["interference_checks"] += 1
            stats["ops"][op["op"]] = stats["ops"].get(op["op"], 0) + 1
            dd = first_diff(before, after)
            if dd:
                fail(f"independence:{cls}:{how}:{op['op']}",
                     f"{cls}: {op['op']} on the {who} changed the {other} (clone by {how}) at {dd}", dd,
                     "no change of the other model", {"phase": 2, "step": step, "op": op, "acted_on": who})
    g1 = Graph(m, c)
    graphs.append({"where": f"{cls}:{how}:after-history", "spec": spec, "graph": g1})
    if g0.frozen_snapshot() != frozen0:
        fail(f"independence:{cls}:{how}:function-globals-written",
             f"{cls}: the globals dictionary of a compiled function was modified by a public operation", None, "unchanged")
    return fails


def gen_history(rng, spec, scale=1.0) -> dict:
    n1 = rng.randint(3, max(3, int(8 * scale)))
    return {"common": gen_ops(rng, spec, n1), "order": [rng.randint(0, 1) for _ in range(n1)],
            "only_orig": gen_ops(rng, spec, rng.randint(2, max(2, int(6 * scale)))),
            "only_clone": gen_ops(rng, spec, rng.randint(2, max(2, int(6 * scale))))}


def _flow_all(ctx):
    """run the interleaving flow once per check (memoised on ctx)"""
    if getattr(ctx, "_c20_flow", None) is not None:
        return ctx._c20_flow
    rng = ctx.rng
    n = ctx.scale(66, 1500)
    stats = {"equiv_checks": 0, "interference_checks": 0, "ops": {}, "op_errors": 0, "models": {}, "clones": {}}
    graphs, fails, cases = [], [], []
    kinds = ["sim"] * 6 + ["seq"] * 2 + ["var"] * 3
    combos = [(k, h) for k in ("sim", "seq", "var") for h in CLONE_METHODS]     # every class x clone method at least once
    for i in range(n):
        if i < len(combos):
            kind_i, how = combos[i]
        else:
            kind_i, how = kinds[i % len(kinds)], rng.choice(CLONE_METHODS)
        spec = gen_spec(rng, kind_i)
        hist = gen_history(rng, spec)
        nm = spec.get("template", "RedVAR")
        stats["models"][nm] = stats["models"].get(nm, 0) + 1
        stats["clones"][how] = stats["clones"].get(how, 0) + 1
        keep = graphs if (ctx.thorough is False or i % 8 == 0) else []
        try:
            fs = run_flow(spec, how, hist, ctx.work, keep, stats)
        except Exception as e:  # noqa
            fs = [{"key": f"harness:{type(e).__name__}", "what": f"flow raised {type(e).__name__}: {str(e)[:200]}",
                   "input": {"spec": spec, "clone": how, "history": hist}, "observed": None, "required": None}]
        fails += fs
        cases.append({"spec": spec, "clone": how, "history": hist})
    ctx._c20_flow = {"stats": stats, "graphs": graphs, "fails": fails, "cases": cases}
    return ctx._c20_flow
