"""C17  Sequential-model simulation makes every equation hold, also when exogenized."""
from __future__ import annotations

import ast
import math

import numpy as np

from vf import core
from vf.core import CorrResult, Disagreement, Failure, coq_float, coq_z, coq_list
from translator import transforms as tr
from . import series_common as sc

ID = "C17"
PROPS = "props/C17.v"
GENERATED = [tr.OUT]
CASE_DEPS = ["lib/CaseUtil.vo", "model/Sequential.vo"]
CORR_WITHOUT_PROOFS = True      # the executable model follows the source also when a theorem about it fails
ALLOWED_AXIOMS = {
    "sig_forall_dec", "sig_not_dec", "functional_extensionality_dep",
    "ClassicalDedekindReals.sig_forall_dec", "ClassicalDedekindReals.sig_not_dec",
    "FunctionalExtensionality.functional_extensionality_dep",
    "classic", "Classical_Prop.classic",
}
TRUSTED = [
    "translator/transforms.py (f-string templates, _LHS_PATTERN regexes, eval_exogenized returns, the writes of "
    "Explanatory.simulate/exogenize -> gen/TransformsGen.v)",
    "numpy log/exp are black boxes: the values they return during the run are recorded and looked up by the float model",
    "the loop _simulate_v, _get_transform and _detect_exogenized are hand-modelled (model/Sequential.v) and tied by "
    "bit-exact correspondence through Sequential.simulate only",
    "the harness builds the model's initial array from the databox spec itself (window, residual fallback 0, "
    "parameter rows): a disagreement there shows up as a differing output cell",
]
ASSUMPTIONS = [
    "theorems are over Coq's real numbers (no rounding) with an arbitrary classification of values as missing; the float "
    "model is used only for the correspondence",
    "right-hand sides are arithmetic over + - * / unary minus, log, exp, tokens name[shift] and constants",
    "single parameter variant; plan shifts are negative and stay inside the dataslate window",
]

MANIFEST = {
    "technique": "Coq proof over the reals of formulas regenerated from explanatories/_transforms.py, explanatories/main.py "
                 "and plans/transforms.py; fold invariant over an arbitrary list of steps; bit-exact PrimFloat correspondence "
                 "through Sequential.simulate",
    "level_text": "Theorems (props/C17.v): each of the six LHS level formulas, regenerated from the f-string templates, inverts "
                  "the LHS expression read back from _LHS_PATTERN; each plan transform's implied level has the requested "
                  "transformed value; after Explanatory.simulate / Explanatory.exogenize (their writes regenerated from the "
                  "source) the equation transform(lhs) = rhs + residual holds at the cell; for ANY list of steps in which no later "
                  "step writes a cell an earlier step depends on, every equation holds at the end in every simulated period and "
                  "exogenized variables carry their implied values -- instantiated for execution_order=dates_equations on "
                  "sequentially ordered models and equations_dates on models whose equations read only earlier equations and "
                  "their own lags, for any number of equations, periods, lags, parameters, identities, any plan.",
    "level_note": "Trusted: Coq kernel + vm_compute; translator/transforms.py; harness; Reals axioms. Modelled not verified: "
                  "numpy log/exp (recorded), float rounding (theorems are exact over R), the parser/preparser (C04), Dataslate "
                  "construction (re-implemented in the harness and compared through the outputs).",
}

TRANSFORMS = ["none", "log", "diff", "diff_log", "roc", "pct"]
TR_COQ = {"none": "TNone", "log": "TLog", "diff": "TDiff", "diff_log": "TDiffLog", "roc": "TRoc", "pct": "TPct"}
TR_HAS_LAG = {"none": False, "log": False, "diff": True, "diff_log": True, "roc": True, "pct": True}
PK_COQ = {"none": "PNone", "log": "PLog", "diff": "PDiff", "diff_log": "PDiffLog", "roc": "PRoc", "pct": "PPct",
          "flat": "PFlat"}
PLAN_FMT = {"none": "{}", "log": "log_{}", "diff": "diff_{}", "diff_log": "diff_log_{}", "roc": "roc_{}", "pct": "pct_{}",
            "flat": None}
FREQ_CHOICES = [1, 4, 12, 0]
NAN = float("nan")


def translate(ctx):
    tr.run()


# ------------------------------------------------------------------ generation of models

def _c(rng, small=False) -> str:
    """a non-zero constant with a short exact-looking decimal text"""
    if small:
        v = rng.choice([0.01, 0.02, 0.05, 0.1, 0.125, 0.2, 0.25])
    else:
        v = rng.choice([0.1, 0.2, 0.25, 0.3, 0.5, 0.75, 0.8, 0.9, 1.5, 2, 3, 0.05, 1.25])
    return repr(v)


def _tok(name, shift) -> str:
    return name if shift == 0 else f"{name}[{shift:+d}]" if shift > 0 else f"{name}[{shift}]"


def gen_model(rng, wild: bool) -> dict:
    """wild: anything the parser accepts (leads, non-sequential order, duplicate LHS names);
    otherwise a sequentially ordered model (the property's precondition for dates_equations)."""
    neq = rng.choice([1, 2, 2, 3, 3, 4, 5, 6])
    lhs = [f"y{i + 1}" for i in range(neq)]
    if wild and neq >= 2 and rng.random() < 0.15:
        lhs[rng.randrange(1, neq)] = lhs[0]
    exo = [f"z{i + 1}" for i in range(rng.randint(0, 2))]
    params = {f"p{i + 1}": float(rng.choice([0.1, 0.25, 0.5, 0.8, -0.3, 1.0])) for i in range(rng.randint(0, 2))}
    forward_free = (not wild) and rng.random() < 0.5         # also satisfies the precondition of equations_dates
    eqs = []
    for i in range(neq):
        t = rng.choice(TRANSFORMS)
        identity = rng.random() < 0.2

        def atom(positive=False):
            pool = []
            for j in range(neq):
                if lhs[j] == lhs[i] and j != i and not wild:
                    continue
                if j < i and lhs[j] != lhs[i]:
                    pool += [(lhs[j], 0), (lhs[j], 0), (lhs[j], -1)]
                    if rng.random() < 0.2:
                        pool.append((lhs[j], -2))
                elif j == i:
                    pool += [(lhs[j], -1), (lhs[j], -1)] + ([(lhs[j], -2)] if rng.random() < 0.3 else [])
                elif not forward_free:
                    pool.append((lhs[j], -1))
                if wild and rng.random() < 0.08:
                    pool.append((lhs[j], rng.choice([0, 1])))
            for z in exo:
                pool += [(z, 0), (z, 0), (z, rng.choice([-1, 0, 1] if wild else [-1, 0]))]
            if not pool:
                pool = [(lhs[i], -1)]
            return _tok(*rng.choice(pool))

        def coef():
            if params and rng.random() < 0.35:
                return rng.choice(sorted(params))
            return _c(rng)

        def term(scale_small):
            r = rng.random()
            c = _c(rng, small=True) if scale_small else coef()
            if r < 0.45:
                return f"{c}*{atom()}"
            if r < 0.55:
                return atom() if not scale_small else f"{c}*{atom()}"
            if r < 0.65:
                return f"{atom()}/{_c(rng)}" if not scale_small else f"{c}*{atom()}/{_c(rng)}"
            if r < 0.73:
                return f"{c}*({atom()} - {atom()})"
            if r < 0.80:
                return f"{c}*log({atom()})"
            if r < 0.85:
                return f"{c}*exp({_c(rng, small=True)}*{atom()})"
            if r < 0.90:
                return f"{c}*{atom()}*{atom()}" if wild else f"{c}*{atom()}"
            if r < 0.94 and wild:
                return f"{c}/{atom()}"
            return c

        small = t in ("diff_log", "roc", "pct", "log")
        n_terms = rng.randint(1, 3)
        parts = [term(small and t != "pct") for _ in range(n_terms)]
        rhs = parts[0] if rng.random() < 0.85 else "-" + parts[0]
        for p in parts[1:]:
            rhs += (" + " if rng.random() < 0.75 else " - ") + p
        if t == "roc":
            rhs = "1 + " + rhs
        if t == "log" and rng.random() < 0.6:
            rhs = f"0.5*log({lhs[i]}[-1]) + " + rhs
        eqs.append({"lhs": lhs[i], "tr": t, "rhs": rhs, "identity": identity})
    return {"eqs": eqs, "params": params, "exo": exo, "wild": wild, "forward_free": forward_free}


def lhs_text(name, t) -> str:
    return name if t == "none" else f"{t}({name})"


def source_of(model, src_order=None) -> str:
    """model source; `src_order` lists the equations (indexes into model["eqs"]) in the order they are written"""
    lines = ["!equations"]
    for i in (src_order if src_order is not None else range(len(model["eqs"]))):
        e = model["eqs"][i]
        lines.append(f"  {lhs_text(e['lhs'], e['tr'])} {'===' if e['identity'] else '='} {e['rhs']};")
    if model["params"]:
        lines.append("!parameters")
        lines.append("  " + ", ".join(sorted(model["params"])))
    return "\n".join(lines) + "\n"


# ------------------------------------------------------------------ expression trees (from the equation text)

def parse_rhs(text: str):
    """Tree of the RHS text as Python parses it: ('c', float) | ('v', name, shift) | (op, a, b) | (fn, a)."""
    def go(n):
        if isinstance(n, ast.BinOp):
            op = {ast.Add: "add", ast.Sub: "sub", ast.Mult: "mul", ast.Div: "div"}[type(n.op)]
            return (op, go(n.left), go(n.right))
        if isinstance(n, ast.UnaryOp) and isinstance(n.op, ast.USub):
            return ("neg", go(n.operand))
        if isinstance(n, ast.UnaryOp) and isinstance(n.op, ast.UAdd):
            return go(n.operand)
        if isinstance(n, ast.Constant):
            return ("c", float(n.value))
        if isinstance(n, ast.Name):
            return ("v", n.id, 0)
        if isinstance(n, ast.Subscript) and isinstance(n.value, ast.Name):
            return ("v", n.value.id, int(ast.literal_eval(ast.unparse(n.slice).replace("+", ""))))
        if isinstance(n, ast.Call) and isinstance(n.func, ast.Name) and n.func.id in ("log", "exp") and len(n.args) == 1:
            return ({"log": "ln", "exp": "exp"}[n.func.id], go(n.args[0]))
        raise ValueError(f"unsupported RHS syntax {ast.unparse(n)}")
    return go(ast.parse(text.strip(), mode="eval").body)


def tree_tokens(tree):
    if tree[0] == "c":
        return []
    if tree[0] == "v":
        return [(tree[1], tree[2])]
    out = []
    for a in tree[1:]:
        out += tree_tokens(a)
    return out


def coq_tree(tree, rows) -> str:
    k = tree[0]
    if k == "c":
        return f"(ECst FA {coq_float(tree[1])})"
    if k == "v":
        return f"(EVar FA {rows[tree[1]]} {coq_z(tree[2])})"
    if k in ("neg", "ln", "exp"):
        return f"({ {'neg': 'ENeg', 'ln': 'ELn', 'exp': 'EExp'}[k]} FA {coq_tree(tree[1], rows)})"
    return f"({ {'add': 'EAdd', 'sub': 'ESub', 'mul': 'EMul', 'div': 'EDiv'}[k]} FA {coq_tree(tree[1], rows)} {coq_tree(tree[2], rows)})"


def eval_tree(tree, get, t):
    """numpy evaluation of a tree; get(name, column offset) -> float"""
    k = tree[0]
    with np.errstate(all="ignore"):
        if k == "c":
            return np.float64(tree[1])
        if k == "v":
            return np.float64(get(tree[1], t + tree[2]))
        if k == "neg":
            return -eval_tree(tree[1], get, t)
        if k == "ln":
            return np.log(eval_tree(tree[1], get, t))
        if k == "exp":
            return np.exp(eval_tree(tree[1], get, t))
        a, b = eval_tree(tree[1], get, t), eval_tree(tree[2], get, t)
        return {"add": a + b, "sub": a - b, "mul": a * b, "div": a / b}[k]


# ------------------------------------------------------------------ generation of data, plans, options

def model_layout(model) -> dict:
    """names, rows and the dataslate window as the harness derives them from the model text"""
    eqs = model["eqs"]
    lhs_names, res_names = [], []
    toks = []
    for e in eqs:
        tree = parse_rhs(e["rhs"])
        if e["lhs"] not in lhs_names:
            lhs_names.append(e["lhs"])
        toks.append((e["lhs"], 0))
        if TR_HAS_LAG[e["tr"]]:
            toks.append((e["lhs"], -1))
        toks += tree_tokens(tree)
        if not e["identity"]:
            rn = "res_" + e["lhs"]
            if rn not in res_names:
                res_names.append(rn)
    others = []
    for n, _ in toks:
        if n not in lhs_names and n not in others and n not in model["params"]:
            others.append(n)
    params = [p for p in sorted(model["params"]) if any(n == p for n, _ in toks)]
    return {"lhs": lhs_names, "res": res_names, "others": others, "params": params,
            "min_shift": min(s for _, s in toks), "max_shift": max(s for _, s in toks)}


def gen_case(rng, wild=None) -> dict:
    wild = (rng.random() < 0.3) if wild is None else wild
    model = gen_model(rng, wild)
    lay = model_layout(model)
    freq = rng.choice(FREQ_CHOICES)
    start = (2000 + rng.randint(0, 25)) * freq + rng.randint(0, max(freq - 1, 0)) if freq else rng.randint(5, 60)
    nper = rng.randint(1, 6)
    lo, hi = lay["min_shift"], nper - 1 + lay["max_shift"]
    positive = any(e["tr"] in ("log", "diff_log", "roc", "pct") for e in model["eqs"]) or "log(" in source_of(model)

    def val():
        v = rng.choice([0.5, 0.75, 1.0, 1.25, 1.5, 2.0, 2.5, 3.0, 0.8, 1.1, 4.0])
        if not positive and rng.random() < 0.3:
            v = -v
        if wild and rng.random() < 0.02:
            v = 0.0
        return float(v)

    p_nan = rng.choice([0.0, 0.0, 0.05, 0.15])
    db = {}
    for n in lay["lhs"]:
        # initial conditions, sometimes also in-sample values (used when the name itself is exogenized)
        a = lo - rng.randint(0, 1)
        b = hi if rng.random() < 0.6 else max(lo, -1)
        if lo == 0 and rng.random() < 0.5 and b < 0:
            continue
        db[n] = {"off": a, "values": [val() if rng.random() >= p_nan else NAN for _ in range(a, max(b, a) + 1)]}
    for n in lay["others"]:
        a, b = lo - rng.randint(0, 1), hi + rng.randint(0, 1)
        if rng.random() < 0.05:
            b = max(a, b - 2)
        db[n] = {"off": a, "values": [val() if rng.random() >= p_nan else NAN for _ in range(a, b + 1)]}
    resid_mode = rng.choice(["none", "some", "all", "all"])
    for n in lay["res"]:
        if resid_mode == "none" or (resid_mode == "some" and rng.random() < 0.5):
            continue
        a = rng.choice([lo, 0, 0, 1]) if nper > 1 else rng.choice([lo, 0])
        b = max(a, nper - 1 - rng.choice([0, 0, 1]))
        db[n] = {"off": a, "values": [rng.choice([0.0, 0.1, -0.2, 0.3, 0.05, -0.01]) if rng.random() >= p_nan / 2 else NAN
                                      for _ in range(a, b + 1)]}
    opts = {"order": rng.choice(["dates_equations", "equations_dates"]),
            "shocks_from_data": rng.random() < 0.88,
            "parameters_from_data": bool(lay["params"]) and rng.random() < 0.15,
            "when_simulates_nan": rng.choice(["warning", "silent", "silent", "error"])}
    if opts["parameters_from_data"]:
        for p in lay["params"]:
            if rng.random() < 0.7:
                a = rng.choice([lo, 0])
                db[p] = {"off": a, "values": [float(rng.choice([0.2, 0.4, 0.6])) if rng.random() >= 0.2 else NAN
                                              for _ in range(a, hi + 1)]}
    # plan
    plan = []
    exogenizable = sorted({e["lhs"] for e in model["eqs"] if not e["identity"]})
    if exogenizable and rng.random() < 0.75:
        for _ in range(rng.randint(1, 3)):
            # ONE plan.exogenize call: one or several names (a list, or ... = every exogenizable name)
            r = rng.random()
            ell_names = False
            if len(exogenizable) >= 2 and r < 0.4:
                if r < 0.1:
                    names, ell_names = list(exogenizable), True
                else:
                    names = sorted(rng.sample(exogenizable, rng.randint(2, min(3, len(exogenizable)))))
                    rng.shuffle(names)
            else:
                names = [rng.choice(exogenizable)]
            kind = rng.choice(["none", "none", "log", "diff", "diff_log", "roc", "pct", "flat"])
            ell_dates = rng.random() < 0.1
            cols = list(range(nper)) if ell_dates else sorted(rng.sample(range(nper), rng.randint(1, nper)))
            shift = -1
            if kind in ("diff", "diff_log", "roc", "pct", "flat"):
                # values_before[shift] must exist: column + shift >= 0 in the dataslate
                room = cols[0] - lo
                if room < 1:
                    ell_dates = False
                    cols = [c for c in cols if c - lo >= 1]
                    if not cols:
                        continue
                    room = cols[0] - lo
                if room >= 2 and rng.random() < 0.2:
                    shift = -2
            p = {"names": names, "kind": kind, "cols": cols, "when_data": rng.random() < 0.35, "shift": shift,
                 "name_format": None, "ellipsis_names": ell_names, "ellipsis_dates": ell_dates}
            if kind != "flat" and rng.random() < 0.1:
                p["name_format"] = "exo_{}_" + kind
            plan.append(p)
            for name in names:
                dbn = plan_databox_name(p, name)
                if dbn is not None and rng.random() < 0.92:
                    full = rng.random() < 0.6
                    a, b = (0, nper - 1) if full else (min(cols), max(cols))
                    pn = 0.3 if p["when_data"] else p_nan
                    if kind in ("none",):
                        vals = [val() if rng.random() >= pn else NAN for _ in range(a, b + 1)]
                        if dbn in db:      # keep initial conditions, overwrite in-sample values
                            old = db[dbn]
                            vv = {old["off"] + i: x for i, x in enumerate(old["values"])}
                            vv.update({a + i: x for i, x in enumerate(vals)})
                            ks = range(min(vv), max(vv) + 1)
                            db[dbn] = {"off": min(vv), "values": [vv.get(k_, NAN) for k_ in ks]}
                        else:
                            db[dbn] = {"off": a, "values": vals}
                    else:
                        gen = {"log": lambda: rng.choice([0.0, 0.5, -0.5, 1.0, 0.25, -0.25]),
                               "diff": lambda: rng.choice([0.5, -0.25, 1.0, 0.1, 0.75, -0.5]),
                               "diff_log": lambda: rng.choice([0.01, 0.05, -0.02, 0.1, 0.03, -0.04]),
                               "roc": lambda: rng.choice([1.01, 1.05, 0.98, 1.1, 0.95, 1.02]),
                               "pct": lambda: rng.choice([1.0, 5.0, -2.0, 0.5, 2.5, -1.0])}[kind]
                        db[dbn] = {"off": a, "values": [float(gen()) if rng.random() >= pn else NAN
                                                         for _ in range(a, b + 1)]}
                if rng.random() < 0.2:
                    _zero_implied_point(rng, db, p, name)
    # the order in which the equations are written, and what is done to the model object before it is simulated
    neq = len(model["eqs"])
    src_order = list(range(neq))
    ops = []
    if neq >= 2 and rng.random() < 0.35:
        rng.shuffle(src_order)
        r = rng.random()
        if r < 0.45 and not wild:       # (the generated order of a non-wild model is sequential, so one exists)
            ops.append(["sequentialize"])
        elif r < 0.9:
            # reorder_equations back into the generated order: new_order[k] = position of equation k in the source
            ops.append(["reorder", [src_order.index(k) for k in range(neq)]])
        # else: simulated as written (a model that is possibly not sequentially ordered)
    elif neq >= 2 and rng.random() < 0.1:
        perm = list(range(neq)); rng.shuffle(perm)
        ops.append(["reorder", perm])
        if rng.random() < 0.5 and not wild:
            ops.append(["sequentialize"])
    if rng.random() < 0.15:
        ops.insert(rng.randint(0, len(ops)), ["copy"])
    opts["assign_after_ops"] = rng.random() < 0.3
    return {"model": model, "source": source_of(model, src_order), "src_order": src_order, "ops": ops,
            "freq": freq, "start": start, "nper": nper, "db": db, "plan": plan, "opts": opts}


def _db_get(db, name, k):
    s = db.get(name)
    if s is not None and 0 <= k - s["off"] < len(s["values"]):
        return s["values"][k - s["off"]]
    return NAN


def _db_set(db, name, k, v):
    s = db.get(name)
    vv = {} if s is None else {s["off"] + i: x for i, x in enumerate(s["values"])}
    vv[k] = float(v)
    db[name] = {"off": min(vv), "values": [vv.get(j, NAN) for j in range(min(vv), max(vv) + 1)]}


def _zero_implied_point(rng, db, p, name=None):
    """Make the implied LEVEL of one exogenized point of plan entry p exactly 0.0 (a level pinned at zero, a rate of
    change of 0, a percent change of -100, a difference of minus the reference level, a flat path from a zero level):
    `0.0` is a perfectly good exogenized value and must not be taken for "no value"."""
    name = name if name is not None else plan_names(p)[0]
    kind, sh = p["kind"], p["shift"]
    dbn = plan_databox_name(p, name)
    c = rng.choice(p["cols"])
    if kind == "none":
        _db_set(db, dbn, c, 0.0)
    elif kind == "roc":
        _db_set(db, dbn, c, 0.0)
    elif kind == "pct":
        _db_set(db, dbn, c, -100.0)
    elif kind == "diff":
        # the reference value must be known in advance: an initial condition (or an input value not simulated over)
        pres = [k for k in p["cols"] if k + sh < 0]
        if not pres:
            return
        c = rng.choice(pres)
        ref = _db_get(db, name, c + sh)
        if ref != ref:
            ref = 1.0
            _db_set(db, name, c + sh, ref)
        _db_set(db, dbn, c, -ref)
    elif kind == "flat":
        pres = [k for k in p["cols"] if k + sh < 0]
        if pres:
            _db_set(db, name, rng.choice(pres) + sh, 0.0)
    # log / diff_log: exp(.) is never zero


def plan_names(p, case_or_model=None) -> list:
    """LHS names a plan entry (ONE plan.exogenize call) covers"""
    return list(p["names"]) if "names" in p else [p["name"]]


def plan_databox_name(p, name=None) -> str | None:
    fmt = p.get("name_format") or PLAN_FMT[p["kind"]]
    return None if fmt is None else fmt.format(name if name is not None else plan_names(p)[0])


def plan_points(case) -> dict:
    """the exogenized register: (name, column) -> (plan entry, databox name); later calls overwrite earlier ones"""
    reg = {}
    for p in case["plan"]:
        for n in plan_names(p):
            for c in p["cols"]:
                reg[(n, c)] = (p, plan_databox_name(p, n))
    return reg


# ---- operations applied to the model object between construction and simulation

def final_order(case, seq_oracle=None) -> list:
    """Equation order (indexes into model["eqs"]) after the source order and the case's operations.
    reorder_equations(new_order): explanatories = [old[i] for i in new_order].  The permutation returned by
    sequentialize() (the blazer's choice, property C16) is an oracle recorded from the implementation."""
    cur = list(case.get("src_order") or range(len(case["model"]["eqs"])))
    k = 0
    for op in case.get("ops", []):
        if op[0] == "reorder":
            cur = [cur[i] for i in op[1]]
        elif op[0] == "sequentialize":
            perm = (seq_oracle or [])[k] if seq_oracle is not None and k < len(seq_oracle) else None
            k += 1
            if perm is not None:
                if sorted(perm) != list(range(len(cur))):
                    raise ValueError(f"sequentialize returned {perm}, not a permutation")
                cur = [cur[i] for i in perm]
    return cur


def is_sequential_order(model, order) -> bool:
    """no equation reads, at shift 0, the LHS of itself or of a later equation (the precondition of dates_equations)"""
    pos = {}
    for k, i in enumerate(order):
        pos.setdefault(model["eqs"][i]["lhs"], k)
    if len(pos) != len(order):
        return False
    for k, i in enumerate(order):
        for n, sh in tree_tokens(parse_rhs(model["eqs"][i]["rhs"])):
            if n in pos and sh == 0 and pos[n] >= k:
                return False
            if n in pos and sh > 0:
                return False
    return True


# ------------------------------------------------------------------ implementation

class Recorder:
    """Records (argument, value) of every scalar numpy log/exp call made by the equations and the plan transforms."""

    def __init__(self):
        self.ln, self.exp = {}, {}

    @staticmethod
    def _k(x):
        return "nan" if x != x else float(x).hex()

    def _wrap(self, f, store):
        def g(x, *a, **k):
            y = f(x, *a, **k)
            try:
                xs, ys = np.asarray(x, dtype=float).ravel().tolist(), np.asarray(y, dtype=float).ravel().tolist()
                for p, q in zip(xs, ys):
                    store[self._k(p)] = (p, q)
            except Exception:  # noqa
                pass
            return y
        return g

    def __enter__(self):
        from irispie.aldi import adaptations as ad
        from irispie.plans import transforms as pt
        self._ad, self._pt = ad, pt
        self._old = (ad._ELEMENTWISE_FUNCTIONS["log"], ad._ELEMENTWISE_FUNCTIONS["exp"], pt._np)
        ad._ELEMENTWISE_FUNCTIONS["log"] = self._wrap(self._old[0], self.ln)
        ad._ELEMENTWISE_FUNCTIONS["exp"] = self._wrap(self._old[1], self.exp)
        rec = self

        class NP:
            def __getattr__(self_, nm):
                if nm == "exp":
                    return rec._wrap(np.exp, rec.exp)
                if nm == "log":
                    return rec._wrap(np.log, rec.ln)
                return getattr(np, nm)
        pt._np = NP()
        return self

    def __exit__(self, *a):
        self._ad._ELEMENTWISE_FUNCTIONS["log"], self._ad._ELEMENTWISE_FUNCTIONS["exp"], self._pt._np = self._old

    def merge(self, other):
        self.ln.update(other.ln); self.exp.update(other.exp)

    def coq(self) -> str:
        with np.errstate(all="ignore"):
            for x in (NAN, 0.0, 1.0):
                self.ln.setdefault(self._k(x), (x, float(np.log(x))))
                self.exp.setdefault(self._k(x), (x, float(np.exp(x))))
        ln = coq_list([f"({coq_float(a)}, {coq_float(b)})" for a, b in self.ln.values()])
        ex = coq_list([f"({coq_float(a)}, {coq_float(b)})" for a, b in self.exp.values()])
        return f"{{| t_ln := {ln}; t_exp := {ex}; t_pow := [] |}}"


def apply_ops(m, case):
    """the case's operations on the model object; returns (model, permutations returned by sequentialize)"""
    oracle = []
    for op in case.get("ops", []):
        if op[0] == "reorder":
            m.reorder_equations(list(op[1]))
        elif op[0] == "sequentialize":
            oracle.append([int(i) for i in m.sequentialize()])
        elif op[0] == "copy":
            m = m.copy()
        else:
            raise ValueError(op)
    return m, oracle


def build_inputs(case):
    import irispie as ir
    m = ir.Sequential.from_string(case["source"])
    late = case["opts"].get("assign_after_ops", False)
    if case["model"]["params"] and not late:
        m.assign(**case["model"]["params"])
    m, oracle = apply_ops(m, case)
    if case["model"]["params"] and late:
        m.assign(**case["model"]["params"])
    start = sc.mk_period(case["freq"], case["start"])
    span = ir.Span(start, start + case["nper"] - 1)
    db = ir.Databox()
    for n, s in case["db"].items():
        db[n] = ir.Series(start=start + s["off"], values=np.array(s["values"], dtype=float))
    plan = None
    if case["plan"]:
        plan = ir.SimulationPlan(m, span)
        for p in case["plan"]:
            kw = {}
            if p["when_data"]:
                kw["when_data"] = True
            if p["shift"] != -1:
                kw["shift"] = p["shift"]
            if p.get("name_format"):
                kw["name_format"] = p["name_format"]
            names = plan_names(p)
            names_arg = ... if p.get("ellipsis_names") else (names[0] if len(names) == 1 and "names" not in p else list(names))
            dates_arg = ... if p.get("ellipsis_dates") else tuple(start + c for c in p["cols"])
            plan.exogenize(dates_arg, names_arg, transform=None if p["kind"] == "none" else p["kind"], **kw)
    return m, start, span, db, plan, oracle


def series_values(x, start, lo, hi):
    """values of a databox item at start+lo .. start+hi (NaN outside its range)"""
    import irispie as ir
    if not hasattr(x, "get_data"):
        return [float(x)] * (hi - lo + 1)
    if x.start is None:
        return [NAN] * (hi - lo + 1)
    return [float(v) for v in np.asarray(x.get_data(ir.Span(start + lo, start + hi)), dtype=float)[:, 0]]


def _observe(case, out, start) -> dict:
    lay = model_layout(case["model"])
    lo = lay["min_shift"]
    res = {"names": sorted(out.keys()), "base": {}, "pre": {}}
    for n in out.keys():
        res["base"][n] = series_values(out[n], start, 0, case["nper"] - 1)
        if lo < 0:
            res["pre"][n] = series_values(out[n], start, lo, -1)
    return res


def _err(e) -> dict:
    cause = e.__cause__
    return {"err": type(e).__name__, "exc": f"{type(e).__name__}: {e}"[:300],
            "cause": f"{type(cause).__name__}: {cause}"[:200] if cause else None}


def run_impl_multi(case, orders, recorders=None) -> list:
    """Sequential.simulate through the public API, once per entry of `orders`, on ONE model object, ONE databox and ONE
    plan object (state carried from one call to the next must not matter).  Each result carries the equation order
    after the case's operations (`eq_order`, with sequentialize's permutation as recorded) and the LHS names in
    equation order as the model object reports them."""
    import warnings
    try:
        with warnings.catch_warnings(record=True), np.errstate(all="ignore"):
            m, start, span, db, plan, oracle = build_inputs(case)
        eq_order = final_order(case, oracle)
        lhs_in_eqs = list(m.lhs_names_in_equations)
    except Exception as e:  # noqa
        return [dict(_err(e), stage="build") for _ in orders]
    o = case["opts"]
    outs = []
    for k, order in enumerate(orders):
        try:
            kwargs = dict(plan=plan, execution_order=order, shocks_from_data=o["shocks_from_data"],
                          parameters_from_data=o["parameters_from_data"], when_simulates_nan=o["when_simulates_nan"])
            with warnings.catch_warnings(record=True), np.errstate(all="ignore"):
                # (the simulator resets the warning filters itself; numpy's warnings are silenced via errstate)
                if recorders is not None:
                    with recorders[k]:
                        out = m.simulate(db, span, **kwargs)
                else:
                    out = m.simulate(db, span, **kwargs)
            outs.append({"ok": _observe(case, out, start), "eq_order": eq_order, "lhs_in_eqs": lhs_in_eqs})
        except Exception as e:  # noqa
            outs.append(dict(_err(e), eq_order=eq_order, lhs_in_eqs=lhs_in_eqs))
    return outs


def run_impl(case, order=None, recorder=None) -> dict:
    return run_impl_multi(case, [order or case["opts"]["order"]], None if recorder is None else [recorder])[0]


# ------------------------------------------------------------------ the model's inputs, as the harness derives them

def model_inputs(case) -> dict:
    lay = model_layout(case["model"])
    names = list(lay["lhs"]) + list(lay["others"]) + list(lay["params"]) + list(lay["res"])
    for p in case["plan"]:
        for n in plan_names(p):
            dn = plan_databox_name(p, n)
            if dn is not None and dn not in names:
                names.append(dn)
    rows = {n: i for i, n in enumerate(names)}
    lo, hi = lay["min_shift"], case["nper"] - 1 + lay["max_shift"]
    o = case["opts"]
    table = []
    for n in names:
        s = case["db"].get(n)
        vals = []
        for k in range(lo, hi + 1):
            v = NAN
            if s is not None and 0 <= k - s["off"] < len(s["values"]):
                v = s["values"][k - s["off"]]
            vals.append(v)
        if n in lay["res"]:
            vals = [0.0 if (v != v or not o["shocks_from_data"]) else v for v in vals]
        if n in lay["params"]:
            pv = case["model"]["params"][n]
            vals = [pv if (v != v or not o["parameters_from_data"]) else v for v in vals]
        table.append(vals)
    out_names = list(lay["lhs"]) + list(lay["others"]) + list(lay["res"])
    if o["parameters_from_data"]:
        out_names += list(lay["params"])
    # the exogenized register: later calls overwrite earlier ones
    reg = {}
    for (n, c), (p, dn) in plan_points(case).items():
        reg[(n, c)] = (p["kind"], p["when_data"], p["shift"], None if dn is None else rows[dn])
    return {"lay": lay, "names": names, "rows": rows, "lo": lo, "hi": hi, "table": table, "out_names": out_names,
            "register": reg}


# ------------------------------------------------------------------ Coq rendering

HEADER = """From Coq Require Import ZArith List Bool PrimFloat.
From Verif Require Import lib.Arith lib.CaseUtil model.Sequential.
Import ListNotations.
Open Scope Z_scope.
Set Printing Width 1000000.
Set Printing Depth 1000000.
"""


def coq_case(case, mi, order, eq_order=None) -> str:
    rows, lo = mi["rows"], mi["lo"]
    eqs = []
    for i in (eq_order if eq_order is not None else final_order(case)):
        e = case["model"]["eqs"][i]
        tree = parse_rhs(e["rhs"])
        res = "None" if e["identity"] else f"(Some {rows['res_' + e['lhs']]}%nat)"
        eqs.append(f"mkEqn FA {rows[e['lhs']]} {TR_COQ[e['tr']]} {coq_tree(tree, rows)} {res}")
    pts = []
    for (name, c), (kind, wd, shift, prow) in mi["register"].items():
        pr = "None" if prow is None else f"(Some {prow}%nat)"
        pts.append(f"(({rows[name]}%nat, {coq_z(c - lo)}), mkPP {PK_COQ[kind]} {core.coq_bool(wd)} {coq_z(shift)} {pr})")
    cols = coq_list([coq_z(c - lo) for c in range(case["nper"])])
    table = coq_list([coq_list([coq_float(v) for v in r]) for r in mi["table"]], sep=";\n      ")
    cells = coq_list([f"({rows[n]}%nat, {coq_z(c - lo)})" for n in mi["out_names"] for c in range(case["nper"])])
    o = "DatesEquations" if order == "dates_equations" else "EquationsDates"
    return (f"(let eqs := {coq_list(eqs, sep=';' + chr(10) + '      ')} in\n"
            f"    let pl := plan_of_list {coq_list(pts)} in\n"
            f"    let d0 := data_of_rows FA {table} in\n"
            f"    let steps := steps_of FA {o} {cols} eqs in\n"
            f"    (Nat.eqb (count_nonfinite FA pl steps d0) 0, out_cells FA (run FA pl steps d0) {cells}))")


def expected_of(case, mi, out) -> tuple[str, list]:
    """what the model must reproduce: (no non-finite value was reported, output cells)"""
    if "ok" in out:
        vals = [v for n in mi["out_names"] for v in out["ok"]["base"].get(n, [NAN] * case["nper"])]
        return None, vals
    return out["err"], []


def shard_text(items, rec: Recorder) -> str:
    """items: (case, model inputs, order, output).  In when_simulates_nan='error' mode a raised IrisPieCritical
    is compared with the model's count of non-finite reports; otherwise the cells are compared."""
    lines = [HEADER, f"Definition tb : ftables := {rec.coq()}.", "Notation FA := (FArith tb).",
             "Definition cell_cases : list (list float * list float) := ["]
    cc, ff = [], []
    for case, mi, order, out in items:
        err, vals = expected_of(case, mi, out)
        body = coq_case(case, mi, order, out["eq_order"])
        if err is None:
            cc.append(f"  (snd {body},\n   {coq_list([coq_float(v) for v in vals])})")
            if case["opts"]["when_simulates_nan"] == "error":
                ff.append(f"  (fst {body}, true)")
        else:
            ff.append(f"  (fst {body}, false)")
            cc.append("  ([], [])")
    lines.append(";\n".join(cc))
    lines.append("].")
    lines.append("Definition flag_cases : list (bool * bool) := [")
    lines.append(";\n".join(ff))
    lines.append("].")
    lines.append("Eval vm_compute in (failing (list_eqb feq) cell_cases 0).")
    lines.append("Eval vm_compute in (failing Bool.eqb flag_cases 0).")
    return "\n".join(lines) + "\n"


# ------------------------------------------------------------------ correspondence

def _case_stats(case, out, dist):
    for e in case["model"]["eqs"]:
        dist["transform"][e["tr"]] = dist["transform"].get(e["tr"], 0) + 1
        dist["identities"] += int(e["identity"])
    dist["equations"][str(len(case["model"]["eqs"]))] = dist["equations"].get(str(len(case["model"]["eqs"])), 0) + 1
    dist["periods"][str(case["nper"])] = dist["periods"].get(str(case["nper"]), 0) + 1
    for p in case["plan"]:
        k = ("?" if p["when_data"] else "!") + p["kind"]
        dist["plan_points"][k] = dist["plan_points"].get(k, 0) + len(p["cols"])
    dist["wild_models"] += int(case["model"]["wild"])
    for p in case["plan"]:
        dist["multi_name_exogenize_calls"] = dist.get("multi_name_exogenize_calls", 0) + int(len(plan_names(p)) > 1)
    for op in case.get("ops", []):
        dist.setdefault("model_ops", {})[op[0]] = dist.setdefault("model_ops", {}).get(op[0], 0) + 1
    dist["source_order_shuffled"] = dist.get("source_order_shuffled", 0) + int(case["src_order"] != sorted(case["src_order"]))
    for (name, c), (p, dbn) in plan_points(case).items():
        exo = _db_get(case["db"], dbn, c) if dbn else NAN
        ref = _db_get(case["db"], name, c + p["shift"])
        z = {"none": exo == 0, "roc": exo == 0 and ref == ref, "pct": exo == -100 and ref == ref,
             "diff": exo == exo and exo == -ref, "flat": ref == 0}.get(p["kind"], False)
        dist["zero_implied_points"] = dist.get("zero_implied_points", 0) + int(bool(z))
    dist["with_input_residuals"] += int(any(n.startswith("res_") for n in case["db"]))
    dist["with_missing_inputs"] += int(any(v != v for s in case["db"].values() for v in s["values"]))
    if "err" in out:
        dist["errors"][out["err"]] = dist["errors"].get(out["err"], 0) + 1


def correspondence(ctx) -> CorrResult:
    rng = ctx.rng
    n_models = ctx.scale(300, 6000)
    per = 80
    res = CorrResult()
    dist = {"transform": {}, "equations": {}, "periods": {}, "plan_points": {}, "errors": {}, "identities": 0,
            "wild_models": 0, "with_input_residuals": 0, "with_missing_inputs": 0, "order": {}}
    items = []
    recs = []
    harness_errors = 0
    for k in range(n_models):
        case = gen_case(rng)
        mi = model_inputs(case)
        orders = ["dates_equations", "equations_dates"]
        if rng.random() < 0.5:
            orders.reverse()
        case_recs = [Recorder(), Recorder()]
        outs = run_impl_multi(case, orders, case_recs)        # both orders on the same model / databox / plan objects
        for order, rec, out in zip(orders, case_recs, outs):
            if "eq_order" in out and out["lhs_in_eqs"] != [case["model"]["eqs"][i]["lhs"] for i in out["eq_order"]]:
                res.disagreements.append(Disagreement(
                    "equation order after reorder_equations/sequentialize", {"case": case, "order": order},
                    [case["model"]["eqs"][i]["lhs"] for i in out["eq_order"]], out["lhs_in_eqs"]))
                continue
            if "err" in out and not (out["err"] in ("IrisPieError", "IrisPieCritical") and case["opts"]["when_simulates_nan"] == "error"
                                     and "nan or inf" in out["exc"]):
                harness_errors += 1
                res.disagreements.append(Disagreement("simulate raises", {"case": case, "order": order},
                                                      "the model simulates every generated case", out))
                continue
            items.append((case, mi, order, out))
            recs.append(rec)
            dist["order"][order] = dist["order"].get(order, 0) + 1
            if order == "dates_equations":
                _case_stats(case, out, dist)
            # glue: presample of the output equals the input
            if "ok" in out:
                d = _presample_mismatch(case, mi, out)
                if d:
                    res.disagreements.append(Disagreement("prepend_input", {"case": case, "order": order}, d[0], d[1]))
    res.evaluations = len(items)
    res.distinct_nontrivial = len({(c["source"], repr(c["db"]), repr(c["plan"]), o) for c, _, o, out in items
                                   if "ok" in out and c["nper"] * len(c["model"]["eqs"]) >= 2})
    res.distribution = dist
    res.rule = ("one generated Sequential model (1-6 equations; LHS transforms none/log/diff/diff_log/roc/pct; identities; "
                "lags, leads of exogenous names, parameters; 30% 'wild' models with non-sequential order / leads / duplicate "
                "LHS names), one input databox (initial conditions, residual paths, missing values, plan series), one plan "
                "(direct / transformed / when_data / shift / custom name format) and options; simulated through "
                "Sequential.from_string + SimulationPlan + Sequential.simulate under BOTH execution orders; every output "
                "cell on the simulation span compared bit for bit; non-trivial = simulated without error and at least two "
                "equation-period steps; distinct = distinct (source, databox, plan, order)")
    res.samples = [{"source": c["source"], "plan": c["plan"], "opts": c["opts"], "order": o,
                    "impl": (out.get("ok") or out)} for c, _, o, out in items[:3]]
    shards, texts = [], []
    for i in range(0, len(items), per):
        chunk = items[i:i + per]
        rec = Recorder()
        for r in recs[i:i + per]:
            rec.merge(r)
        shards.append(chunk)
        texts.append(shard_text(chunk, rec))
    results = core.run_cases(ctx, texts, timeout=ctx.scale(900, 3000))
    res.shards = len(texts)
    for k, (ok, out) in enumerate(results):
        chunk = shards[k]
        if not ok:
            res.disagreements.append(Disagreement(f"cases shard {k} does not evaluate", None, out[-800:], None))
            continue
        bodies = core.parse_eval_lists(out)
        if len(bodies) != 2:
            res.disagreements.append(Disagreement(f"cases shard {k}: unparsable output", None, out[-600:], None))
            continue
        for i in core.parse_nat_list(bodies[0]):
            case, mi, order, o = chunk[i]
            res.disagreements.append(Disagreement(f"output cells ({order})", {"case": case, "order": order},
                                                  "model output differs in at least one cell", o.get("ok", o)))
        flagged = [x for x in chunk if "err" in x[3] or x[0]["opts"]["when_simulates_nan"] == "error"]
        for i in core.parse_nat_list(bodies[1]):
            case, mi, order, o = flagged[i]
            res.disagreements.append(Disagreement(f"non-finite report ({order})", {"case": case, "order": order},
                                                  "model count of non-finite reports disagrees with when_simulates_nan='error'",
                                                  o.get("exc", "no error raised")))
    if harness_errors:
        res.notes.append(f"{harness_errors} generated case(s) raised in the implementation")
    return res


def _presample_mismatch(case, mi, out):
    lo = mi["lo"]
    if lo >= 0:
        return None
    for n, got in out["ok"]["pre"].items():
        if all(v != v for v in out["ok"]["base"][n]):
            continue        # an all-missing output is an empty Series; underlaying onto it is Series behaviour (C10)
        s = case["db"].get(n)
        want = []
        for k in range(lo, 0):
            v = NAN
            if s is not None and 0 <= k - s["off"] < len(s["values"]):
                v = s["values"][k - s["off"]]
            want.append(v)
        if not all(sc.floats_equal(a, b) for a, b in zip(got, want)):
            return ({"name": n, "presample expected (input)": want}, {"name": n, "presample": got})
    return None


# ------------------------------------------------------------------ falsifier: the property on the public API

def _transform_value(kind, x, lag):
    with np.errstate(all="ignore"):
        x, lag = np.float64(x), np.float64(lag)
        return {"none": lambda: x, "log": lambda: np.log(x), "diff": lambda: x - lag,
                "diff_log": lambda: np.log(x) - np.log(lag), "roc": lambda: x / lag,
                "pct": lambda: 100 * (x / lag - 1), "flat": lambda: x - lag}[kind]()


def _rounding_scale(kind, x, lag) -> float:
    """magnitude of the quantities whose rounding error enters transform(x, lag) when it is recomputed from the
    output levels (a difference of huge levels, of logs, 100*(ratio-1)): the comparison tolerance is relative to it"""
    x, lag = abs(float(x)), abs(float(lag))
    if kind in ("diff", "flat"):
        return x + lag
    if kind == "log":
        return abs(math.log(x)) if x > 0 else 0.0
    if kind == "diff_log":
        return (abs(math.log(x)) if x > 0 else 0.0) + (abs(math.log(lag)) if lag > 0 else 0.0)
    if kind == "pct":
        return 100.0 * (1 + (x / lag if lag > 0 else 0.0))
    if kind == "roc":
        return x / lag if lag > 0 else 0.0
    return x


def _finite(*xs):
    return all(math.isfinite(float(x)) for x in xs)


def repro_script(case, order) -> str:
    """A self-contained Python snippet reproducing the simulation of a case through the public API."""
    f = {1: "yy({0})", 4: "qq({0}, {1})", 12: "mm({0}, {1})", 0: "ii({0})"}[case["freq"]]
    fr = case["freq"]
    start = f.format(case["start"]) if fr in (0,) else (f.format(case["start"]) if fr == 1 else
                                                      f.format(case["start"] // fr, case["start"] % fr + 1))
    L = ["import numpy as np, irispie as ir", f"m = ir.Sequential.from_string({case['source']!r})"]
    late = case["opts"].get("assign_after_ops", False)
    if case["model"]["params"] and not late:
        L.append(f"m.assign(**{case['model']['params']!r})")
    for op in case.get("ops", []):
        L.append({"reorder": lambda: f"m.reorder_equations({list(op[1])!r})", "sequentialize": lambda: "m.sequentialize()",
                  "copy": lambda: "m = m.copy()"}[op[0]]())
    if case["model"]["params"] and late:
        L.append(f"m.assign(**{case['model']['params']!r})")
    L += [f"start = ir.{start}; span = start >> start + {case['nper'] - 1}", "db = ir.Databox()"]
    for n, s_ in case["db"].items():
        vals = ", ".join("np.nan" if v != v else repr(v) for v in s_["values"])
        L.append(f"db[{n!r}] = ir.Series(start=start + ({s_['off']}), values=np.array([{vals}]))")
    if case["plan"]:
        L.append("plan = ir.SimulationPlan(m, span)")
        for p in case["plan"]:
            kw = "".join([", when_data=True" if p["when_data"] else "", f", shift={p['shift']}" if p["shift"] != -1 else "",
                          f", name_format={p['name_format']!r}" if p.get("name_format") else ""])
            cols = "..." if p.get("ellipsis_dates") else "(" + ", ".join(f"start + {c}" for c in p["cols"]) + ",)"
            nm = plan_names(p)
            names = "..." if p.get("ellipsis_names") else (repr(nm[0]) if "names" not in p else repr(list(nm)))
            L.append(f"plan.exogenize({cols}, {names}, transform={None if p['kind'] == 'none' else p['kind']!r}{kw})")
    else:
        L.append("plan = None")
    o = case["opts"]
    L.append(f"out = m.simulate(db, span, plan=plan, execution_order={order!r}, shocks_from_data={o['shocks_from_data']}, "
             f"parameters_from_data={o['parameters_from_data']}, when_simulates_nan='silent')")
    L.append("print({n: out[n].get_data(span).ravel().tolist() for n in out.keys()})")
    return "\n".join(L)


def reads_only_earlier_order(model, order) -> bool:
    """every equation reads LHS names of earlier equations only (any shift <= 0) and its own at negative shifts
    (the precondition of equations_dates)"""
    pos = {}
    for k, i in enumerate(order):
        pos.setdefault(model["eqs"][i]["lhs"], k)
    if len(pos) != len(order):
        return False
    for k, i in enumerate(order):
        for n, sh in tree_tokens(parse_rhs(model["eqs"][i]["rhs"])):
            if n in pos and (sh > 0 or pos[n] > k or (pos[n] == k and sh >= 0)):
                return False
    return True


def check_property(case, order) -> tuple[list[Failure], dict]:
    """Simulate through the public API and check, on the OUTPUT databox, transform(lhs) = rhs + residual for every
    equation and simulated period, and the implied values at exogenized points."""
    info = {"equation_cells": 0, "exogenized_cells": 0, "skipped_nonfinite": 0}
    out = run_impl(case, order)
    repro = repro_script(case, order)
    if "err" in out:
        return [Failure("simulate:raises", f"Sequential.simulate raises {out['exc']}", {"case": case, "order": order},
                        out["exc"], "a simulated databox", repro)], info
    # the property's precondition "the order computes every value before it is read", on the order actually simulated
    pre = is_sequential_order if order == "dates_equations" else reads_only_earlier_order
    if not pre(case["model"], out["eq_order"]):
        info["skipped_precondition"] = 1
        return [], info
    mi = model_inputs(case)
    lay, lo = mi["lay"], mi["lo"]
    o = out["ok"]
    params = case["model"]["params"]

    def get(name, k):
        if name in params and name not in o["base"]:
            return params[name]
        if 0 <= k < case["nper"]:
            return o["base"][name][k]
        if lo <= k < 0 and name in o["pre"]:
            return o["pre"][name][k - lo]
        s = case["db"].get(name)             # leads beyond the span: the input
        if s is not None and 0 <= k - s["off"] < len(s["values"]):
            return s["values"][k - s["off"]]
        return NAN

    def inp(name, k):
        s = case["db"].get(name)
        if s is not None and 0 <= k - s["off"] < len(s["values"]):
            return s["values"][k - s["off"]]
        return NAN

    fails = []
    reg = {k: v[0] for k, v in plan_points(case).items()}
    for e in case["model"]["eqs"]:
        tree = parse_rhs(e["rhs"])
        for t in range(case["nper"]):
            x, lag = get(e["lhs"], t), get(e["lhs"], t - 1) if TR_HAS_LAG[e["tr"]] else 1.0
            lhs_v = _transform_value(e["tr"], x, lag)
            rhs_v = eval_tree(tree, get, t)
            res_v = 0.0 if e["identity"] else get("res_" + e["lhs"], t)
            p = None if e["identity"] else reg.get((e["lhs"], t))
            if not _finite(lhs_v, rhs_v, res_v, x, lag) or (e["tr"] in ("log", "diff_log") and (x <= 0 or lag <= 0)) \
                    or (e["tr"] in ("roc", "pct") and lag == 0):
                info["skipped_nonfinite"] += 1
                continue
            info["equation_cells"] += 1
            gap = float(lhs_v - (rhs_v + res_v))
            scale = 1 + abs(float(lhs_v)) + abs(float(rhs_v)) + abs(float(res_v)) + _rounding_scale(e["tr"], x, lag)
            if abs(gap) > 1e-8 * scale:
                if p is not None:
                    r_in = inp("res_" + e["lhs"], t) if case["opts"]["shocks_from_data"] else 0.0
                    key = ("equation-violated:exogenized:nonzero-input-residual" if (r_in == r_in and r_in != 0)
                           else "equation-violated:exogenized")
                else:
                    key = f"equation-violated:simulated:{e['tr']}" + (":identity" if e["identity"] else "")
                fails.append(Failure(
                    key, f"after simulate ({order}) the equation {lhs_text(e['lhs'], e['tr'])} = {e['rhs']} [+ residual] "
                         f"is violated at period offset {t} by {gap:.6g}",
                    {"case": case, "order": order, "equation": e, "period_offset": t},
                    {"transform(lhs)": float(lhs_v), "rhs": float(rhs_v), "residual": float(res_v), "gap": gap},
                    "transform(lhs) == rhs + residual", repro))
            # exogenized value
            if p is not None:
                dbn = plan_databox_name(p, e["lhs"])
                exo = inp(dbn, t) if dbn is not None else 0.0
                ref = get(e["lhs"], t + p["shift"])
                if p["kind"] == "flat":
                    exo = 0.0
                if not p["when_data"] and exo != exo and _finite(ref) and x == x:
                    # exogenized unconditionally on a missing value: the variable must take the (missing) implied value
                    fails.append(Failure(
                        f"implied-value:{p['kind']}:missing-not-propagated",
                        f"{e['lhs']} is exogenized ({p['kind']}, when_data=False) on a missing value at period offset {t} "
                        f"but comes out as {x}", {"case": case, "order": order, "plan_point": p, "period_offset": t},
                        float(x), NAN, repro))
                    continue
                if not _finite(exo, ref, x):
                    continue                   # when_data fallback or missing conditioning information
                if p["kind"] in ("log", "diff_log") and (x <= 0 or (p["kind"] == "diff_log" and ref <= 0)):
                    continue
                if p["kind"] in ("roc", "pct") and ref == 0:
                    continue
                got = _transform_value(p["kind"], x, ref)
                info["exogenized_cells"] += 1
                if not _finite(got) or abs(float(got) - exo) > 1e-8 * (1 + abs(exo) + abs(float(got))
                                                                       + _rounding_scale(p["kind"], x, ref)):
                    fails.append(Failure(
                        f"implied-value:{p['kind']}", f"exogenized {e['lhs']} ({p['kind']}) does not take the implied value "
                                                      f"at period offset {t}",
                        {"case": case, "order": order, "plan_point": p, "period_offset": t},
                        float(got), exo, repro))
    return fails, info


WITNESS = {
    # the Coq-side witness of SequentialProofs.exogenize_unrepaired_refuted, as a public-API input:
    # x = 0.5*x[-1], x exogenized to 2 at the only period, input residual 0.25, initial condition 1
    "model": {"eqs": [{"lhs": "y1", "tr": "none", "rhs": "0.5*y1[-1]", "identity": False}], "params": {}, "exo": [],
              "wild": False, "forward_free": True},
    "source": "!equations\n  y1 = 0.5*y1[-1];\n", "freq": 4, "start": 8080, "nper": 1,
    "db": {"y1": {"off": -1, "values": [1.0, 2.0]}, "res_y1": {"off": 0, "values": [0.25]}},
    "plan": [{"name": "y1", "kind": "none", "cols": [0], "when_data": False, "shift": -1, "name_format": None}],
    "opts": {"order": "dates_equations", "shocks_from_data": True, "parameters_from_data": False,
             "when_simulates_nan": "silent"},
}


def _zero_cases() -> list:
    """Exogenized points whose implied level is exactly 0.0, one per plan transform that can produce it."""
    model = {"eqs": [{"lhs": "y1", "tr": "none", "rhs": "0.8*y1[-1] + 0.5*z1", "identity": False},
                     {"lhs": "y2", "tr": "diff", "rhs": "0.2*y1 - 0.1*y2[-1]", "identity": False},
                     {"lhs": "y3", "tr": "pct", "rhs": "0.5*z1", "identity": False},
                     {"lhs": "y4", "tr": "roc", "rhs": "1 + 0.01*z1", "identity": False},
                     {"lhs": "y5", "tr": "none", "rhs": "y1 + y2 + y3 + y4", "identity": True}],
             "params": {}, "exo": ["z1"], "wild": False, "forward_free": True}
    base_db = {"y1": {"off": -1, "values": [1.5]}, "y2": {"off": -1, "values": [1.0]}, "y3": {"off": -1, "values": [2.0]},
               "y4": {"off": -1, "values": [1.25]}, "z1": {"off": -1, "values": [1.0, 0.75, 1.25, 0.5, 1.5]},
               "res_y1": {"off": 0, "values": [0.01, -0.02, 0.03, 0.01]}, "res_y2": {"off": 0, "values": [0.02, 0.0, -0.01, 0.01]}}
    opts = {"order": "dates_equations", "shocks_from_data": True, "parameters_from_data": False,
            "when_simulates_nan": "silent"}

    def P(name, kind, cols, when_data=False):
        return {"name": name, "kind": kind, "cols": cols, "when_data": when_data, "shift": -1, "name_format": None}
    variants = [
        # a level pinned at zero (directly, and only-when-data)
        ([P("y1", "none", [1, 2])], {"y1": {"off": -1, "values": [1.5, NAN, 0.0, 0.0]}}),
        ([P("y1", "none", [0, 1, 2, 3], True)], {"y1": {"off": -1, "values": [1.5, NAN, 0.0, NAN, 0.25]}}),
        # a difference of -1 from an initial level of 1
        ([P("y2", "diff", [0])], {"diff_y2": {"off": 0, "values": [-1.0]}}),
        # a level exogenized to 1, then run down to zero by a difference of -1
        ([P("y2", "none", [1]), P("y2", "diff", [2])], {"y2": {"off": -1, "values": [1.0, NAN, 1.0]},
                                                         "diff_y2": {"off": 2, "values": [-1.0]}}),
        # a percent change of -100, a gross rate of change of 0
        ([P("y3", "pct", [1], True)], {"pct_y3": {"off": 0, "values": [NAN, -100.0, NAN]}}),
        ([P("y4", "roc", [0])], {"roc_y4": {"off": 0, "values": [0.0]}}),
        # flat from a zero initial level
        ([P("y2", "flat", [0])], {"y2": {"off": -1, "values": [0.0]}}),
    ]
    out = []
    for plan, extra in variants:
        db = {k: dict(v) for k, v in base_db.items()}
        db.update(extra)
        out.append({"model": model, "source": source_of(model), "freq": 4, "start": 8080, "nper": 4, "db": db,
                    "plan": plan, "opts": dict(opts)})
    return out


def _sequence_cases() -> list:
    """Fixed cases for call sequences on one object and for plan calls covering several names:
    equations written out of order then sequentialize() / reorder_equations() / copy() before simulating;
    ONE exogenize call for several names (list and ...) whose conditioning data differ."""
    model = {"eqs": [{"lhs": "y1", "tr": "none", "rhs": "0.8*y1[-1] + 0.5*z1", "identity": False},
                     {"lhs": "y2", "tr": "diff", "rhs": "0.2*y1 - 0.1*y2[-1]", "identity": False},
                     {"lhs": "y3", "tr": "pct", "rhs": "0.5*y2 + p1", "identity": False},
                     {"lhs": "y4", "tr": "none", "rhs": "y1 + y2 + y3", "identity": True}],
             "params": {"p1": 0.5}, "exo": ["z1"], "wild": False, "forward_free": True}
    db = {"y1": {"off": -1, "values": [1.5]}, "y2": {"off": -1, "values": [1.0]}, "y3": {"off": -1, "values": [2.0]},
          "z1": {"off": -1, "values": [1.0, 0.75, 1.25, 0.5, 1.5]},
          "res_y1": {"off": 0, "values": [0.01, -0.02, 0.03, 0.01]}, "res_y3": {"off": 0, "values": [0.02, 0.0, -0.01, 0.01]}}
    opts = {"order": "dates_equations", "shocks_from_data": True, "parameters_from_data": False,
            "when_simulates_nan": "silent", "assign_after_ops": False}

    def P(names, kind, cols, **kw):
        return dict({"names": names, "kind": kind, "cols": cols, "when_data": False, "shift": -1, "name_format": None,
                     "ellipsis_names": False, "ellipsis_dates": False}, **kw)
    multi_db = {"diff_y1": {"off": 0, "values": [0.5, 0.25, -0.25, 0.1]}, "diff_y2": {"off": 0, "values": [1.0, -0.5, 0.75, 0.3]},
                "diff_y3": {"off": 0, "values": [-0.1, 0.2, 0.4, -0.3]}}
    level_db = {"y1": {"off": -1, "values": [1.5, 2.0, 2.25, 2.5, 2.75]}, "y2": {"off": -1, "values": [1.0, 0.5, 0.75, 1.25, 1.5]},
                "y3": {"off": -1, "values": [2.0, 3.0, 3.5, 4.0, 4.5]}}
    variants = [
        # (source order, operations, plan, extra data)
        ([3, 2, 1, 0], [["sequentialize"]], [], {}),
        ([2, 0, 3, 1], [["sequentialize"]], [P(["y2"], "diff", [1, 2])], multi_db),
        ([1, 0, 2, 3], [["reorder", [1, 0, 2, 3]]], [], {}),
        ([3, 2, 1, 0], [["reorder", [3, 2, 1, 0]], ["copy"]], [P(["y1"], "none", [1])], level_db),
        ([0, 1, 2, 3], [["reorder", [1, 0, 3, 2]], ["sequentialize"]], [], {}),
        ([2, 3, 0, 1], [["copy"], ["reorder", [2, 3, 0, 1]]], [], {}),
        ([0, 1, 2, 3], [], [P(["y1", "y2", "y3"], "diff", [0, 1, 2, 3])], multi_db),
        ([0, 1, 2, 3], [], [P(["y3", "y1"], "diff", [1, 2], when_data=True)], multi_db),
        ([0, 1, 2, 3], [], [P(["y1", "y2", "y3"], "none", [1, 2], ellipsis_names=True)], level_db),
        ([0, 1, 2, 3], [], [P(["y2", "y3"], "none", [0, 1, 2, 3], ellipsis_dates=True)], level_db),
        ([1, 3, 0, 2], [["sequentialize"]], [P(["y1", "y2", "y3"], "diff", [0, 2], ellipsis_names=True)], multi_db),
    ]
    out = []
    for src_order, ops, plan, extra in variants:
        d = {k: dict(v) for k, v in db.items()}
        d.update({k: dict(v) for k, v in extra.items()})
        for late in (False, True):
            out.append({"model": model, "source": source_of(model, src_order), "src_order": src_order, "ops": ops,
                        "freq": 4, "start": 8080, "nper": 4, "db": d, "plan": plan,
                        "opts": dict(opts, assign_after_ops=late)})
    return out


def falsify(ctx, hints):
    rng = ctx.rng
    fails: list[Failure] = []
    info = {"models": 0, "equation_cells": 0, "exogenized_cells": 0, "skipped_nonfinite": 0, "skipped_precondition": 0}
    cases = [(WITNESS, "dates_equations"), (WITNESS, "equations_dates")]
    for zc in _zero_cases() + _sequence_cases():
        cases += [(zc, "dates_equations"), (zc, "equations_dates")]
    for d in (hints or {}).get("disagreements", [])[:10]:
        inp = d.get("input") if isinstance(d, dict) else None
        if isinstance(inp, dict) and "case" in inp and not inp["case"]["model"]["wild"]:
            cases.append((inp["case"], "dates_equations"))
    n = ctx.scale(200, 4000)
    for _ in range(n):
        c = gen_case(rng, wild=False)
        c["opts"]["when_simulates_nan"] = "silent"
        cases.append((c, "dates_equations"))
        cases.append((c, "equations_dates"))          # (checked only if the simulated order reads earlier equations only)
    for c, order in cases:
        fs, i = check_property(c, order)
        info["models"] += 1
        for k in ("equation_cells", "exogenized_cells", "skipped_nonfinite", "skipped_precondition"):
            info[k] += i.get(k, 0)
        fails += fs
        if len(fails) > 40:
            break
    seen, uniq = set(), []
    for f in sorted(fails, key=lambda f: len(f.input["case"]["source"]) + len(repr(f.input["case"]["db"]))):
        if f.key not in seen:
            seen.add(f.key); uniq.append(f)
    return uniq, info


def replay(ctx, failure: dict):
    inp = failure["input"]
    fs, _ = check_property(inp["case"], inp["order"])
    for f in fs:
        if f.key == failure["key"]:
            return f
    return fs[0] if fs else None
