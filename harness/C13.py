"""C13  Change and cumulation transforms follow their formulas, invert each other."""
from __future__ import annotations

import math

import numpy as np

from vf import core
from vf.core import CorrResult, Disagreement, Failure, coq_float, coq_z, coq_list
from translator import temporal as tr
from translator import dates as tr_dates
from . import series_common as sc

ID = "C13"
PROPS = "props/C13.v"
GENERATED = [tr.OUT, tr_dates.OUT]
CASE_DEPS = ["lib/CaseUtil.vo", "model/Temporal.vo", "model/TemporalKw.vo"]
ALLOWED_AXIOMS = {
    # Coq's classical real numbers (standard library)
    "sig_forall_dec", "sig_not_dec", "functional_extensionality_dep",
    "ClassicalDedekindReals.sig_forall_dec", "ClassicalDedekindReals.sig_not_dec",
    "FunctionalExtensionality.functional_extensionality_dep",
    "classic", "Classical_Prop.classic",
}
TRUSTED = [
    "translator/temporal.py + translator/pyexpr.py (lambdas of series/_temporal.py -> gen/TemporalGen.v)",
    "numpy log/exp/power are black boxes: their values are recorded per run and looked up by the float model",
    "the loops temporal_change/_cumulate_forward/_cumulate_backward are hand-modelled (model/Temporal.v; model/TemporalKw.v for "
    "keyword shifts of every frequency class incl. daily) on the Series model (model/Series.v) and tied by bit-exact correspondence only",
    "translator/dates.py (gen/DatesGen.v: the daily create_soy/create_eopy/create_tty fragments and the 'yoy' arm used by model/TemporalKw.v)",
]
ASSUMPTIONS = [
    "theorems are over Coq's real numbers (no rounding); the float model is used only for the correspondence",
    "keyword shifts on DAILY series: the reference day comes from gen/DatesGen.v (DailyPeriod.create_soy/eopy/tty, the 'yoy' arm of "
    "Period.shift, regenerated from dates.py) over lib/Calendar.v, whose agreement with CPython's datetime is C09's tie; "
    "ordinals outside 1..3652059 (the code raises) are modelled as an error and not exercised by the correspondence",
    "C13_kw_cum_forward_inverts carries the explicit premise s_freq c = s_freq x (the change series is not empty)",
]

MANIFEST = {
    "technique": "Coq proof over the reals of formulas regenerated from series/_temporal.py; induction over the span on a Series model; bit-exact PrimFloat correspondence",
    "level_text": "Theorems (props/C13.v): the eight change lambdas, regenerated from the source on every run, equal the documented "
                  "formulas; the five rate helpers invert/relate them; forward and backward cumulation of diff/diff_log/pct/roc with the "
                  "original series as initial condition reproduce the series for EVERY negative shift, series length, start, number of "
                  "variants (induction over the span on the Series model, proved for every carrier with lawful missing values and "
                  "instantiated on Coq's reals).  Keyword shifts yoy/soy/eopy/tty for every frequency class, DAILY included: the documented "
                  "reference day (1 January, 31 December of the previous year, the previous day except on 1 January, 365 days back), the "
                  "change formulas against these references, the unchanged start-of-year value of diff/roc with tty, and forward "
                  "cumulation with a keyword shift reproducing the series on any span (any number of leap/common years).  The loops and the Series plumbing are hand-modelled and tied to the code by a "
                  "bit-exact correspondence (IEEE doubles through PrimFloat; numpy log/exp/power recorded as tables).",
    "level_note": "Trusted: Coq kernel + vm_compute; translator/temporal.py; harness; Reals axioms (sig_forall_dec, sig_not_dec, "
                  "functional_extensionality_dep, classic). Modelled not verified: numpy ufuncs (recorded), float rounding "
                  "(theorems are exact over R); lib/Calendar.v vs CPython datetime (tied by C09).",
}

CHANGE = ["diff", "adiff", "diff_log", "adiff_log", "roc", "aroc", "pct", "apct"]
CHANGE_K = dict(zip(CHANGE, ["KDiff", "KADiff", "KDiffLog", "KADiffLog", "KRoc", "KARoc", "KPct", "KAPct"]))
CONV = ["roc_from_pct", "pct_from_roc", "pct_from_apct", "roc_from_apct", "roc_from_aroc"]
CONV_K = dict(zip(CONV, ["CRocFromPct", "CPctFromRoc", "CPctFromApct", "CRocFromApct", "CRocFromAroc"]))
CUM = ["cum_diff", "cum_diff_log", "cum_pct", "cum_roc"]
CUM_K = dict(zip(CUM, ["CumDiff", "CumDiffLog", "CumPct", "CumRoc"]))
KW = {"yoy": "Yoy", "soy": "Soy", "eopy": "Eopy", "tty": "Tty"}


def translate(ctx):
    tr.run()
    tr_dates.run()          # gen/DatesGen.v: the daily create_soy/eopy/tty and the "yoy" arm used by model/TemporalKw.v


# ------------------------------------------------------------------ generation

def _pool(rng):
    vals = [rng.randint(1, 64) / 8.0 for _ in range(18)] + [rng.randint(1, 400) / 100.0 for _ in range(6)]
    vals += [-v for v in vals[:5]] + [0.0]
    return vals


def _daily_kw_start(rng, n) -> int:
    """start ordinal of a daily series of n rows that straddles a year boundary (leap and common years)"""
    import datetime as _dtm
    y = rng.choice([1999, 2000, 2003, 2004, 2019, 2020, 2023, 2024, 2100, 1900])
    return _dtm.date(y, 12, 31).toordinal() - rng.randint(-1, max(0, n - 1))


def gen_daily_kw_case(rng, pool) -> dict:
    """change / forward cumulation of a DAILY series with a keyword shift (model/TemporalKw.v)"""
    long_ = rng.random() < 0.06
    if rng.random() < 0.6:
        kind = rng.choice(["diff", "diff_log", "roc", "pct"])
        s = sc.rand_series_spec(rng, freq=365, pool=pool, positive=kind == "diff_log" or rng.random() < 0.5,
                                maxlen=12, allow_empty=False, nv=1 if long_ else None)
        if long_:
            n = rng.randint(366, 400)
            s["rows"] = [[float(rng.choice(pool)) if kind != "diff_log" else abs(float(rng.choice(pool))) or 1.0] for _ in range(n)]
        s["start"] = _daily_kw_start(rng, len(s["rows"]))
        return {"op": "change", "kind": kind, "by": rng.choice(list(KW)), "s": s, "kw": True}
    kind = rng.choice(CUM)
    s = sc.rand_series_spec(rng, freq=365, pool=pool, positive=rng.random() < 0.6, maxlen=10, allow_empty=False)
    s["start"] = _daily_kw_start(rng, len(s["rows"]))
    n = len(s["rows"])
    q = rng.random()
    if q < 0.3:
        init = {"kind": "default"}
    elif q < 0.5:
        init = {"kind": "scalar", "v": float(rng.choice(pool))}
    else:
        x = sc.rand_series_spec(rng, freq=365, nv=rng.choice([1, s["nv"]]), pool=pool, positive=True, maxlen=14,
                                allow_empty=False)
        x["start"] = s["start"] + rng.randint(-4, 2)
        init = {"kind": "series", "x": x}
    by = rng.choice(["soy", "eopy", "tty", "tty", "yoy"])
    if rng.random() < 0.4:
        span = None
    else:
        a = s["start"] + rng.randint(-1, n // 2)
        span = [a, a + rng.randint(0, n), 1]
    return {"op": "cum", "kind": kind, "by": by, "init": init, "span": span, "s": s, "kw": True}


def gen_case(rng, pool) -> dict:
    r = rng.random()
    if r < 0.12:
        return gen_daily_kw_case(rng, pool)
    c = _gen_case(rng, pool)
    if isinstance(c.get("by"), str) and rng.random() < 0.5:
        c["kw"] = True              # regular frequency, evaluated through the all-frequency model of model/TemporalKw.v
    return c


def _gen_case(rng, pool) -> dict:
    r = rng.random()
    if r < 0.45:
        kind = rng.choice(CHANGE)
        positive = kind in ("diff_log", "adiff_log") or rng.random() < 0.5
        freq = rng.choice([1, 2, 4, 12, 365, 0])
        s = sc.rand_series_spec(rng, freq=freq, pool=pool, positive=positive, maxlen=12)
        if kind.startswith("a"):
            by = None
        else:
            q = rng.random()
            if q < 0.6:
                by = -rng.randint(1, 5)
            elif q < 0.66:
                by = rng.choice([0, 1, 2])          # rejected
            elif s["freq"] in (1, 2, 4, 12) and s["start"] is not None:
                by = rng.choice(list(KW))
            else:
                by = -1
        return {"op": "change", "kind": kind, "by": by, "s": s}
    if r < 0.6:
        kind = rng.choice(CONV)
        s = sc.rand_series_spec(rng, pool=pool, positive=rng.random() < 0.7, maxlen=8, trimmed=False)
        return {"op": "conv", "kind": kind, "s": s}
    kind = rng.choice(CUM)
    freq = rng.choice([1, 2, 4, 12, 365, 0])
    s = sc.rand_series_spec(rng, freq=freq, pool=pool, positive=rng.random() < 0.6, maxlen=10, allow_empty=False)
    by = -rng.randint(1, 3) if rng.random() < 0.9 else rng.choice([0, 1])
    kw_cum = freq in (2, 4, 12) and rng.random() < 0.25          # keyword shifts: forward cumulation only
    q = rng.random()
    if q < 0.3:
        init = {"kind": "default"}
    elif q < 0.5:
        init = {"kind": "scalar", "v": float(rng.choice(pool))}
    else:
        x = sc.rand_series_spec(rng, freq=freq, nv=rng.choice([1, s["nv"]]), pool=pool, positive=True, maxlen=14,
                                allow_empty=False)
        x["start"] = s["start"] + rng.randint(-4, 2)
        init = {"kind": "series", "x": x}
    n = len(s["rows"])
    q = rng.random()
    if q < 0.4:
        span = None
    elif q < 0.7:
        a = s["start"] + rng.randint(-1, n // 2)
        span = [a, a + rng.randint(0, n), 1]
    else:
        a = s["start"] + rng.randint(0, n + 1)
        span = [a, a - rng.randint(0, n), -1]
    if kw_cum:
        by = rng.choice(list(KW))
        if span is not None and span[2] < 0:
            span = None
    return {"op": "cum", "kind": kind, "by": by, "init": init, "span": span, "s": s}


# ------------------------------------------------------------------ implementation

def run_impl(case: dict) -> dict:
    import irispie as ir
    try:
        s = sc.mk_series(case["s"])
        if case["op"] == "change":
            m = getattr(s, case["kind"])
            if case["by"] is None:
                m()
            else:
                m(case["by"])
        elif case["op"] == "conv":
            getattr(s, case["kind"])()
        else:
            init = case["init"]
            initial = None if init["kind"] == "default" else (
                init["v"] if init["kind"] == "scalar" else sc.mk_series(init["x"]))
            sp = case["span"]
            span = None if sp is None else ir.Span(sc.mk_period(case["s"]["freq"], sp[0]),
                                                   sc.mk_period(case["s"]["freq"], sp[1]), sp[2])
            getattr(s, case["kind"])(case["by"], initial, span)
        return {"ok": sc.observe(s)}
    except Exception as e:  # noqa
        return {"err": sc.err_code(e), "exc": f"{type(e).__name__}: {e}"[:200]}


# ------------------------------------------------------------------ tables for ln/exp/pow

class Tables:
    def __init__(self):
        self.ln, self.exp, self.pow = {}, {}, {}

    @staticmethod
    def _k(x):
        return "nan" if x != x else float(x).hex()

    def add_ln(self, arr):
        arr = np.asarray(arr, dtype=float).ravel()
        with np.errstate(all="ignore"):
            out = np.log(arr)
        for a, b in zip(arr.tolist(), out.tolist()):
            self.ln[self._k(a)] = (a, b)

    def add_exp(self, arr):
        arr = np.asarray(arr, dtype=float).ravel()
        with np.errstate(all="ignore"):
            out = np.exp(arr)
        for a, b in zip(arr.tolist(), out.tolist()):
            self.exp[self._k(a)] = (a, b)

    def add_pow(self, arr, e):
        arr = np.asarray(arr, dtype=float).ravel()
        with np.errstate(all="ignore"):
            out = arr ** e
        for a, b in zip(arr.tolist(), out.tolist()):
            self.pow[(self._k(a), self._k(float(e)))] = (a, float(e), b)

    def coq(self) -> str:
        ln = coq_list([f"({coq_float(a)}, {coq_float(b)})" for a, b in self.ln.values()])
        ex = coq_list([f"({coq_float(a)}, {coq_float(b)})" for a, b in self.exp.values()])
        pw = coq_list([f"(({coq_float(a)}, {coq_float(e)}), {coq_float(b)})" for a, e, b in self.pow.values()])
        return f"{{| t_ln := {ln}; t_exp := {ex}; t_pow := {pw} |}}"


def _factor(s: dict):
    if s["start"] is None:
        return 1
    return s["freq"] or 1


def fill_tables(tb: Tables, case: dict):
    s = case["s"]
    data = np.array(s["rows"], dtype=float).reshape(len(s["rows"]), s["nv"])
    nan = np.array([np.nan])
    f = _factor(s)
    with np.errstate(all="ignore"):
        if case["op"] == "change":
            if case["kind"] in ("diff_log", "adiff_log"):
                tb.add_ln(data); tb.add_ln(nan); tb.add_ln(np.array([0.0, 1.0]))
            if case["kind"] in ("aroc", "apct") and data.shape[0] >= 1:
                q = data[1:, :] / data[:-1, :]
                tb.add_pow(q, f); tb.add_pow(nan, f)
        elif case["op"] == "conv":
            if "apct" in case["kind"] or "aroc" in case["kind"]:
                # over-approximation: whichever exponent / base the current source uses is recorded
                for e in (f, 1 / f):
                    for base in (data, 1 + data / 100, nan):
                        tb.add_pow(base, e)
        elif case["kind"] == "cum_diff_log":
            tb.add_exp(data); tb.add_exp(nan)


# ------------------------------------------------------------------ Coq rendering

def coq_by(by) -> str:
    if by is None:
        return "(ByInt (-1))"
    if isinstance(by, str):
        return KW[by]
    return f"(ByInt {coq_z(by)})"


def coq_case(case: dict) -> str:
    s = sc.coq_series(case["s"])
    if case["op"] == "change":
        fn = "change_kw" if case.get("kw") else "change"
        return f"{fn} FA {CHANGE_K[case['kind']]} {coq_by(case['by'])} {s}"
    if case["op"] == "conv":
        return f"Ok (convert FA {CONV_K[case['kind']]} {s})"
    init = case["init"]
    if init["kind"] == "default":
        i = "(InitDefault FA)"
    elif init["kind"] == "scalar":
        i = f"(InitScalar FA {coq_float(init['v'])})"
    else:
        i = f"(InitSeries FA {sc.coq_series(init['x'])})"
    sp = case["span"]
    spc = "SpanDefault" if sp is None else f"(SpanFromTo {coq_z(sp[0])} {coq_z(sp[1])} {coq_z(sp[2])})"
    fn = "temporal_cumulation_kw" if case.get("kw") else "temporal_cumulation"
    return f"{fn} FA {CUM_K[case['kind']]} {coq_by(case['by'])} {i} {spc} {s}"


HEADER = """From Coq Require Import ZArith List Bool PrimFloat.
From Verif Require Import lib.Arith lib.Period lib.CaseUtil model.Series model.Temporal model.TemporalKw.
Import ListNotations.
Open Scope Z_scope.
Set Printing Width 1000000.
Set Printing Depth 1000000.
"""


def shard_text(cases, outs) -> str:
    tb = Tables()
    for c in cases:
        fill_tables(tb, c)
    lines = [HEADER, f"Definition tb : ftables := {tb.coq()}.", "Notation FA := (FArith tb).",
             "Definition cases : list (res (series FA) * res (series FA)) := ["]
    lines.append(";\n".join(f"  ({coq_case(c)},\n   {sc.coq_res_series(o)})" for c, o in zip(cases, outs)))
    lines.append("].")
    lines.append("Eval vm_compute in (failing (res_eqb (series_eqb tb)) cases 0).")
    return "\n".join(lines) + "\n"


def nontrivial(case, out) -> bool:
    return "ok" in out and out["ok"]["start"] is not None and len(out["ok"]["rows"]) >= 2


def correspondence(ctx) -> CorrResult:
    rng = ctx.rng
    n = ctx.scale(900, 30000)
    per = 300
    pool = _pool(rng)
    cases = [gen_case(rng, pool) for _ in range(n)]
    outs = [run_impl(c) for c in cases]
    res = CorrResult()
    res.evaluations = n
    keyset = set()
    dist = {"op": {}, "kind": {}, "errors": {}, "freq": {}, "empty_result": 0, "daily_keyword": {}, "daily_keyword_nontrivial": 0,
            "regular_keyword_through_kw_model": 0}
    for c, o in zip(cases, outs):
        if c.get("kw") and c["s"]["freq"] == 365:
            k_ = f"{c['op']}:{c['by']}"
            dist["daily_keyword"][k_] = dist["daily_keyword"].get(k_, 0) + 1
            if nontrivial(c, o):
                dist["daily_keyword_nontrivial"] += 1
        elif c.get("kw"):
            dist["regular_keyword_through_kw_model"] += 1
        dist["op"][c["op"]] = dist["op"].get(c["op"], 0) + 1
        dist["kind"][c["kind"]] = dist["kind"].get(c["kind"], 0) + 1
        dist["freq"][str(c["s"]["freq"])] = dist["freq"].get(str(c["s"]["freq"]), 0) + 1
        if "err" in o:
            dist["errors"][o["exc"].split(":")[0]] = dist["errors"].get(o["exc"].split(":")[0], 0) + 1
        elif o["ok"]["start"] is None:
            dist["empty_result"] += 1
        if nontrivial(c, o):
            keyset.add(repr(c))
    res.distinct_nontrivial = len(keyset)
    res.distribution = dist
    res.rule = ("one generated series (all frequencies, 1-3 variants, interior missing values, values from a pool of "
                "dyadic/decimal floats) and one operation (8 change functions with integer/keyword/invalid shifts, 5 rate "
                "conversions, 4 cumulations with default/scalar/series initial and default/forward/backward span); "
                "non-trivial = the implementation returned a series with at least two periods; distinct = distinct case text")
    res.samples = [{"case": c, "impl": o} for c, o in list(zip(cases, outs))[:3]]
    shards = [(cases[i:i + per], outs[i:i + per]) for i in range(0, n, per)]
    texts = [shard_text(cs, os_) for cs, os_ in shards]
    results = core.run_cases(ctx, texts)
    res.shards = len(texts)
    for k, (ok, out) in enumerate(results):
        cs, os_ = shards[k]
        if not ok:
            res.disagreements.append(Disagreement(f"cases shard {k} does not evaluate", None, out[-600:], None))
            continue
        bodies = core.parse_eval_lists(out)
        if len(bodies) != 1:
            res.disagreements.append(Disagreement(f"cases shard {k}: unparsable output", None, out[-600:], None))
            continue
        for i in core.parse_nat_list(bodies[0]):
            kwtag = f":{cs[i]['by']}" if isinstance(cs[i].get("by"), str) else ""
            res.disagreements.append(Disagreement(f"{cs[i]['op']}:{cs[i]['kind']}{kwtag}", cs[i], "model result differs",
                                                  os_[i]))
    return res


# ------------------------------------------------------------------ falsifier: the property on the public API

def _close(a, b, tol=1e-9):
    a = np.asarray(a, dtype=float); b = np.asarray(b, dtype=float)
    if a.shape != b.shape:
        return False
    both = (np.isnan(a) & np.isnan(b)) | (np.isinf(a) & np.isinf(b) & (np.sign(a) == np.sign(b)))
    with np.errstate(all="ignore"):
        ok = np.abs(a - b) <= tol * (1 + np.abs(b))
    return bool(np.all(ok | both))


def _formula(kind, x, y, f):
    with np.errstate(all="ignore"):
        return {
            "diff": lambda: x - y, "adiff": lambda: f * (x - y),
            "diff_log": lambda: np.log(x) - np.log(y), "adiff_log": lambda: f * (np.log(x) - np.log(y)),
            "roc": lambda: x / y, "aroc": lambda: (x / y) ** f,
            "pct": lambda: 100 * (x / y - 1), "apct": lambda: 100 * ((x / y) ** f - 1),
        }[kind]()


def falsify(ctx, hints):
    import irispie as ir
    rng = ctx.rng
    fails: list[Failure] = []
    n = ctx.scale(150, 3000)
    info = {"formula_checks": 0, "inverse_checks": 0, "conversion_checks": 0}
    for it in range(n):
        freq = rng.choice([1, 2, 4, 12, 365, 0])
        nv = rng.choice([1, 2])
        length = rng.randint(4, 14)
        # positive data moving by at most 2% per period, so that annualised rates (power 365 for daily data) stay finite
        rows = [[round(rng.uniform(0.5, 9.0), 3) for _ in range(nv)]]
        for _ in range(length - 1):
            rows.append([round(v * (1 + rng.uniform(-0.02, 0.02)), 6) for v in rows[-1]])
        spec = {"freq": freq, "nv": nv, "rows": rows}
        spec["start"] = sc.rand_series_spec(rng, freq=freq, allow_empty=False)["start"]
        k = rng.randint(1, 3)
        f = freq or 1
        x = sc.mk_series(spec)
        X = np.array(spec["rows"])
        # 1. formulas, period by period
        for kind in CHANGE:
            kk = 1 if kind.startswith("a") else k
            try:
                y = getattr(ir, kind)(x) if kind.startswith("a") else getattr(ir, kind)(x, -kk)
                got = y.get_data(ir.Span(x.start + kk, x.end))
                want = _formula(kind, X[kk:], X[:-kk], f)
                info["formula_checks"] += 1
                if y.start != x.start + kk or not _close(got, want):
                    fails.append(Failure(f"formula:{kind}", f"{kind} differs from its documented formula",
                                         {"series": spec, "shift": -kk}, got.tolist(), want.tolist(),
                                         f"irispie.{kind}(x, {-kk})"))
            except Exception as e:  # noqa
                fails.append(Failure(f"formula:{kind}:raises", f"{kind} raises {type(e).__name__}: {e}",
                                     {"series": spec, "shift": -kk}, repr(e), "a series", f"irispie.{kind}(x, {-kk})"))
        # 1b. formulas on sign-changing data (no logs), and keyword shifts against the documented reference period
        spec2 = {**spec, "rows": [[(v if rng.random() < 0.6 else -v) for v in r] for r in spec["rows"]]}
        x2 = sc.mk_series(spec2); X2 = np.array(spec2["rows"])
        for kind in ("diff", "roc", "pct", "adiff", "aroc", "apct"):
            kk = 1 if kind.startswith("a") else k
            try:
                y = getattr(ir, kind)(x2) if kind.startswith("a") else getattr(ir, kind)(x2, -kk)
                got = y.get_data(ir.Span(x2.start + kk, x2.end))
                want = _formula(kind, X2[kk:], X2[:-kk], f)
                info["formula_checks"] += 1
                if not _close(got, want):
                    fails.append(Failure(f"formula:{kind}:signed", f"{kind} differs from its documented formula on sign-changing data",
                                         {"series": spec2, "shift": -kk}, got.tolist(), want.tolist(), f"irispie.{kind}(x, {-kk})"))
            except Exception as e:  # noqa
                fails.append(Failure(f"formula:{kind}:signed:raises", f"{kind} raises {type(e).__name__}: {e}", {"series": spec2}))
        if freq in (2, 4, 12) and length >= 3:
            ser = [spec["start"] + i for i in range(length)]
            val = {t: X[i] for i, t in enumerate(ser)}
            for kw in ("yoy", "soy", "eopy", "tty"):
                for kind in ("diff", "roc", "pct", "diff_log"):
                    try:
                        y = getattr(ir, kind)(x, kw)
                        info["formula_checks"] += 1
                        for t in ser:
                            seg = t % freq + 1
                            ref = {"yoy": t - freq, "soy": (t // freq) * freq, "eopy": (t // freq) * freq - 1,
                                   "tty": (t - 1) if seg > 1 else None}[kw]
                            if kw == "tty" and ref is None and kind in ("diff", "roc"):
                                # documented: "in start-of-year periods, the value of the resulting series is unchanged"
                                # (stated for diff; roc divides by the neutral value 1) -- pct/diff_log are left undecided
                                got = y.get_data(sc.mk_period(freq, t))[0]
                                if not _close(got, val[t]):
                                    fails.append(Failure(f"keyword:tty:{kind}:start-of-year",
                                                         f"{kind}(x, 'tty') at the start-of-year serial {t} is not the unchanged value x_t as documented",
                                                         {"series": spec, "shift": kw, "t": t}, got.tolist(), np.asarray(val[t]).tolist(),
                                                         f"irispie.{kind}(x, 'tty')"))
                                    raise StopIteration
                                continue
                            if ref is None or ref not in val:
                                continue
                            want = _formula(kind, val[t], val[ref], f)
                            got = y.get_data(sc.mk_period(freq, t))[0]
                            if not _close(got, want):
                                fails.append(Failure(f"keyword:{kw}:{kind}", f"{kind}(x, '{kw}') at serial {t} is not f(x_t, x_ref) with the documented reference period",
                                                     {"series": spec, "shift": kw, "t": t, "ref": ref}, got.tolist(), np.asarray(want).tolist(),
                                                     f"irispie.{kind}(x, '{kw}')"))
                                raise StopIteration
                    except StopIteration:
                        pass
                    except Exception as e:  # noqa
                        fails.append(Failure(f"keyword:{kw}:{kind}:raises", f"{kind}(x, '{kw}') raises {type(e).__name__}: {e}"[:200],
                                             {"series": spec, "shift": kw}))
        # 1c. daily keyword shifts against CPython's calendar; log changes on data with large day-on-day ratios
        if freq == 365 and length >= 3:
            import datetime as _dtm
            ser = [spec["start"] + i for i in range(length)]
            # let the sample straddle a year boundary so that soy/eopy/tty references exist inside it
            d0 = _dtm.date(rng.choice([2019, 2020, 2023, 2024, 2000, 1999]), 12, 31 - rng.randint(0, length - 2))
            specd = {**spec, "start": d0.toordinal()}
            xd = sc.mk_series(specd)
            serd = [specd["start"] + i for i in range(length)]
            vald = {t: X[i] for i, t in enumerate(serd)}
            for kw in ("yoy", "soy", "eopy", "tty"):
                for kind in ("diff", "roc"):
                    try:
                        y = getattr(ir, kind)(xd, kw)
                        info["formula_checks"] += 1
                        for t in serd:
                            dt_ = _dtm.date.fromordinal(t)
                            ref = {"yoy": t - 365, "soy": _dtm.date(dt_.year, 1, 1).toordinal(),
                                   "eopy": _dtm.date(dt_.year - 1, 12, 31).toordinal(),
                                   "tty": (t - 1) if (dt_.month, dt_.day) != (1, 1) else None}[kw]
                            if ref is None or ref not in vald:
                                continue
                            want = _formula(kind, vald[t], vald[ref], f)
                            got = y.get_data(sc.mk_period(365, t))[0]
                            if not _close(got, want):
                                fails.append(Failure(f"keyword:{kw}:{kind}:daily", f"{kind}(x, '{kw}') on daily data at {dt_} is not f(x_t, x_ref) with the documented reference day",
                                                     {"series": specd, "shift": kw, "t": str(dt_), "ref": str(_dtm.date.fromordinal(ref))},
                                                     got.tolist(), np.asarray(want).tolist(), f"irispie.{kind}(x, '{kw}')"))
                                raise StopIteration
                    except StopIteration:
                        pass
                    except Exception as e:  # noqa
                        fails.append(Failure(f"keyword:{kw}:{kind}:daily:raises", f"{kind}(x, '{kw}') on daily data raises {type(e).__name__}: {e}"[:200],
                                             {"series": specd, "shift": kw}))
        if it % 3 == 0:
            jump = {**spec, "rows": [[float(rng.choice([0.02, 0.1, 1.0, 9.0, 40.0])) for _ in range(nv)] for _ in range(length)]}
            xj = sc.mk_series(jump); XJ = np.array(jump["rows"])
            for kind in ("diff_log", "adiff_log"):
                try:
                    y = getattr(ir, kind)(xj)
                    got = y.get_data(ir.Span(xj.start + 1, xj.end))
                    want = _formula(kind, XJ[1:], XJ[:-1], f)
                    info["formula_checks"] += 1
                    if not _close(got, want):
                        fails.append(Failure(f"formula:{kind}:jumps", f"{kind} differs from its documented formula on data with large period-on-period ratios",
                                             {"series": jump}, got.tolist(), want.tolist(), f"irispie.{kind}(x)"))
                except Exception as e:  # noqa
                    fails.append(Failure(f"formula:{kind}:jumps:raises", f"{kind} raises {type(e).__name__}: {e}", {"series": jump}))
        # 1d. ragged variants: a period where only SOME variants are observed keeps its values
        if nv == 2 and length >= 5:
            rag = [list(r) for r in spec["rows"]]
            rag[0][1] = float("nan"); rag[-1][0] = float("nan")
            specr = {**spec, "rows": rag}
            xr = sc.mk_series(specr); XR = np.array(rag)
            for kind in ("diff", "roc", "pct"):
                try:
                    y = getattr(ir, kind)(xr, -k)
                    got = y.get_data(ir.Span(xr.start + k, xr.end))
                    want = _formula(kind, XR[k:], XR[:-k], f)
                    info["formula_checks"] += 1
                    if not _close(got, want):
                        fails.append(Failure(f"formula:{kind}:ragged-variants", f"{kind} loses or changes values in periods where only some variants are observed",
                                             {"series": specr, "shift": -k}, got.tolist(), want.tolist(), f"irispie.{kind}(x, {-k})"))
                except Exception as e:  # noqa
                    fails.append(Failure(f"formula:{kind}:ragged:raises", f"{kind} raises {type(e).__name__}: {e}", {"series": specr}))
        # 1e. keyword shift whose reference period lies outside the series: the result is missing there, never the level
        if freq in (2, 4, 12):
            y0 = (spec["start"] // freq) * freq
            one_year = {**spec, "start": y0 + 1, "rows": spec["rows"][:max(1, min(length, freq - 1))]}
            xo = sc.mk_series(one_year)
            for kw in ("eopy", "soy"):
                for kind in ("diff", "roc"):
                    try:
                        y = getattr(ir, kind)(xo, kw)
                        info["formula_checks"] += 1
                        got = y.get_data(ir.Span(xo.start, xo.end))
                        if np.any(np.isfinite(got)):
                            fails.append(Failure(f"keyword:{kw}:{kind}:no-reference", f"{kind}(x, '{kw}') returns a number where the reference period is not in the series",
                                                 {"series": one_year, "shift": kw}, got.tolist(), "missing", f"irispie.{kind}(x, '{kw}')"))
                    except Exception as e:  # noqa
                        fails.append(Failure(f"keyword:{kw}:{kind}:no-reference:raises", f"raises {type(e).__name__}: {e}"[:200], {"series": one_year}))
        # 1f. forward cumulation with keyword shifts inverts the change with the same keyword, on a span whose reference
        #     periods all lie inside the sample (it starts at the first start-of-year period of the second year)
        if freq in (2, 4, 12) and length >= 2 * freq + 1:
            t0 = next(t for t in range(spec["start"] + freq, spec["start"] + length) if t % freq == 0)
            i0 = t0 - spec["start"]
            for kw in ("soy", "tty", "yoy", "eopy"):
                for base, cum in (("diff", "cum_diff"), ("roc", "cum_roc")):
                    try:
                        ch = getattr(ir, base)(x, kw)
                        sp = ir.Span(sc.mk_period(freq, t0), x.end)
                        back = getattr(ir, cum)(ch, kw, x, sp)
                        got = back.get_data(sp)
                        info["inverse_checks"] += 1
                        if not _close(got, X[i0:], 1e-8):
                            fails.append(Failure(f"inverse:{cum}:{kw}", f"{cum} (forward, shift '{kw}') of {base} with the original as initial does not reproduce the series "
                                                 "on a span whose reference periods are all inside the sample",
                                                 {"series": spec, "shift": kw, "span_start_serial": t0}, got.tolist(), X[i0:].tolist(),
                                                 f"irispie.{cum}(irispie.{base}(x,'{kw}'), '{kw}', x, span)"))
                    except Exception as e:  # noqa
                        fails.append(Failure(f"inverse:{cum}:{kw}:raises", f"{cum} with shift '{kw}' raises {type(e).__name__}: {e}"[:200],
                                             {"series": spec, "shift": kw}))
        # 2. cumulation inverts change, forward and backward, original series as initial condition
        for base, cum in (("diff", "cum_diff"), ("diff_log", "cum_diff_log"), ("pct", "cum_pct"), ("roc", "cum_roc")):
            for direction in ("forward", "backward"):
                try:
                    ch = getattr(ir, base)(x, -k)
                    if direction == "forward":
                        span = ir.Span(x.start + k, x.end)
                    else:
                        span = ir.Span(x.end - k, x.start, -1)
                    back = getattr(ir, cum)(ch, -k, x, span)
                    got = back.get_data(ir.Span(x.start, x.end))
                    info["inverse_checks"] += 1
                    if not _close(got, X, 1e-8):
                        fails.append(Failure(f"inverse:{cum}:{direction}",
                                             f"{cum} ({direction}) of {base} with the original as initial does not reproduce the series",
                                             {"series": spec, "shift": -k, "direction": direction}, got.tolist(), X.tolist(),
                                             f"irispie.{cum}(irispie.{base}(x,{-k}), {-k}, x, span)"))
                except Exception as e:  # noqa
                    fails.append(Failure(f"inverse:{cum}:{direction}:raises", f"{cum} ({direction}) raises {type(e).__name__}: {e}",
                                         {"series": spec, "shift": -k, "direction": direction}, repr(e), X.tolist(),
                                         f"irispie.{cum}(irispie.{base}(x,{-k}), {-k}, x, span)"))
        # 3. rate helpers are consistent with the change functions
        try:
            info["conversion_checks"] += 1
            pct = ir.pct(x, -1); roc = ir.roc(x, -1); apct = ir.apct(x); aroc = ir.aroc(x)
            sp = ir.Span(x.start + 1, x.end)
            checks = {
                "roc_from_pct": (ir.roc_from_pct(pct), roc), "pct_from_roc": (ir.pct_from_roc(roc), pct),
                "pct_from_apct": (ir.pct_from_apct(apct), pct), "roc_from_apct": (ir.roc_from_apct(apct), roc),
                "roc_from_aroc": (ir.roc_from_aroc(aroc), roc),
            }
            for nm, (a, b) in checks.items():
                if not _close(a.get_data(sp), b.get_data(sp), 1e-8):
                    fails.append(Failure(f"conversion:{nm}", f"{nm} is inconsistent with the change functions",
                                         {"series": spec}, a.get_data(sp).tolist(), b.get_data(sp).tolist(), f"irispie.{nm}"))
        except Exception as e:  # noqa
            fails.append(Failure("conversion:raises", f"rate helper raises {type(e).__name__}: {e}", {"series": spec}, repr(e)))
        if len(fails) > 20:
            break
    # positive shifts are rejected
    try:
        ir.diff(sc.mk_series({"freq": 4, "start": 8000, "nv": 1, "rows": [[1.0], [2.0]]}), 1)
        fails.append(Failure("shift:not-rejected", "a positive shift is accepted", {"shift": 1}))
    except ValueError:
        pass
    except Exception as e:  # noqa
        fails.append(Failure("shift:wrong-error", f"positive shift raises {type(e).__name__}", {"shift": 1}))
    # de-duplicate by key
    seen, uniq = set(), []
    for f_ in fails:
        if f_.key not in seen:
            seen.add(f_.key); uniq.append(f_)
    return uniq, info


def replay(ctx, failure: dict):
    fs, _ = falsify(ctx, {})
    for f in fs:
        if f.key == failure["key"]:
            return f
    return None
